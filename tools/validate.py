import json, sys, glob, jsonschema
jsonschema.validate(json.load(open('/verif/MANIFEST.json')), json.load(open('/root/.vp/MANIFEST.schema.json')))
S = json.load(open('/root/.vp/EVIDENCE.schema.json'))
for f in sorted(glob.glob('/verif/evidence/*.json')):
    try: jsonschema.validate(json.load(open(f)), S); print("ok", f)
    except Exception as e: print("BAD", f, str(e)[:300])
