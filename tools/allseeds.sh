#!/bin/sh
# runs every seeded change against the check of its property; prints one line per seed
cd /verif
for d in seeded/*/; do
  n=$(basename $d); p=${n%_*}
  git -C /repo apply /verif/$d/patch.diff 2>/dev/null || { echo "$n: PATCH DOES NOT APPLY"; continue; }
  out=$(./check $p 2>&1); rc=$?
  git -C /repo checkout -- .
  how=$(echo "$out" | grep "^VIOLATION" | head -1 | sed 's/.*replay=replays\/[^\/]*\///' | cut -c1-90)
  echo "$n: exit $rc $how"
done
