#!/bin/sh
# dev tool: tools/procseed.sh <name>  -- takes a finished seed from /tmp/seedwt/<name>/_seed, confirms it, removes the worktree, runs the property's check against it
N="$1"; P="${N%%_*}"
mkdir -p /tmp/seed/out/$N && cp /tmp/seedwt/$N/_seed/* /tmp/seed/out/$N/ 2>/dev/null
sh /verif/tools/confirm_seed.sh $N || { echo "$N: not kept"; git -C /repo worktree remove --force /tmp/seedwt/$N 2>/dev/null; exit 1; }
git -C /repo worktree remove --force /tmp/seedwt/$N 2>/dev/null
python3 /verif/tools/seedtable.py $N
