import sys, time
sys.path.insert(0, '/verif')
from pyvc.verify import verify_contract
import importlib
mod = importlib.import_module(sys.argv[1])
only = sys.argv[2] if len(sys.argv) > 2 else None
for c in mod.CONTRACTS:
    if only and only not in c.target and only != type(c).__name__: continue
    t=time.time(); out = verify_contract(c)
    rs = out["results"]
    nd = sum(r.discharged for r in rs.values()); ni = sum(r.instances for r in rs.values()); nv = sum(r.vacuous for r in rs.values())
    print(f"{type(c).__name__}: {c.target}: paths={out['paths']} obligations={ni} discharged={nd} vacuous={nv} names={len(rs)} {time.time()-t:.1f}s")
    for r in rs.values():
        if r.status != 'discharged':
            print("   ", r.status, r.name, r.instances, r.discharged)
            for f in (r.failed+r.unknown)[:3]: print("       ", f[0], '|', f[1][:150], '|', f[2], '|', f[3][:400])
    for u in out['undecided'][:8]: print("   UNDECIDED", u)
    for e in out['errors'][:5]: print("   ERROR", e[-600:])
