#!/bin/sh
# usage: tools/seedtest.sh <patch.diff> <PID> [extra check args]   -- applies the patch to /repo, runs the check, restores /repo
P="$1"; PID="$2"; shift 2
cd /verif
git -C /repo apply "$P" || { echo "patch does not apply"; exit 9; }
./check "$PID" "$@"; RC=$?
git -C /repo checkout -- . 
echo "seedtest: $P -> exit $RC"
exit $RC
