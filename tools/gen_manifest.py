#!/usr/bin/env python3
"""Regenerate /verif/MANIFEST.json from the table below (kept in one place so it stays valid)."""
import json
import os

ROOT = os.path.dirname(os.path.dirname(os.path.abspath(__file__)))
BASE_TRUST = ("Trusted: pyvc's own encoding of the CPython subset (cross-checked, not proved), z3 as back end, the dependency/external "
              "contracts named in the evidence file's trusted_base; bounded parts are labelled bounded and never counted as proved.")

# pid -> (category, text, design_ref, technique, note)
TECH = "contract-based deductive verification: own VC generator over the real /repo AST, sidecar contracts, z3 (cvc5 finite model finding for counter-models)"
FS_NOTE = BASE_TRUST + " FS tier: POSIX contracts of os.replace/remove/makedirs, shutil.rmtree/copytree (multi-step), the synced_collections read/write contract, CALC as function of the JSON value."
SYNC_NOTE = BASE_TRUST + " Sync tier: filecmp.dircmp listing contract (left_only / diff_files / subdirs; deep = content comparison), shutil.copytree 'always creates the destination directories', dict semantics of documents, os.stat mtime."
CLAIMS = {
    "C01": ("other", "calc_id's call-site conformance to the canonical-JSON / UTF-8 / MD5 contracts proved (any other json.dumps option, encoder, encoding or digest use fails the postcondition); "
            "both loaders return only data whose re-derived id equals the requested id; open_job hands Job an unaliased deep copy; Job.__init__ derives the id from the state point. "
            "The json/md5 contracts themselves (canonical form, type-exact round trip) are assumed and validated by the bounded layer against an independent canonical writer. Also under C01: the statepoint getter / setter, cached_statepoint, _get_statepoint and _update_in_memory_cache (every lookup validates what it reads against the id; the cached copy is plain data).",
            "DESIGN 4/C01, 11", TECH + " with keyed contracts for json.dumps/md5; bounded validation of the dependency contracts", BASE_TRUST),
    "C02": ("other", "Contracts discharged for all symbolic pre-states and injected faults on Project.open_job (by state point: no disk effect, unaliased copy; by cached id; by full uncached id; by "
            "abbreviated id: resolved against the job directories only, unique => that job, none => KeyError, ambiguous => LookupError), Job.__init__, Job.init (creates a validating directory, "
            "idempotent, never rewrites without force), _StatePointDict.save/load (save-if-absent, load returns only validated data and leaves the in-memory data alone when the file is rejected), "
            "the listing generator _job_dirs, __len__, __contains__. Whole-session statements (fresh Project finds the job by every route) are bounded model-based histories: level 'other'. Added in the seed rounds: constructing a handle registers nothing in the project's cache; with force a valid state point file is not rewritten either (no-fault case); open_job by a cached id.",
            "DESIGN 4/C02, 11", TECH + " over a structured FS ghost state; filtered id collections for prefix resolution", FS_NOTE),
    "C03": ("other", "One Hoare triple per mutating operation (init, remove, clear, reset, re-key _save, move, clone, statepoint setter, update_statepoint, open_job, Job.__init__): each preserves the "
            "job class invariant and the frame 'every other job untouched'; the lift to arbitrary histories is the induction over these triples (stated, not mechanised) and is sampled by the "
            "bounded model-based histories: level 'other'. Added in the seed rounds: __copy__, the state point setter with a shallow-copy sibling, _StatePointDict.load (fills the in-memory data), Job.move with an open document handle. Round 11: Project.clone with a stale cached state point on the cloned handle (also under C01). Round 12: open_job(statepoint) keeps an unaliased deep copy (checked under C04 too); update_cache writes the strict JSON text of the cache (under C01 too).",
            "DESIGN 4/C03, 11", TECH + ": class invariant + per-operation triples", FS_NOTE),
    "C04": ("other", "Re-key (_StatePointDict._save) proved for an arbitrary number of live handles: directory moved with all entries, new state point written, no backup left, every handle follows; "
            "DestinationExistsError implies byte-identical state; occupied destination never clobbered. Job.move, Project.clone, the statepoint setter and update_statepoint (conflict => KeyError "
            "without effect; otherwise the live state point updated) likewise. Job's copy / pickle protocol methods (__getstate__, __setstate__, __deepcopy__) are under contract (F22 repaired); whole copy / pickle round trips are bounded (known finding F26 for re-keys inside a buffered block). Added in the seed rounds: Job.__copy__ (the original's state point object exists and is shared with the copy: defect F28 repaired), the setter's shallow-copy sibling, load and update_statepoint under C04 as well.",
            "DESIGN 4/C04, 11", TECH + ", arbitrary-element loop rule for the handle list", FS_NOTE),
    "C05": ("other", "What signac itself contributes is proved: Job.document hands out one cached BufferedJSONAttrDict bound to this job's document file with write_concern=True, only after the "
            "directory exists; `job.document = v` resets that persistent document exactly once whatever the value; handles are dropped on remove / id change (re-key contract, also checked under C05); signac.buffered & "
            "friends are attributes of that very class. The dict / buffering semantics themselves belong to the dependency: assumed, and checked bounded against a plain dict model (dependency "
            "findings F23/F24 recorded; F26: a state point change after a buffered document write loses the buffered content). Added in the seed rounds: Job.clear / Job.move / Job.__deepcopy__ / Project.__init__ (path spelling) / open_job by a cached id are checked under C05 too; the document getter never writes and reuses an open handle whatever its content.", "DESIGN 4/C05, 11", TECH + " of the wiring; bounded model-equality contract for the dependency's dict semantics", FS_NOTE),
    "C06": ("other",
            "Contracts on the real query-evaluation chain (Project._find_job_ids / find_jobs, _SearchIndexer.build_index, _find_with_index_operator per operator and argument container, "
            "_find_expression, _find_result, Project._build_index, _root_keys/_add_prefix) discharged for all inputs against a per-job matcher specification; regex and isclose are uninterpreted (wiring proved). Known finding F3 "
            "($type bool vs 0/1 conflation) is reported, so the level is 'other' rather than 'proof'; a bounded run-time contract check of find() against a reference evaluator is the "
            "stand-in/replay oracle. Defects F29 (mappings inside lists) and F30 (-1 / -1.0 in the typed index) were found by the bounded layer and repaired.",
            "DESIGN 4/C06, 11", TECH + " + bounded contract checking as replay oracle", BASE_TRUST),
    "C07": ("other", "_add_prefix / _root_keys proved per filter entry over z3 strings (a key gets the default sp. prefix iff it names no namespace; every operand of $and/$or/$not is reached), "
            "with counter-models replayed as concrete keys; JobsCursor len / membership / indexing proved to describe the one id list obtained from _find_job_ids with the cursor's own filter; "
            "JobsCursor.groupby proved over a filter-meaning evaluator: exactly the cursor's jobs (having every key when no default is given) are grouped, one key function sorts and groups, "
            "the label is the job's own value, nested keys looked up level by level (defect F6 found and repaired); the command-line front end (_cast, _parse_single, parse_simple, parse_filter_arg) and the "
            "cursor / iterator wiring likewise. Spelling equivalences over whole queries are bounded. Added in the seed rounds: parse_filter (white-space tokenisation), _parse_json, and the token recognisers _is_json_like / _is_regex over an arbitrary z3 string.",
            "DESIGN 4/C07, 11", TECH + " incl. string theory; bounded contract checking for the string front ends", BASE_TRUST),
    "C08": ("other", "Cache validity invariant (every entry hashes to its key) proved as an invariant of every function that writes the in-memory or persistent cache under contract "
            "(_get_statepoint, _read_cache, update_cache, Job.init, move, re-key, statepoint setter); update_cache postcondition: the file lists exactly the workspace ids, 'nothing to do' iff it "
            "already did; _get_statepoint returns a value hashing to the id whether it came from the cache or the workspace (transparency); _update_in_memory_cache proved (exactly the workspace ids "
            "afterwards; pool.map by an arbitrary-element rule on the real closure) on top of _split_and_print_progress (the chunks tile the list for every length and chunk count). "
            "ThreadPool.map = one call per element is assumed: level 'other'. Added in the seed rounds: Job.init with a stale cached state point in its precondition, update_statepoint, open_job by id and the listing functions are checked under C08 as well. Round 11: _get_statepoint on the first look-up of a session with a stale cache file.", "DESIGN 4/C08, 11", TECH + ", cache maps as z3 arrays", FS_NOTE),
    "C09": ("other", "Hash validation on load (_StatePointDict.load: returns only data whose id matches, otherwise JobsCorruptedError naming the job), Job.init(force), Project.check (accumulator "
            "invariant: names exactly the damaged ids, reads the workspace not the cache) and Project.repair (per-job triple, cache first, no exception escapes) discharged. 'Every repairable job "
            "is repaired' over whole workspaces is bounded (damage scenarios).", "DESIGN 4/C09, 11", TECH, FS_NOTE),
    "C10": ("other", "update_cache crash invariant asserted after every file-system effect incl. create/truncate and torn writes of the temp file: the cache file is always the complete old "
            "or a complete new content, only the '~' temp file may be torn, temp removed on error. Documents: the constructor sites pass write_concern=True (call-site obligations) and opening "
            "a persistent job file for writing in place is a forbidden effect for Job.clear / Job.reset and every other function under a job contract; the dependency's temp+replace contract "
            "itself is assumed and exercised by the bounded crash-injection layer (process killed at every file-system step). Added in the seed rounds: the document setters, Job.__deepcopy__ (the copy's document handle keeps its write concern) and _migrate_v1_to_v2 (an in-place open is an effect) are checked under C10.", "DESIGN 4/C10, 11",
            TECH + " with effect traces; bounded crash injection", FS_NOTE),
    "C11": ("other", "Crash-point invariants asserted after every file-system effect on every path, and exceptional postconditions for an injected OSError (symbolic errno != ENOENT) at every external, "
            "for Job.init, _StatePointDict.save/load, the re-key protocol, move, clone, remove, clear, reset, check and the repair body. Multi-step externals (rmtree, copytree) by assumed "
            "partial-effect contracts; a bounded fault / crash injection layer runs the same operations natively. Added in the seed rounds: update_statepoint (one whole assignment) and os.path.isfile under stat faults in the re-key. Round 11: the Job.statepoint getter (a failed lazy load leaves the handle lazy). Round 12: repair creates a directory under the correct id only by moving the job there.",
            "DESIGN 4/C11, 11", TECH + " with effect traces and fault injection at every external", FS_NOTE),
    "C12": ("other", "Rely/guarantee verification at file-system-call granularity of the actor functions Project.__init__, _mkdir_p and Job.init (executed down through Job.statepoint, "
            "_StatePointDict.load/save and the dependency's read/write contracts): under interference by any number of other actors of the script set before every file-system call, no "
            "exception escapes, the job directory holds a valid state point on return, and every own effect is a step the others may rely on. This covers every interleaving, not a sample. "
            "Document-write visibility and torn-read freedom rest on the dependency's atomic-replace contract (assumed; see C10); listing under interference and the whole-run lemma are not "
            "mechanised; a bounded two-process scheduler (one preemption at every file-system step of one process) runs the actor scripts natively: level 'other'. Added in the seed rounds: the document getter never writes (a first read cannot race with a write) and _job_dirs tolerates a missing workspace; reader-preempted schedules in the bounded layer. Round 11: open_job(statepoint) (the handle knows its state point whether or not a directory of that id exists).",
            "DESIGN 4/C12, 11", TECH + " in rely/guarantee mode: interference before every external, guarantee obligation per effect", FS_NOTE),
    "C13": ("other", "One directory level of the file walk (_sync_job_workspaces) proved for all listings, exclude sets and strategies: left-only files copied iff not excluded, left-only directories iff "
            "recursive, differing files iff the strategy says so, nothing else copied, every copy goes to the same relative place, common sub-directories visited with all options forwarded (the recursive "
            "call is the induction hypothesis). sync_jobs / sync_projects wiring: reserved files excluded by exact name, exactly the selected jobs (an empty selection: none) cloned or synchronised, "
            "schema gate before any effect. Source-unchanged / idempotence / superset over whole projects: bounded run-time contracts. Added in the seed rounds: the file proxy methods, create_backup (an existing file under the backup name is refused and left alone) and FileSync.update (ties) are checked under C13; option values of the front ends are handed on by identity.", "DESIGN 4/C13, 11",
            TECH + " of the per-level triple and the call-site obligations; bounded contract checking of whole-project clauses", SYNC_NOTE),
    "C14": ("other", "'Overwritten iff the strategy returns true' and 'FileSyncConflict before touching any differing file' proved per directory level; FileSync.update / always / never proved against "
            "an os.stat model (update: iff the source is strictly newer); DocSync.ByKey per nesting level: a key is overwritten iff absent or differing-scalar-and-selected, differing mappings are "
            "merged recursively under the full dotted prefix, unselected conflicts recorded under their full name; create_backup / create_doc_backup: on any exception of the body the document "
            "is its pre-sync content and the backup is removed. Added in the seed rounds: DocSync.update against Python equality being coarser than JSON identity, the stale-backup cases of both backup functions, no buffering block around the forwarded sync call. Round 11: the backup context managers aborted by something that is not an Exception. Round 12: the symlink branch of _FileModifyProxy.copy removes a file at the destination before the link is made.", "DESIGN 4/C14, 11",
            TECH + ", generator context managers executed at their yield point", SYNC_NOTE),
    "C15": ("other", "Dry-run frame proved for every method of _FileModifyProxy and _DocProxy (no file-system call, no document mutation, completes like the live run), for ByKey's nested writes (gated "
            "destination required at the recursive call) and up through sync_jobs (never initialises the destination in a dry run); deep / recursive / exclude / strategy / proxy forwarding proved as call-site "
            "obligations of sync_jobs, sync_projects and the recursive walk. parallel=True/N: bounded only (thread pool outside the sequential executor). Added in the seed rounds: the parallel branch of sync_projects (ThreadPool.imap as 'f once per job'), bulk document mutators as effects, the methodmap class constant of _dircmp_deep.", "DESIGN 4/C15, 11",
            TECH + ": frame obligations on an effect log, call-site forwarding obligations", SYNC_NOTE),
    "C16": ("other", "Export side under contract: _check_directory_structure_validity proved with loop invariants over a token-prefix theory (accepted iff no export path is a proper token prefix of "
            "another, in any order), _check_path_function_unique (refused iff two jobs share a path), _make_path_function (a generated path function is only returned after the one-to-one check), "
            "_make_schema_based_path_function (three nested loop invariants: a job's automatic path is exactly one (key, str(value)) pair per reported non-excluded key it is listed under, in report order; "
            "the returned closure executed for an arbitrary job), _AutoPathFormatter.format_field, the three copy executors, "
            "_export_jobs (checks before the first copy, exactly one copy and one report per job); Project.clone / Job.init carry 'never overwrites an existing job'. Import side: _crawl_directory_data_space (an identified job directory is pruned in place from the walk), "
            "_analyze_directory_for_import (refused iff two sources map to one job), _copy_to_job_workspace, _with_consistency_check. The zip / tar analysers (a directory becomes a job iff identified and not below an identified one), export_jobs, the three exporters and the import front ends are under "
            "contract as well; the archive libraries themselves are trusted and whole round trips are decided by the bounded layer. Four defects found this way were repaired (F17, F18, F19, F25). Added in the seed rounds: _make_schema_based_path_function, the copy executors, _AutoPathFormatter.format_field, and the flatten / unflatten helpers on a family of concrete mappings.", "DESIGN 4/C16, 11",
            TECH + " for the export-side checks; bounded run-time contract checking (stand-in, labelled bounded) for whole round trips", BASE_TRUST),
    "C17": ("other", "_update_view proved with loop invariants over three symbolic work lists: every obsolete path removed, every changed link unlinked and re-created, every new link created, "
            "nothing else touched, and an early 'up to date' exit only when all lists are empty; _analyze_view (obsolete = every non-empty dead branch but the root, deepest first; "
            "new / to_update by set algebra), _find_all_links (leaf among sub-directories or files), _make_link and the tree helpers (_color_path, _build_tree over a path-prefix theory; _find_dead_branches by structural "
            "induction) likewise, and the automatic path function shared with export (_make_schema_based_path_function: the path spells exactly the job's reported keys and own values). create_linked_view and the whole-view statements (one link per job, equals a from-scratch "
            "build, idempotent) are bounded; F18 / F20 / F21 were found and repaired.", "DESIGN 4/C17, 11",
            TECH + " of _update_view; bounded contract checking of the view as a whole", BASE_TRUST),
    "C18": ("other", "diff_jobs proved against set algebra on flattened (key, value) pairs for 0..3 jobs of arbitrary content (each diff = pairs not shared by all; common + diff reconstructs); "
            "detect_schema proved to summarise exactly the selected existing jobs (an empty selection selects nothing) with exclude_const forwarded; _build_index per job; _build_job_statepoint_index with loop invariants (exactly the state point keys of the indexed jobs; a key is left out iff constants are excluded "
            "and one value is shared by all jobs). The value index itself (_SearchIndexer.build_index) is bounded (known finding F3). Added in the seed rounds: the flatten / unflatten helpers on a family of concrete mappings; defects F29 and F30 found by the bounded layer and repaired. Round 11: diff_jobs makes leaf values hashable (F31 repaired), _strip_prefix over an arbitrary z3 string, raw values compared with the empty mapping.", "DESIGN 4/C18, 11",
            TECH + "; bounded contract checking against reference summaries", BASE_TRUST),
    "C19": ("other", "_locate_config_dir proved with loop invariants and a decreasing variant over an axiomatised directory chain; Project.get_project (nearest enclosing project, only the directory "
            "itself without search, LookupError conditions), Project.get_job (the last id-like path component, project searched from its parent), Project.init_project (an existing project is "
            "returned without any write; nothing is written before the legacy gate) and the module-level front ends proved on top of it. Whole directory trees incl. symlinks and relative paths "
            "are bounded. Added in the seed rounds: path queries in the module-level forwarders; non-existent paths and stray signac.rc files in the bounded trees. Round 11: _load_config (the user-level file first, the project's own config last). Round 12: Project.__init__ (the workspace is <path>/workspace whatever the configuration holds).", "DESIGN 4/C19, 11", TECH + ", inductive loop invariants over a directory-chain theory", BASE_TRUST),
    "C20": ("other", "Integer contract of the version gate (_check_schema_compatibility passes iff version == 2, for every integer), _raise_if_older_schema refuses every loadable config of "
            "another version, _locate_config_dir's legacy scan, init_project's legacy gate, and the migration chain (_collect_migrations, apply_migrations, _migrate_v1_to_v2: exactly the "
            "documented effects in order) discharged; configobj / filelock and end-to-end preservation of every job are bounded (legacy configurations migrated with the real code). Added in the seed rounds: configurations without a version, sessions that use '.' for two projects in turn. Round 11: _load_config (the project's declared schema_version wins over ~/.signacrc).",
            "DESIGN 4/C20, 11", TECH, BASE_TRUST),
}

NOT_YET = "not yet under contract in this round of the build (see DESIGN.md section 8 for the order); no check is registered, nothing is claimed"

NA = {}

props = [json.loads(l) for l in open(os.path.join(ROOT, "properties.jsonl"))]
checks, na = [], []
for p in props:
    pid = p["id"]
    if pid in CLAIMS:
        cat, text, ref, tech, note = CLAIMS[pid]
        checks.append({
            "property_id": pid,
            "quick_cmd": f"./check {pid} --tier quick",
            "thorough_cmd": f"./check {pid} --tier thorough",
            "evidence_file": f"/verif/evidence/{pid}.json",
            "replay_cmd_template": f"./check {pid} --replay {{path}}",
            "engine": "pyvc",
            "level_claimed": {"category": cat, "text": text, "design_ref": ref},
            "level_note": note,
            "technique": tech,
        })
    else:
        na.append({"property_id": pid, "reason": NA.get(pid, NOT_YET)})

manifest = {
    "version": 1,
    "setup_cmd": "./setup.sh",
    "hooks": {
        "guard": "SIGNAC_VERIF",
        "enable": "no hooks: contracts are sidecar files under /verif/contracts, the real source is re-parsed read-only on every run",
        "baseline_off_cmd": "cd /repo && /venv/bin/python -m pytest -ra -q -p no:cacheprovider --timeout=900 --continue-on-collection-errors",
        "source_commits": [],
        "add_only": True,
    },
    "engines": [
        {"name": "pyvc", "path": "/verif/pyvc", "serves_properties": sorted(CLAIMS),
         "kind_free_text": "verification-condition generator: symbolic execution of the real /repo ASTs against sidecar contracts, obligations discharged by z3"},
        {"name": "pybound", "path": "/verif/pybound", "serves_properties": sorted(CLAIMS),
         "kind_free_text": "bounded stand-in: the same contracts checked at run time on the real functions over enumerated small scopes (labelled bounded)"},
    ],
    "checks": checks,
    "not_applicable": na,
    "notes": "exit codes: 0 held / 1 VIOLATION (+replay) / 2 undecided / 3 checker crash. Known findings: /verif/known_findings.json.",
}
json.dump(manifest, open(os.path.join(ROOT, "MANIFEST.json"), "w"), indent=1)
print("claimed:", [c["property_id"] for c in checks], "n/a:", len(na))
