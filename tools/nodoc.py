"""Print a python file without docstrings/comments-only lines/blank lines, keeping original line numbers."""
import ast, sys, io, tokenize
src = open(sys.argv[1]).read()
tree = ast.parse(src)
skip = set()
for n in ast.walk(tree):
    if isinstance(n, (ast.FunctionDef, ast.ClassDef, ast.Module, ast.AsyncFunctionDef)):
        b = n.body
        if b and isinstance(b[0], ast.Expr) and isinstance(b[0].value, ast.Constant) and isinstance(b[0].value.value, str):
            skip.update(range(b[0].lineno, b[0].end_lineno + 1))
    elif isinstance(n, ast.Expr) and isinstance(n.value, ast.Constant) and isinstance(n.value.value, str):
        skip.update(range(n.lineno, n.end_lineno + 1))
lo = int(sys.argv[2]) if len(sys.argv) > 2 else 1
hi = int(sys.argv[3]) if len(sys.argv) > 3 else 10**9
for i, l in enumerate(src.splitlines(), 1):
    if i in skip or not l.strip() or l.strip().startswith("#") or i < lo or i > hi: continue
    print(f"{i}\t{l}")
