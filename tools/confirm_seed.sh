#!/bin/sh
# usage: tools/confirm_seed.sh <name e.g. C06_1>   -- confirms a seeded change in a scratch worktree and stores it under /verif/seeded/<name>
N="$1"; SRC=/tmp/seed/out/$N; WT=/tmp/seed/confirm_$N; OUT=/verif/seeded/$N
[ -f "$SRC/patch.diff" ] || { echo "$N: no patch"; exit 1; }
git -C /repo worktree remove --force "$WT" 2>/dev/null; rm -rf "$WT"
git -C /repo worktree add -q --detach "$WT" HEAD || exit 1
cd "$WT" && git apply "$SRC/patch.diff" || { echo "$N: patch does not apply"; git -C /repo worktree remove --force "$WT"; exit 1; }
T=$(/venv/bin/python -m pytest -q -p no:cacheprovider -x tests --deselect tests/test_shell.py 2>&1 | tail -1)
(cd /repo && /venv/bin/python "$SRC/demo.py" >/dev/null 2>&1); D0=$?
(cd "$WT" && /venv/bin/python "$SRC/demo.py" >/dev/null 2>&1); D1=$?
cd /; git -C /repo worktree remove --force "$WT"; rm -rf "$WT"
echo "$N: tests: $T | demo unchanged exit=$D0 | demo changed exit=$D1"
case "$T" in *failed*|*error*) echo "$N: REJECT (tests fail)"; exit 1;; esac
if [ "$D0" = 0 ] && [ "$D1" != 0 ]; then
  mkdir -p "$OUT"; cp "$SRC/patch.diff" "$SRC/demo.py" "$OUT/"
  python3 - "$SRC/meta.json" "$OUT/meta.json" "$T" "$D0" "$D1" <<'PY'
import json,sys
m=json.load(open(sys.argv[1]))
m["confirmed"]={"tests_with_change":sys.argv[3],"demo_exit_unchanged":int(sys.argv[4]),"demo_exit_changed":int(sys.argv[5]),
 "how":"scratch worktree of /repo HEAD + git apply patch.diff; pytest -x tests --deselect tests/test_shell.py; demo.py run with cwd=/repo and cwd=worktree"}
json.dump(m,open(sys.argv[2],"w"),indent=1)
PY
  echo "$N: KEPT"
else echo "$N: REJECT (demo)"; exit 1; fi
