"""debug: dump the SMT query of the first unknown/sat instance of an obligation whose name contains argv[3]; argv: module Class substring"""
import sys
sys.path.insert(0, '/verif')
import importlib
from pyvc import core
mod = importlib.import_module(sys.argv[1])
sub = sys.argv[3]
orig = core.solve
seen = []
def spy(pc, goal, timeout_ms=10000, seed=0):
    r = orig(pc, goal, timeout_ms, seed)
    if CUR[0] and sub in CUR[0] and r[0] != "unsat" and not seen:
        seen.append(1)
        open("/tmp/ob.smt2", "w").write(core.smt2_of(pc, goal))
        print("dumped", CUR[0], r[0], len(pc), "conjuncts")
        for c in pc:
            print("   ", str(c)[:300].replace("\n", " "))
    return r
core.solve = spy
CUR = [None]
import pyvc.verify as V
class Spy(dict):
    pass
o_setdefault = None
from pyvc.verify import verify_contract
# hook: wrap Result creation to learn the current obligation name
oR = V.Result
class R2(oR):
    pass
import builtins
# simplest: monkeypatch Obligation name access through the loop: patch core.solve caller via frame inspection
import inspect
def spy2(pc, goal, timeout_ms=10000, seed=0):
    f = inspect.currentframe().f_back
    while f is not None and "ob" not in f.f_locals:
        f = f.f_back
    CUR[0] = f.f_locals["ob"].name if f is not None else None
    return spy(pc, goal, timeout_ms, seed)
core.solve = spy2
for c in mod.CONTRACTS:
    if type(c).__name__ == sys.argv[2]:
        verify_contract(c)
