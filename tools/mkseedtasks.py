#!/usr/bin/env python3
"""dev tool: creates one scratch worktree /tmp/seedwt/<pid>_<n> per property with a TASK.md for a fresh sub-agent (property text only, nothing from /verif)"""
import json, os, subprocess, glob
props={json.loads(l)['id']:json.loads(l) for l in open('/verif/properties.jsonl')}
names=[]
import sys
ONLY=set(sys.argv[1:])
for pid in sorted(props):
    if ONLY and pid not in ONLY:
        continue
    p=props[pid]
    existing=sorted(glob.glob(f"/verif/seeded/{pid}_*/meta.json"))
    nums=[int(os.path.basename(os.path.dirname(f)).split("_")[1]) for f in existing]
    name=f"{pid}_{max(nums)+1}"
    names.append(name)
    wt=f"/tmp/seedwt/{name}"
    if not os.path.isdir(wt):
        subprocess.run(["git","-C","/repo","worktree","add","-q","--detach",wt,"HEAD"],check=True)
    prev=[]
    for f in existing:
        m=json.load(open(f))
        prev.append("- ["+", ".join(m.get("files",[]))[:40]+"] "+m["summary"][:110].replace("\n"," ")+" ...")
    task=f"""# Task: write one realistic change to this repository that breaks a stated property

You work ONLY inside this directory: {wt} (a git worktree of the signac repository, Python package `signac`, tests in `tests/`).
Do not read or write anything outside it (in particular not /repo and not /verif). Do not commit. There is no network.
Do NOT use `git stash` (the stash is shared with other worktrees of this repository): to test the unchanged code, save your change with
`git diff > {wt}/_seed/my.diff`, undo it with `git apply -R`, and re-apply it with `git apply`.

## The property (of signac) that your change must break

**{p['title']}**

{p['statement']}

Quantified over: {p['quantifier']['text']}

Where the behaviour lives: {", ".join(p['anchors']['files'])}; mechanisms: {"; ".join(m['name']+' ('+m['where']+')' for m in p['anchors']['mechanism'])}

## What to produce

1. A **small, realistic source change** under `signac/` (the kind of thing that gets merged: an optimisation, a refactoring, a
   "simplification", a bug fix for something else, a changed default, a reordered statement, an off-by-one, a wrong variable, a missing
   case, a changed comparison or boundary) after which the property above is **false for some inputs / histories**, while
   * the code still imports and the whole test suite still passes:
     `cd {wt} && /venv/bin/python -m pytest -q -p no:cacheprovider --timeout=900 --deselect tests/test_shell.py` must report **310 passed**
     (same as before your change; do not edit tests);
   * the breakage needs **something specific** to show (a particular kind of input, option, order of operations, pre-existing state, or
     failure) — not every use of the function must fail;
   * it is not a syntax error, not an added `raise`/`assert False`, not a deleted feature, not dead code, and it must not special-case
     a magic constant.
   Prefer a **minimal edit inside an existing function** (one or two lines) over rewriting an algorithm.
   Dozens of changes of this kind already exist (listed below with the files they touch). Yours must be in a **different function** than
   all of them and rest on a **different idea**. The easy spots are taken: look for the subtle one — a condition that is almost always
   true, an `else` branch or `except` clause that rarely runs, a boundary (`<` vs `<=`, first / last element, empty input), an
   argument passed positionally to the wrong parameter, a value reused after it went stale, two statements whose order matters only
   when something fails in between.
{chr(10).join(prev)}
2. `{wt}/_seed/patch.diff` — output of `git diff` for your change (only files under `signac/`).
3. `{wt}/_seed/demo.py` — a self-contained script that imports signac **from the current working directory**
   (`sys.path.insert(0, os.getcwd())` before `import signac`), uses only temporary directories, exercises the property through
   signac's public behaviour, and **exits 0 when the property holds and 1 when it is violated**. It must exit 0 on the unchanged code
   and 1 with your change applied. Keep it deterministic and under 30 s.
4. `{wt}/_seed/meta.json` — {{"property": "{pid}", "summary": "<what the change is and why the property breaks>", "needs": "<what is needed for it to show>",
   "files": [...], "tests_passed": <n>, "demo_unchanged_exit": 0, "demo_changed_exit": 1}}

Leave the change applied in the worktree when you finish. In your final answer give a two-line description of the change.
"""
    os.makedirs(wt+"/_seed",exist_ok=True)
    open(wt+"/TASK.md","w").write(task)
print(" ".join(names))
