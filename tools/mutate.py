#!/usr/bin/env python3
"""dev tool: tools/mutate.py <file relative to repo, e.g. signac/job.py> <PID[,PID]> [check args] <<< 'old\n===\nnew'
Applies a textual mutation to a scratch copy of /repo/signac (never /repo itself), runs the checks against it with a time limit."""
import os, shutil, subprocess, sys, tempfile
rel, pids = sys.argv[1], sys.argv[2].split(",")
extra = sys.argv[3:]
old, new = sys.stdin.read().split("\n===\n")
old, new = old.strip("\n"), new.rstrip("\n").lstrip("\n")
d = tempfile.mkdtemp(prefix="mutrepo_")
try:
    shutil.copytree("/repo/signac", os.path.join(d, "signac"), ignore=shutil.ignore_patterns("__pycache__"))
    path = os.path.join(d, rel)
    src = open(path).read()
    assert src.count(old) == 1, f"pattern occurs {src.count(old)} times"
    open(path, "w").write(src.replace(old, new))
    env = dict(os.environ, PYVC_REPO=d, PYTHONPATH=d)
    for pid in pids:
        try:
            p = subprocess.run(["/verif/check", pid] + extra, capture_output=True, text=True, cwd="/verif", env=env, timeout=600)
            lines = [l[:260] for l in p.stdout.splitlines() if l.startswith(("VIOLATION", "[", "  UNDECIDED", "  ERROR", "  CRASH", "  GUARD", "  UNKNOWN", "KNOWN"))]
            print("\n".join(lines[:7])); print(f"--> {pid} exit {p.returncode}")
        except subprocess.TimeoutExpired:
            print(f"--> {pid} TIMEOUT")
finally:
    shutil.rmtree(d, ignore_errors=True)
