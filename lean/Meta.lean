/-
Meta-lemmas used (as stated assumptions) by the pyvc contracts of /verif, mechanised here.
Checked by `lean` (toolchain /opt/veriftools/lean, Mathlib v4.33.0) in the thorough tier of C03, C07 and C08.

1. `inv_after_history`   : the lift from per-operation triples to arbitrary histories (C03, C08: class invariant / cache validity).
2. `nodup_same_set_length`: two duplicate-free listings of one set have the same length (JobsCursor.__len__, C07).
3. `values_card_eq_iff_injective`: len(set(values)) = len(mapping) iff no two keys have equal values (archive import analysers, C16).
4. `pointwise_map`       : a per-entry contract lifts to the whole mapping (_add_prefix / _root_keys / proxy methods: C06, C07, C15).
5. `tiling_prefix`       : chunks that each start where the previous one ended tile a prefix (_split_and_print_progress, C08).
-/
import Mathlib.Data.List.Nodup
import Mathlib.Data.List.Perm.Basic
import Mathlib.Data.Finset.Card
import Mathlib.Data.Finset.Image

theorem inv_after_history {S Op : Type} (step : Op → S → S) (Inv : S → Prop)
    (h : ∀ o s, Inv s → Inv (step o s)) : ∀ (ops : List Op) (s : S), Inv s → Inv (ops.foldl (fun s o => step o s) s) := by
  intro ops
  induction ops with
  | nil => intro s hs; simpa using hs
  | cons o os ih => intro s hs; exact ih (step o s) (h o s hs)

/-- with failing operations: an operation either preserves the invariant or leaves the state untouched -/
theorem inv_after_history_partial {S Op : Type} (step : Op → S → Option S) (Inv : S → Prop)
    (h : ∀ o s s', Inv s → step o s = some s' → Inv s') :
    ∀ (ops : List Op) (s : S), Inv s → Inv (ops.foldl (fun s o => (step o s).getD s) s) := by
  intro ops
  induction ops with
  | nil => intro s hs; simpa using hs
  | cons o os ih =>
    intro s hs
    apply ih
    cases hso : step o s with
    | none => simpa [hso] using hs
    | some s' => simpa [hso] using h o s s' hs hso

theorem nodup_same_set_length {α : Type} [DecidableEq α] (l₁ l₂ : List α) (h₁ : l₁.Nodup) (h₂ : l₂.Nodup)
    (h : ∀ x, x ∈ l₁ ↔ x ∈ l₂) : l₁.length = l₂.length :=
  ((List.perm_ext_iff_of_nodup h₁ h₂).2 h).length_eq

theorem values_card_eq_iff_injective {κ ν : Type} [DecidableEq ν] (keys : Finset κ) (f : κ → ν) :
    (keys.image f).card = keys.card ↔ Set.InjOn f keys := by
  exact Finset.card_image_iff

theorem pointwise_map {α β : Type} (f : α → β) (P : α → β → Prop) (h : ∀ a, P a (f a)) (l : List α) :
    List.Forall₂ P l (l.map f) := by
  induction l with
  | nil => exact List.Forall₂.nil
  | cons a as ih => exact List.Forall₂.cons (h a) ih

/-- chunk i covers [start i, stop i); each starts where the previous one ended: the first n chunks cover exactly [start 0, stop (n-1)) -/
theorem tiling_prefix (start stop : ℕ → ℕ) (n : ℕ) (hmono : ∀ i, i < n → start i ≤ stop i)
    (hglue : ∀ i, i + 1 < n → start (i + 1) = stop i) (k : ℕ) (hn : 0 < n) (hk0 : start 0 ≤ k) (hk1 : k < stop (n - 1)) :
    ∃ i, i < n ∧ start i ≤ k ∧ k < stop i := by
  induction n with
  | zero => omega
  | succ m ih =>
    by_cases hm : m = 0
    · subst hm; exact ⟨0, by omega, hk0, by simpa using hk1⟩
    · by_cases hlast : start m ≤ k
      · exact ⟨m, by omega, hlast, by simpa using hk1⟩
      · have hm' : 0 < m := Nat.pos_of_ne_zero hm
        have hg : start m = stop (m - 1) := by
          have := hglue (m - 1) (by omega)
          rwa [Nat.sub_add_cancel hm'] at this
        obtain ⟨i, hi, h1, h2⟩ := ih (fun i hi => hmono i (by omega)) (fun i hi => hglue i (by omega)) hm' (by omega)
        exact ⟨i, by omega, h1, h2⟩
