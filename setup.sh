#!/bin/sh
# Build the overlay venv used by every check: /venv's python 3.12 (has signac's deps) + z3/cvc5/crosshair/deal from the offline wheelhouse.
set -e
cd "$(dirname "$0")"
if [ -x .venv/bin/python ] && .venv/bin/python -c "import z3, cvc5, deal, crosshair, synced_collections" 2>/dev/null; then
  echo "setup: .venv already usable"; exit 0
fi
rm -rf .venv
/venv/bin/python -m venv .venv
.venv/bin/pip install -q --no-index --find-links /opt/veriftools/wheels z3-solver cvc5 crosshair-tool deal icontract >/dev/null
SP=$(.venv/bin/python -c "import sysconfig; print(sysconfig.get_paths()['purelib'])")
echo "import site; site.addsitedir('/venv/lib/python3.12/site-packages')" > "$SP/_overlay.pth"
.venv/bin/python -c "import z3, cvc5, deal, crosshair, synced_collections; print('setup ok: z3', z3.get_version_string())"
