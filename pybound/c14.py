"""Bounded stand-in for C14 (never counted as proved): run-time sync contracts on real project pairs, see syncharness."""
import contextlib
import io
import json
import os

from .common import Budget, dir_scratch, script_header
from .syncharness import run_focus


def stale_backup_check():
    """'when document synchronisation raises ... the destination document is exactly its pre-sync content' also when a backup file left
    behind by an interrupted sync sits next to the destination document (job level and project level; the sync may refuse up front)"""
    import logging
    import signac
    logging.disable(logging.CRITICAL)
    out = []
    for level in ("job", "project"):
        with dir_scratch() as d:
            os.makedirs(d + "/src")
            os.makedirs(d + "/dst")
            src, dst = signac.init_project(d + "/src"), signac.init_project(d + "/dst")
            js, jd = src.open_job({"a": 1}).init(), dst.open_job({"a": 1}).init()
            if level == "job":
                js.doc["k"], jd.doc["k"] = 2, 1
                js.doc["only_src"] = 0
                fn = jd.fn("signac_job_document.json")
            else:
                src.doc["k"], dst.doc["k"] = 2, 1
                src.doc["only_src"] = 0
                fn = dst.fn("signac_project_document.json")
            pre = open(fn, "rb").read()
            open(fn + "~", "wb").write(b'{"stale": true}')
            err = None
            try:
                with contextlib.redirect_stdout(io.StringIO()):
                    dst.sync(src)      # default document strategy: the differing key k is a conflict
            except Exception as e:
                err = e
            now = open(fn, "rb").read()
            if err is None:
                out.append((level, f"{level} document with a conflicting key and a stale backup file next to it: the sync did not raise"))
            elif json.loads(now.decode() or "{}") != json.loads(pre.decode()):
                out.append((level, f"{level} document sync raised {type(err).__name__} with a stale backup file next to the document: the destination document is now "
                                   f"{now.decode()[:80]!r}, its pre-sync content was {pre.decode()[:80]!r}"))
    return out


def rollback_entry_points_check():
    """'when document synchronisation raises DocumentSyncConflict the destination document is exactly its pre-sync content': documents that
    overlap partly (one key to add, one key in conflict), through Job.sync, Project.sync, sync_jobs and sync_projects"""
    import logging
    import signac
    from signac.errors import DocumentSyncConflict
    from signac.sync import sync_jobs, sync_projects
    logging.disable(logging.CRITICAL)
    out = []
    for entry in ("Job.sync", "Project.sync", "sync_jobs", "sync_projects"):
        for order in ("add-first", "conflict-first"):
            with dir_scratch() as d:
                os.makedirs(d + "/src")
                os.makedirs(d + "/dst")
                src, dst = signac.init_project(d + "/src"), signac.init_project(d + "/dst")
                js, jd = src.open_job({"a": 1}).init(), dst.open_job({"a": 1}).init()
                keys = (("a_new", "z_conf") if order == "add-first" else ("z_new", "a_conf"))
                js.doc[keys[0]] = "added"
                js.doc[keys[1]] = 2
                jd.doc[keys[1]] = 1
                jd.doc["dst_only"] = [1, 2]
                fn = jd.fn("signac_job_document.json")
                pre = json.loads(open(fn, "rb").read().decode())
                call = {"Job.sync": lambda: jd.sync(js), "Project.sync": lambda: dst.sync(src), "sync_jobs": lambda: sync_jobs(js, jd), "sync_projects": lambda: sync_projects(src, dst)}[entry]
                err = None
                try:
                    with contextlib.redirect_stdout(io.StringIO()):
                        call()
                except DocumentSyncConflict as e:
                    err = e
                except Exception as e:
                    out.append((f"{entry}:{order}", f"{entry} over partly overlapping documents raised {type(e).__name__}: {e}"))
                    continue
                now = json.loads(open(fn, "rb").read().decode())
                fresh = json.loads(json.dumps(signac.Project(dst.path).open_job(id=jd.id).doc()))
                if err is None:
                    out.append((f"{entry}:{order}", f"{entry} over documents with a conflicting key did not raise DocumentSyncConflict"))
                elif now != pre or fresh != pre:
                    out.append((f"{entry}:{order}", f"{entry} raised DocumentSyncConflict but the destination document is {now} (fresh handle: {fresh}); before the sync it was {pre}"))
    return out


def update_overwrites_all_check():
    """'DocSync.update overwrites all': also a value that differs from the destination's only as a JSON value (1 / true / 1.0), top level and
    nested, job and project level -- compared through the JSON text of the file"""
    import logging
    import signac
    from signac.sync import DocSync
    logging.disable(logging.CRITICAL)
    out = []
    for level in ("job", "project"):
        with dir_scratch() as d:
            os.makedirs(d + "/src")
            os.makedirs(d + "/dst")
            src, dst = signac.init_project(d + "/src"), signac.init_project(d + "/dst")
            js, jd = src.open_job({"a": 1}).init(), dst.open_job({"a": 1}).init()
            sdoc, ddoc = (js.doc, jd.doc) if level == "job" else (src.doc, dst.doc)
            for k, v in {"k": 1, "f": 2, "other": 0, "n": {"x": 1}}.items():
                ddoc[k] = v
            for k, v in {"k": True, "f": 2.0, "other": 5, "n": {"x": 1.0}}.items():
                sdoc[k] = v
            fn = jd.fn("signac_job_document.json") if level == "job" else dst.fn("signac_project_document.json")
            try:
                with contextlib.redirect_stdout(io.StringIO()):
                    dst.sync(src, doc_sync=DocSync.update)
            except Exception as e:
                out.append((level, f"{level} document sync with DocSync.update raised {type(e).__name__}: {e}"))
                continue
            got = json.dumps(json.loads(open(fn, "rb").read().decode()), sort_keys=True)
            want = json.dumps({"k": True, "f": 2.0, "other": 5, "n": {"x": 1.0}}, sort_keys=True)
            if got != want:
                out.append((level, f"{level} document after a sync with DocSync.update is {got}; the source document, which update() copies key by key, is {want}"))
    return out


def run(tier="quick", seed=0):
    r = run_focus("C14", tier, seed, Budget(14 if tier == "quick" else 300))
    for level, msg in stale_backup_check():
        r["failures"].append({"key": "doc-rollback:stale-backup:" + level, "description": msg,
                              "script": script_header() + "sys.path.insert(0, '/verif')\nfrom pybound.c14 import stale_backup_check\nr = stale_backup_check()\nassert not r, r\n"})
    for key, msg in rollback_entry_points_check():
        r["failures"].append({"key": "doc-rollback:entry-point:" + key, "description": msg,
                              "script": script_header() + "sys.path.insert(0, '/verif')\nfrom pybound.c14 import rollback_entry_points_check\nr = rollback_entry_points_check()\nassert not r, r\n"})
    r["evaluations"] += 8
    r["scope"] += "; roll-back of partly overlapping documents through Job.sync / Project.sync / sync_jobs / sync_projects"
    for level, msg in update_overwrites_all_check():
        r["failures"].append({"key": "doc-update:type-only-difference:" + level, "description": msg,
                              "script": script_header() + "sys.path.insert(0, '/verif')\nfrom pybound.c14 import update_overwrites_all_check\nr = update_overwrites_all_check()\nassert not r, r\n"})
    r["evaluations"] += 4
    r["scope"] += "; DocSync.update over values that differ only as JSON values (1 / true / 1.0), top level and nested"
    r["scope"] += "; a conflicting document sync with a stale backup file next to the destination document (job and project level): raises and leaves the document as it was"
    return r
