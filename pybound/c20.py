"""Bounded stand-in for C20 (never counted as proved): the product of legacy configurations is migrated with the real
apply_migrations and compared with the pre-migration content; other schema versions are refused by Project / get_project / init_project."""
import io
import contextlib
import itertools
import json
import os
import shutil

from .common import Budget, dir_scratch, script_header


def make_legacy(root, version, name, workspace_dir, old_files, njobs):
    """build a schema-version-1 style project (signac.rc) by hand; returns {id: (sp, doc, files)}"""
    import signac
    tmp = root + "_tmp"
    os.makedirs(tmp)
    p = signac.init_project(tmp)
    content = {}
    for i in range(njobs):
        j = p.open_job({"a": i, "s": "x" * i}).init()
        j.doc["d"] = {"i": i}
        open(j.fn("f.txt"), "w").write(str(i))
        content[j.id] = ({"a": i, "s": "x" * i}, {"d": {"i": i}}, {"f.txt": str(i)})
    os.makedirs(root)
    wsd = workspace_dir or "workspace"
    os.makedirs(os.path.dirname(os.path.join(root, wsd)) or root, exist_ok=True)
    shutil.move(os.path.join(tmp, "workspace"), os.path.join(root, wsd))
    shutil.rmtree(tmp)
    from signac._vendor.configobj import ConfigObj
    c = ConfigObj()                      # written the way signac 1.x wrote it (values quoted where needed)
    c.filename = os.path.join(root, "signac.rc")
    c["project"] = name
    if workspace_dir is not None:
        c["workspace_dir"] = workspace_dir
    if version is not None:
        c["schema_version"] = str(version)
    c.write()
    if old_files:
        open(os.path.join(root, ".signac_shell_history"), "w").write("hist")
        open(os.path.join(root, ".signac_sp_cache.json.gz"), "wb").write(b"")
    return content


def read_project(p):
    out = {}
    for j in p:
        files = {f: open(j.fn(f)).read() for f in os.listdir(j.path) if f not in ("signac_statepoint.json", "signac_job_document.json")}
        out[j.id] = (json.loads(json.dumps(j.statepoint())), json.loads(json.dumps(j.doc())), files)
    return out


def scenario(version, name, workspace_dir, old_files, njobs, collide):
    import signac
    from signac.errors import IncompatibleSchemaVersion
    from signac.migration import apply_migrations
    with dir_scratch() as d:
        root = os.path.join(d, "proj")
        content = make_legacy(root, version, name, workspace_dir, old_files, njobs)
        if collide and workspace_dir not in (None, "workspace"):
            os.makedirs(os.path.join(root, "workspace"))
        # a legacy project is never opened or modified by Project / get_project / init_project
        snap = sorted(os.listdir(root))
        for fn in (lambda: signac.Project(root), lambda: signac.get_project(root), lambda: signac.init_project(root)):
            try:
                fn()
                return "a legacy (schema < 2) project was opened without migration"
            except IncompatibleSchemaVersion:
                pass
            except Exception as e:
                return f"legacy project: expected IncompatibleSchemaVersion, got {type(e).__name__}: {e}"
        if sorted(os.listdir(root)) != snap:
            return f"refusing a legacy project modified it: {sorted(os.listdir(root))} vs {snap}"
        with contextlib.redirect_stderr(io.StringIO()):
            try:
                apply_migrations(root)
                migrated = True
            except RuntimeError as e:
                migrated = False
        if collide and workspace_dir not in (None, "workspace"):
            if migrated:
                return "migration did not refuse although 'workspace' already exists"
            if not os.path.isdir(os.path.join(root, workspace_dir)) or set(os.listdir(os.path.join(root, workspace_dir))) != set(content):
                return "a refused migration moved or lost job directories"
            return None
        if not migrated:
            return "migration of a migratable project raised RuntimeError"
        p = signac.Project(root)
        got = read_project(p)
        if got != content:
            return f"after migration: {sorted(got)} / content differs from {sorted(content)}"
        if name != "None" and p.doc.get("signac_project_name") != name:
            return f"project name {name!r} not preserved: {p.doc()}"
        if name == "None" and "signac_project_name" in p.doc:
            return "default project name was stored"
        if old_files and not (os.path.isfile(os.path.join(root, ".signac", "shell_history")) and os.path.isfile(os.path.join(root, ".signac", "statepoint_cache.json.gz"))):
            return "cache / history files were not moved to their v2 names"
        if os.path.exists(os.path.join(root, ".SIGNAC_PROJECT_MIGRATION_LOCK")):
            return "migration lock file left behind"
        before = {dp: sorted(fn) for dp, dn, fn in os.walk(root)}
        with contextlib.redirect_stderr(io.StringIO()):
            apply_migrations(root)         # up to date: a no-op
        if {dp: sorted(fn) for dp, dn, fn in os.walk(root)} != before:
            return "migrating an up-to-date project changed it"
        return None


def newer_versions():
    import signac
    from signac.errors import IncompatibleSchemaVersion
    out = []
    for v in ("absent", 1, 3, 10):
        for layout in ("v2", "v1"):
            if layout == "v1" and v in ("absent", 1):
                continue        # the legacy layout at versions 0 / 1 is what the migration scenarios build
            with dir_scratch() as d:
                root = os.path.join(d, "p")
                if layout == "v2":
                    os.makedirs(os.path.join(root, ".signac"))
                    # a current-layout configuration that declares another version -- or none at all (absent means 0)
                    open(os.path.join(root, ".signac", "config"), "w").write("" if v == "absent" else f"schema_version = {v}\n")
                else:
                    os.makedirs(root)
                    open(os.path.join(root, "signac.rc"), "w").write(f"project = x\nschema_version = {v}\n")
                snap = {dp: sorted(fn) for dp, dn, fn in os.walk(root)}
                for nm, fn in (("Project", lambda: signac.Project(root)), ("get_project", lambda: signac.get_project(root)), ("init_project", lambda: signac.init_project(root))):
                    try:
                        fn()
                        out.append((f"newer:{layout}:{v}:{nm}", f"{nm} opened / initialised a {layout} project declaring schema version {v}"))
                    except IncompatibleSchemaVersion:
                        pass
                    except Exception as e:
                        out.append((f"newer:{layout}:{v}:{nm}", f"{nm} on a {layout} project with schema version {v}: expected IncompatibleSchemaVersion, got {type(e).__name__}: {e}"))
                if {dp: sorted(fn) for dp, dn, fn in os.walk(root)} != snap:
                    out.append((f"newer:{layout}:{v}:modified", f"a project declaring version {v} was modified"))
    return out


USER_CONFIG_CHILD = r"""
import json, os, sys, tempfile
import signac
from signac.errors import IncompatibleSchemaVersion
out = []
for declared in ("2", "absent", "1", "3", "10"):
    with tempfile.TemporaryDirectory() as d:
        root = os.path.join(d, "p")
        os.makedirs(os.path.join(root, ".signac"))
        open(os.path.join(root, ".signac", "config"), "w").write("" if declared == "absent" else "schema_version = %s\n" % declared)
        for nm, fn in (("Project", lambda: signac.Project(root)), ("get_project", lambda: signac.get_project(root)), ("init_project", lambda: signac.init_project(root))):
            try:
                fn()
                if declared != "2":
                    out.append([nm, declared, "opened"])
            except IncompatibleSchemaVersion:
                if declared == "2":
                    out.append([nm, declared, "refused"])
            except Exception as e:
                out.append([nm, declared, "%s: %s" % (type(e).__name__, e)])
print("RESULT " + json.dumps(out))
"""


def user_config_check():
    """the gate reads the version the *project* declares: a user-level ~/.signacrc (empty, declaring 2, declaring 1) changes nothing about
    which projects are opened and which are refused.  ~ is resolved when signac is imported, so each variant runs in a child process"""
    import subprocess
    import sys
    out = []
    for label, content in (("empty", ""), ("declaring 2", "schema_version = 2\n"), ("declaring 1", "schema_version = 1\n")):
        with dir_scratch() as home:
            open(os.path.join(home, ".signacrc"), "w").write(content)
            try:
                r = subprocess.run([sys.executable, "-c", script_header() + USER_CONFIG_CHILD], env=dict(os.environ, HOME=home), capture_output=True, text=True, timeout=60)
            except (subprocess.TimeoutExpired, OSError):
                continue        # the child could not be run / did not finish: not evaluated (never a violation)
            line = [l for l in r.stdout.splitlines() if l.startswith("RESULT ")]
            if not line:
                continue        # the child session did not get as far as a result (environment): not evaluated
            for nm, declared, what in json.loads(line[0][7:]):
                out.append((f"user-config:{label}:{declared}:{nm}", f"with a ~/.signacrc {label}: {nm} on a project declaring schema version {declared}: {what}"))
    return out


def relative_path_session_check():
    """the version gate looks at the directory it is asked about, also when the same relative spelling ('.') was used for another
    project earlier in the session: a good project first, then '.' inside a project of another version / a legacy project"""
    import signac
    from signac.errors import IncompatibleSchemaVersion
    out = []
    for other in ("v2-version-3", "legacy-v1", "v2-absent"):
        with dir_scratch() as d:
            good, bad = os.path.join(d, "good"), os.path.join(d, "bad")
            os.makedirs(good)
            signac.init_project(good)
            if other == "legacy-v1":
                make_legacy(bad, 1, "legacy name", None, False, 1)
            else:
                os.makedirs(os.path.join(bad, ".signac"))
                open(os.path.join(bad, ".signac", "config"), "w").write("schema_version = 3\n" if other == "v2-version-3" else "")
            cwd = os.getcwd()
            try:
                os.chdir(good)
                signac.Project(".")
                signac.get_project(".")
                os.chdir(bad)
                snap = {dp: sorted(fn) for dp, dn, fn in os.walk(bad)}
                for nm, fn in (("Project", lambda: signac.Project(".")), ("get_project", lambda: signac.get_project(".")), ("init_project", lambda: signac.init_project("."))):
                    try:
                        fn()
                        out.append((f"relative:{other}:{nm}", f"after Project('.') in an up-to-date project, {nm}('.') inside a {other} project was accepted"))
                    except IncompatibleSchemaVersion:
                        pass
                    except Exception as e:
                        out.append((f"relative:{other}:{nm}", f"{nm}('.') inside a {other} project: expected IncompatibleSchemaVersion, got {type(e).__name__}: {e}"))
                if {dp: sorted(fn) for dp, dn, fn in os.walk(bad)} != snap:
                    out.append((f"relative:{other}:modified", f"the {other} project was modified"))
            finally:
                os.chdir(cwd)
    return out


def run(tier="quick", seed=0):
    b = Budget(16 if tier == "quick" else 200)
    evals, distinct, failures, samples = 0, set(), [], []
    space = list(itertools.product((None, 1), ("None", "plain", "my project, v1"), (None, "workspace", "custom_ws", "nested/ws"), (False, True), (0, 1, 3, 5), (False, True)))
    if tier == "quick":
        import random
        random.Random(200 + seed).shuffle(space)
        space = space[:40]
    for cfg in space:
        if not b.left() or failures:
            break
        try:
            bad = scenario(*cfg)
        except Exception:
            import traceback
            bad = "scenario crashed: " + traceback.format_exc()[-600:]
        evals += 1
        distinct.add(cfg)
        if len(samples) < 3:
            samples.append([str(x) for x in cfg])
        if bad:
            failures.append({"key": "migrate:" + str(cfg)[:70], "description": bad + f" (configuration {cfg})",
                             "script": script_header() + f"sys.path.insert(0, '/verif')\nfrom pybound.c20 import scenario\nbad = scenario(*{cfg!r})\nassert not bad, bad\n"})
    def guarded(fn, key):
        try:
            return fn()
        except BaseException as e:      # also AssertionError from inside the code under test: a failure of the probe, not a crash of the checker
            import traceback
            return [(key + ":raised", f"{fn.__name__} raised {type(e).__name__}: {str(e)[:200]} :: {traceback.format_exc()[-300:]}")]
    for key, desc in guarded(relative_path_session_check, "relative"):
        failures.append({"key": key, "description": desc, "script": script_header() + "sys.path.insert(0, '/verif')\nfrom pybound.c20 import relative_path_session_check\nr = relative_path_session_check()\nassert not r, r\n"})
    for key, desc in guarded(user_config_check, "user-config")[:3]:
        failures.append({"key": key, "description": desc, "script": script_header() + "sys.path.insert(0, '/verif')\nfrom pybound.c20 import user_config_check\nr = user_config_check()\nassert not r, r\n"})
    evals += 3
    for key, desc in guarded(newer_versions, "newer"):
        failures.append({"key": key, "description": desc, "script": script_header() + "sys.path.insert(0, '/verif')\nfrom pybound.c20 import newer_versions\nr = newer_versions()\nassert not r, r\n"})
        evals += 1
    return {"scope": "legacy configurations: schema_version in {absent, 1} x project names (default 'None', plain, with spaces/punctuation) x workspace_dir in {absent, 'workspace', custom, nested} "
                     "x old cache/history files x 0/1/3/5 jobs with documents and files x colliding 'workspace' (exhaustive in the thorough tier, 40 sampled in quick); "
                     "versions absent (0), 1, 3, 10 declared in the current layout and 3, 10 in the legacy layout against Project / get_project / init_project",
            "evaluations": evals, "distinct_nontrivial": len(distinct), "rule": "a case is one legacy configuration migrated end to end; distinct by configuration tuple", "samples": samples, "failures": failures}
