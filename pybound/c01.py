"""Bounded stand-in for C01 (never counted as proved): calc_id == md5(independent canonical JSON writer) over enumerated state
points, all key permutations and container spellings, type-distinctness, session order, write/read round trip, golden ids."""
import hashlib
import itertools
import json
import random

from .common import Budget, project_scratch, script_header


def canon(v):
    """independent canonical JSON writer: sorted keys, ', ' / ': ' separators, ASCII escapes, Python float repr"""
    if v is None:
        return "null"
    if v is True:
        return "true"
    if v is False:
        return "false"
    if isinstance(v, int):
        return str(v)
    if isinstance(v, float):
        return float.__repr__(v)
    if isinstance(v, str):
        out = ['"']
        for ch in v:
            o = ord(ch)
            if ch == '"':
                out.append('\\"')
            elif ch == "\\":
                out.append("\\\\")
            elif ch == "\n":
                out.append("\\n")
            elif ch == "\r":
                out.append("\\r")
            elif ch == "\t":
                out.append("\\t")
            elif ch == "\b":
                out.append("\\b")
            elif ch == "\f":
                out.append("\\f")
            elif o < 0x20 or o > 0x7E:
                if o > 0xFFFF:
                    o -= 0x10000
                    out.append("\\u%04x\\u%04x" % (0xD800 + (o >> 10), 0xDC00 + (o & 0x3FF)))
                else:
                    out.append("\\u%04x" % o)
            else:
                out.append(ch)
        out.append('"')
        return "".join(out)
    if isinstance(v, (list, tuple)):
        return "[" + ", ".join(canon(x) for x in v) + "]"
    if isinstance(v, dict):
        return "{" + ", ".join(canon(k) + ": " + canon(v[k]) for k in sorted(v)) + "}"
    raise TypeError(type(v))


def ref_id(v):
    return hashlib.md5(canon(v).encode("utf-8")).hexdigest()


GOLDEN = {  # published signac examples
    "9bfd29df07674bc4aa960cf661b5acd2": {"a": 0},
    "42b7b4f2921788ea14dac5566e6f06d0": {"a": 1},
}

SCALARS = [None, True, False, 0, 1, -1, 2 ** 40, 1.0, 0.5, -2.25, 1e-7, "", "1", "a", "é", "日本", "a b", "x\ny", "\U0001F600"]


def spellings(v, rnd):
    """container spellings of the same JSON value: dict key orders, tuple vs list, synced collections"""
    from synced_collections.backends.collection_json import JSONAttrDict
    yield v
    if isinstance(v, dict):
        keys = list(v)
        for perm in itertools.islice(itertools.permutations(keys), 6):
            yield {k: v[k] for k in perm}
        yield {k: (tuple(x) if isinstance(x, list) else x) for k, x in v.items()}
        try:
            yield JSONAttrDict(data=json.loads(json.dumps(v)))
        except Exception:
            pass


def gen_value(rnd, depth):
    r = rnd.random()
    if depth == 0 or r < 0.55:
        return rnd.choice(SCALARS)
    if r < 0.75:
        return [gen_value(rnd, depth - 1) for _ in range(rnd.randint(0, 3))]
    return {rnd.choice(["a", "b", "c", "k1", "é"]): gen_value(rnd, depth - 1) for _ in range(rnd.randint(0, 3))}


def run(tier="quick", seed=0):
    from signac.job import calc_id
    b = Budget(10 if tier == "quick" else 120)
    rnd = random.Random(4242 + seed)
    evals, distinct, failures, samples = 0, set(), [], []

    def fail(key, desc, script):
        if len(failures) < 3:
            failures.append({"key": key, "description": desc, "script": script_header() + script})

    for gid, sp in GOLDEN.items():
        evals += 1
        if calc_id(sp) != gid:
            fail("golden", f"calc_id({sp}) = {calc_id(sp)}, published id {gid}", f"from signac.job import calc_id\nassert calc_id({sp!r}) == {gid!r}\n")
    # type distinctness in ONE session, both orders (1 vs 1.0 vs True vs '1', 0 vs False ...)
    groups = [[1, 1.0, True, "1"], [0, 0.0, False, "0", None], [[1, 2], [2, 1], [1, 2.0]], [{"x": 1}, {"x": 1.0}]]
    for g in groups:
        for order in (g, list(reversed(g))):
            ids = [calc_id({"a": v}) for v in order]
            evals += len(order)
            want = [ref_id({"a": v}) for v in order]
            if ids != want:
                fail("types-in-one-session", f"state points {{'a': v}} for v in {order} got ids {ids}, canonical hashes are {want}",
                     f"from signac.job import calc_id\nimport hashlib\nvals = {order!r}\nids = [calc_id({{'a': v}}) for v in vals]\nassert len(set(ids)) == len(ids), ids\n")
    # enumerated / random state points under all spellings
    n = 0
    while b.left() and n < (1500 if tier == "quick" else 100000) and not failures:
        n += 1
        sp = {rnd.choice(["a", "b", "c", "é", "k"]): gen_value(rnd, 3) for _ in range(rnd.randint(0, 4))}
        want = ref_id(sp)
        for s in spellings(sp, rnd):
            evals += 1
            got = calc_id(s)
            if got != want:
                fail("canonical:" + want[:8], f"calc_id of a spelling of {sp} is {got}, md5(canonical JSON) is {want}",
                     f"from signac.job import calc_id\nsp = {sp!r}\nassert calc_id(sp) == {want!r}, calc_id(sp)\n")
                break
        distinct.add(want)
        if len(samples) < 3:
            samples.append({"statepoint": sp, "id": want})
    # write / read round trip through a real job
    if not failures:
        with project_scratch() as p:
            for _ in range(20 if tier == "quick" else 300):
                sp = {rnd.choice(["a", "b", "c"]): gen_value(rnd, 2) for _ in range(rnd.randint(1, 3))}
                job = p.open_job(sp).init()
                evals += 1
                back = json.loads(open(job.fn("signac_statepoint.json")).read())
                if job.id != ref_id(sp) or ref_id(back) != job.id:
                    fail("roundtrip", f"job for {sp}: id {job.id}, canonical {ref_id(sp)}, file hashes to {ref_id(back)}", f"import signac, tempfile\nsp = {sp!r}\n"
                         "with tempfile.TemporaryDirectory() as d:\n    j = signac.init_project(d).open_job(sp).init()\n    import json\n"
                         "    assert j.id == " + repr(ref_id(sp)) + "\n")
    from .c02 import aliasing_checks
    for key, desc in aliasing_checks():
        evals += 1
        failures.append({"key": key, "description": desc, "script": ""})
    from .fsharness import KNOWN_SEEN, probe_known
    probe_known()
    if "dep:equal-value-other-type-ignored" in KNOWN_SEEN:
        failures.append({"key": "dep:equal-value-other-type-ignored", "description": "known finding re-observed", "script": ""})
    return {"scope": "golden ids; one-session type-distinctness groups in both orders; random nested state points to depth 3 / 4 entries over 19 scalars (non-ASCII, empty, big ints, floats) "
                     "under key permutations, tuple/list and JSONAttrDict spellings; write/read round trip through real jobs",
            "evaluations": evals, "distinct_nontrivial": len(distinct), "rule": "a case is one calc_id call; distinct = distinct canonical ids", "samples": samples, "failures": failures}
