"""Bounded harness for the sync properties C13 / C14 / C15 on real project pairs (never counted as proved)."""
import copy
import io
import contextlib
import json
import logging
import os
import random
import re
import shutil

from .common import scratch_root, script_header

logging.disable(logging.CRITICAL)

FILES = ["f1.txt", "f2.txt", "sub/g1.txt", "sub/deep/g2.txt", "only/h.txt", "keep.bak"]
CONTENTS = [b"AAAA", b"BBBB", b"CC"]
DOCV = [1, 2, "x", {"n": 1}, {"n": 2, "m": 1}, {"n": {"z": 1}}, [1, 2]]
SPS = [{"a": 1}, {"a": 2}, {"a": 3, "b": "x"}, {"a": {"n": 1}}]


def snapshot(root):
    out = {}
    for dp, dn, fn in os.walk(root):
        rel = os.path.relpath(dp, root)
        if rel.startswith(".signac"):
            continue
        if not fn and not dn:
            out[rel + "/"] = None
        for f in fn:
            p = os.path.join(dp, f)
            out[os.path.normpath(os.path.join(rel, f))] = (open(p, "rb").read(), int(os.path.getmtime(p)))
    return out


def build_pair(rnd, root):
    import signac
    ps = []
    for name in ("src", "dst"):
        d = os.path.join(root, name)
        os.makedirs(d)
        ps.append(signac.init_project(d))
    src, dst = ps
    for sp in SPS:
        where = rnd.choice(["src", "dst", "both", "both", "none"])
        for p, key in ((src, "src"), (dst, "dst")):
            if where in (key, "both"):
                j = p.open_job(sp).init()
                for f in FILES:
                    if rnd.random() < 0.45:
                        os.makedirs(os.path.dirname(j.fn(f)), exist_ok=True)
                        open(j.fn(f), "wb").write(rnd.choice(CONTENTS))
                        os.utime(j.fn(f), (1000, rnd.choice([1000, 1000, 2000, 3000])))
                for k in ("k1", "k2", "k3"):
                    if rnd.random() < 0.5:
                        j.doc[k] = copy.deepcopy(rnd.choice(DOCV))
    for p in (src, dst):
        if rnd.random() < 0.5:
            p.doc["pk"] = rnd.choice([1, 2])
    return src, dst


def gen_options(rnd):
    from signac.sync import DocSync, FileSync
    o = {}
    s = rnd.choice(["none", "always", "never", "update", "custom"])
    o["strategy_name"] = s
    o["strategy"] = {"none": None, "always": FileSync.always, "never": FileSync.never, "update": FileSync.update,
                     "custom": (lambda src, dst, fn: fn.endswith("1.txt"))}[s]
    d = rnd.choice(["default", "bykey_fn", "bykey_re", "update", "NO_SYNC", "COPY", "custom_update"])
    o["doc_sync_name"] = d
    o["doc_sync"] = {"default": None, "bykey_fn": DocSync.ByKey(lambda k: k.startswith("k1")), "bykey_re": DocSync.ByKey("k2"), "update": DocSync.update,
                     "NO_SYNC": DocSync.NO_SYNC, "COPY": DocSync.COPY, "custom_update": (lambda src, dst: dst.update(src))}[d]     # a caller's own strategy using the mapping interface
    o["recursive"] = rnd.random() < 0.6
    o["exclude"] = rnd.choice([None, None, r"keep\.bak", r"f2"])
    o["deep"] = rnd.random() < 0.4
    return o


def key_selected(o, name):
    d = o["doc_sync_name"]
    if d == "bykey_fn":
        return name.startswith("k1")
    if d == "bykey_re":
        return re.match("k2", name) is not None
    return False


def ref_doc_merge(o, src, dst, root=""):
    """expected destination document after a successful merge; raises KeyError('conflict') if ByKey() would refuse"""
    d = o["doc_sync_name"]
    if d in ("NO_SYNC", "COPY"):
        return copy.deepcopy(dst), []
    if d in ("update", "custom_update"):
        out = copy.deepcopy(dst)
        out.update(copy.deepcopy(src))
        return out, []
    out, skipped = copy.deepcopy(dst), []
    if src == dst:
        return out, skipped
    for k, v in src.items():
        if k in dst:
            if dst[k] == v:
                continue
            if isinstance(v, dict):
                if not isinstance(dst[k], dict):
                    raise TypeError("mixed-type conflict")
                out[k], sk = ref_doc_merge(o, v, dst[k], root + k + ".")
                skipped += sk
                continue
            if not key_selected(o, root + k):
                skipped.append(root + k)
                continue
        out[k] = copy.deepcopy(v)
    return out, skipped


def excluded(o, name):
    return o["exclude"] is not None and re.match(o["exclude"], name) is not None


def expect_file_sync(o, sfiles, dfiles, cloned):
    """per relative file name: expected destination content after a successful job-level file sync (None = must stay absent);
    returns (expected, conflict_name or None)"""
    exp = dict(dfiles)
    conflict = None
    dirs_in_dst = {os.path.dirname(f) for f in dfiles}
    all_dst_dirs = set()
    for d_ in dirs_in_dst:
        while d_:
            all_dst_dirs.add(d_)
            d_ = os.path.dirname(d_)
    for f, (c, mt) in sorted(sfiles.items()):
        parts = f.split(os.sep)
        if cloned:
            exp[f] = (c, mt)
            continue
        # walk down: every directory level must be common (else left-only dir => copytree iff recursive)
        lvl_excl = False
        for i, comp in enumerate(parts):
            sub = os.sep.join(parts[:i + 1])
            is_last = i == len(parts) - 1
            if excluded(o, comp):
                lvl_excl = True
                break
            if not is_last:
                if sub not in all_dst_dirs:
                    # left-only directory
                    if o["recursive"] and i == 0 or (o["recursive"]):
                        exp[f] = ("COPIED", None)
                    break
                if not o["recursive"]:
                    break
            else:
                if f not in dfiles:
                    exp[f] = ("COPIED", None)
                else:
                    dc, dmt = dfiles[f]
                    differs = (c != dc) if o["deep"] else (c != dc and not (len(c) == len(dc) and mt == dmt))
                    if o["deep"]:
                        differs = c != dc
                    if differs:
                        s = o["strategy_name"]
                        if s == "none":
                            conflict = conflict or f
                        else:
                            ow = {"always": True, "never": False, "update": mt > dmt, "custom": f.endswith("1.txt")}[s]
                            if ow:
                                exp[f] = ("COPIED", None)
    return exp, conflict


def job_files(job):
    out = {}
    for dp, dn, fn in os.walk(job.path):
        for f in fn:
            rel = os.path.normpath(os.path.relpath(os.path.join(dp, f), job.path))
            if rel in ("signac_statepoint.json", "signac_job_document.json"):
                continue
            p = os.path.join(dp, f)
            out[rel] = (open(p, "rb").read(), int(os.path.getmtime(p)))
    return out


def prepare(seed, focus, root):
    """the project pair, options, dry-run flag and selection of scenario `seed` (deterministic: a second call builds an identical pair)"""
    rnd = random.Random(seed)
    src, dst = build_pair(rnd, root)
    o = gen_options(rnd)
    dry = focus == "C15" and rnd.random() < 0.5
    sel = None
    if rnd.random() < 0.3:
        ids = [j.id for j in src]
        sel = rnd.sample(ids, rnd.randint(0, len(ids))) if ids else None
    return src, dst, o, dry, sel


PARALLEL_STATS = {"pairs_compared": 0}


def parallel_equals_sequential(seed, focus, sequential_tree, sig):
    """C15: the same sync with parallel=2 / parallel=True on an identically built pair gives the destination tree of the sequential run"""
    for par in (2, True):
        root2 = scratch_root()
        try:
            src2, dst2, o2, dry2, sel2 = prepare(seed, focus, root2)
            kw = dict(strategy=o2["strategy"], exclude=o2["exclude"], doc_sync=o2["doc_sync"], selection=sel2, recursive=o2["recursive"], deep=o2["deep"], dry_run=False, check_schema=False)
            try:
                with contextlib.redirect_stdout(io.StringIO()):
                    dst2.sync(src2, parallel=par, **kw)
            except Exception as e:
                return f"the sequential sync succeeded, the same sync with parallel={par!r} raised {type(e).__name__}: {e} (options {sig})"
            tree = {k: (v[0] if v else v) for k, v in snapshot(dst2.path).items()}
            if tree != sequential_tree:
                changed = sorted(k for k in set(tree) | set(sequential_tree) if tree.get(k, "absent") != sequential_tree.get(k, "absent"))[:4]
                return f"parallel={par!r} leaves a different destination tree than the sequential sync: {changed} (options {sig})"
            PARALLEL_STATS["pairs_compared"] += 1
        finally:
            shutil.rmtree(root2, ignore_errors=True)
    return None


def scenario(seed, focus):
    """one project pair + options; returns (failure text or None, signature)"""
    import signac
    from signac.errors import DocumentSyncConflict, FileSyncConflict, SchemaSyncConflict
    root = scratch_root()
    try:
        src, dst, o, dry, sel = prepare(seed, focus, root)
        sig = (o["strategy_name"], o["doc_sync_name"], o["recursive"], o["exclude"], o["deep"], dry, sel is not None)
        pre_src, pre_dst = snapshot(src.path), snapshot(dst.path)
        src_jobs = {j.id: j for j in src}
        dst_pre_jobs = {j.id: (job_files(j), json.loads(json.dumps(j.doc())) if j.isfile("signac_job_document.json") else {}) for j in dst}
        src_info = {i: (job_files(j), json.loads(json.dumps(j.doc())) if j.isfile("signac_job_document.json") else {}, json.loads(json.dumps(j.statepoint()))) for i, j in src_jobs.items()}
        kwargs = dict(strategy=o["strategy"], exclude=o["exclude"], doc_sync=o["doc_sync"], selection=sel, recursive=o["recursive"], deep=o["deep"], dry_run=dry, check_schema=False)
        err = None
        try:
            with contextlib.redirect_stdout(io.StringIO()):
                dst.sync(src, **kwargs)
        except (FileSyncConflict, DocumentSyncConflict) as e:
            err = e
        except TypeError as e:
            if "mixed-type" in str(e) or True:
                err = e
        except Exception as e:
            return f"sync raised {type(e).__name__}: {e} with options {sig}", sig
        post_src, post_dst = snapshot(src.path), snapshot(dst.path)
        if post_src != pre_src:
            return f"the SOURCE project changed during sync (options {sig})", sig
        if dry:
            if post_dst != pre_dst:
                changed = sorted(k for k in set(pre_dst) | set(post_dst) if pre_dst.get(k) != post_dst.get(k))[:4]
                return f"dry run changed the destination: {changed} (options {sig})", sig
            return None, sig
        selected = [i for i in src_jobs if sel is None or i in sel]
        # ---- expectations per selected job
        any_conflict = False
        for i in selected:
            sfiles, sdoc, ssp = src_info[i]
            cloned = i not in dst_pre_jobs
            dfiles, ddoc = dst_pre_jobs.get(i, ({}, {}))
            exp, conflict = expect_file_sync(o, sfiles, dfiles, cloned)
            if conflict:
                any_conflict = True
            if cloned:
                exp_doc = sdoc
                doc_conf = None
            else:
                try:
                    exp_doc, skipped = ref_doc_merge(o, sdoc, ddoc)
                    doc_conf = skipped if (skipped and o["doc_sync_name"] == "default") else None
                except TypeError:
                    doc_conf, exp_doc = "type", ddoc
                if doc_conf:
                    any_conflict = True
                    exp_doc = ddoc
            if err is not None:
                continue    # after a conflict only the global clauses below are checked
            jd = dst.open_job(id=i) if os.path.isdir(os.path.join(dst.workspace, i)) else None
            if jd is None:
                return f"selected source job {i} does not exist in the destination after a successful sync (options {sig})", sig
            if json.loads(json.dumps(jd.statepoint())) != ssp:
                return f"job {i}: state point differs after sync", sig
            now = job_files(jd)
            for f, e in exp.items():
                if e[0] == "COPIED":
                    if f not in now or now[f][0] != sfiles[f][0]:
                        return f"job {i[:6]}: file {f} should have been copied from the source (options {sig}); destination has {now.get(f, 'nothing')!r:.40}", sig
                elif f in dfiles:
                    if now.get(f, (None,))[0] != dfiles[f][0]:
                        return f"job {i[:6]}: destination file {f} changed although it must be kept (options {sig}, src {sfiles.get(f, ('-',))[0]!r}, was {dfiles[f][0]!r}, now {now.get(f, ('-',))[0]!r})", sig
            for f in now:
                if f not in exp and not cloned:
                    if not (f in sfiles):
                        return f"job {i[:6]}: unexpected new file {f}", sig
            if not cloned:
                for f in sfiles:
                    top = f.split(os.sep)[0]
                    if excluded(o, top) and f not in dfiles and f in now:
                        return f"job {i[:6]}: excluded file {f} was created (options {sig})", sig
            ndoc = json.loads(json.dumps(jd.doc())) if jd.isfile("signac_job_document.json") else {}
            if o["doc_sync_name"] != "COPY" and ndoc != exp_doc:
                return f"job {i[:6]}: document after sync {ndoc}, expected {exp_doc} (src {sdoc}, dst before {ddoc}, options {sig})", sig
        # unselected / destination-only jobs untouched
        for i, (dfiles, ddoc) in dst_pre_jobs.items():
            if i not in selected:
                jd = dst.open_job(id=i)
                if job_files(jd) != dfiles or (json.loads(json.dumps(jd.doc())) if jd.isfile("signac_job_document.json") else {}) != ddoc:
                    return f"destination job {i[:6]} outside the selection was modified (options {sig})", sig
        for i in src_jobs:
            if i not in selected and i not in dst_pre_jobs and os.path.isdir(os.path.join(dst.workspace, i)):
                return f"unselected source job {i[:6]} was created in the destination", sig
        if err is None and any_conflict and o["strategy_name"] == "none":
            pass
        if isinstance(err, DocumentSyncConflict):
            # roll-back: the destination document(s) that were being merged are exactly their pre-sync content
            for i, (dfiles, ddoc) in dst_pre_jobs.items():
                jd = dst.open_job(id=i)
                ndoc = json.loads(json.dumps(jd.doc())) if jd.isfile("signac_job_document.json") else {}
                sdoc = src_info.get(i, (None, None))[1]
                if sdoc is not None and ndoc != ddoc:
                    try:
                        exp_doc, skipped = ref_doc_merge(o, sdoc, ddoc)
                    except TypeError:
                        exp_doc, skipped = ddoc, ["x"]
                    if skipped and ndoc != ddoc:
                        return f"DocumentSyncConflict, but the document of job {i[:6]} is {ndoc}, pre-sync content was {ddoc}", sig
        if isinstance(err, FileSyncConflict) and o["strategy_name"] != "none":
            return f"FileSyncConflict raised although a strategy ({o['strategy_name']}) was given", sig
        if isinstance(err, FileSyncConflict):
            fn = err.filename
            hit = False
            for i, (dfiles, ddoc) in dst_pre_jobs.items():
                for f, (c, mt) in dfiles.items():
                    if os.path.basename(f) == os.path.basename(fn) and i in src_info and f in src_info[i][0]:
                        jd = dst.open_job(id=i)
                        if job_files(jd).get(f, (None,))[0] != c:
                            return f"FileSyncConflict for {fn}, but the conflicting destination file {f} of job {i[:6]} was modified", sig
        if err is None and focus == "C15" and seed % 2 == 0:
            bad = parallel_equals_sequential(seed, focus, {k: (v[0] if v else v) for k, v in post_dst.items()}, sig)
            if bad:
                return bad, sig
        # idempotence of a successful sync
        if err is None:
            with contextlib.redirect_stdout(io.StringIO()):
                try:
                    dst.sync(src, **kwargs)
                except Exception as e:
                    return f"repeating a successful sync raised {type(e).__name__}: {e} (options {sig})", sig
            again = snapshot(dst.path)
            if {k: v[0] if v else v for k, v in again.items()} != {k: v[0] if v else v for k, v in post_dst.items()}:
                changed = sorted(k for k in set(again) | set(post_dst) if (again.get(k) or (None,))[0] != (post_dst.get(k) or (None,))[0])[:4]
                return f"repeating the same sync changed the destination: {changed} (options {sig})", sig
        return None, sig
    finally:
        shutil.rmtree(root, ignore_errors=True)


def run_focus(focus, tier, seed, budget):
    evals, distinct, failures, samples = 0, set(), [], []
    n = 70 if tier == "quick" else 4000
    base = {"C13": 1300, "C14": 1400, "C15": 1500}[focus] * 1000 + seed * 100000
    for k in range(n):
        if not budget.left() or failures:
            break
        try:
            bad, sig = scenario(base + k, focus)
        except Exception:
            import traceback
            bad, sig = "scenario crashed: " + traceback.format_exc()[-700:], ("crash",)
        evals += 1
        distinct.add(sig)
        if len(samples) < 3:
            samples.append({"options": [str(x) for x in sig]})
        if bad:
            failures.append({"key": "sync:" + str(sig)[:70], "description": bad,
                             "script": script_header() + f"sys.path.insert(0, '/verif')\nfrom pybound.syncharness import scenario\nbad, sig = scenario({base + k}, {focus!r})\nassert not bad, bad\n"})
    return {"evaluations": evals, "distinct_nontrivial": len(distinct), "failures": failures, "samples": samples,
            "rule": "a case is one (project pair, option set) scenario; distinct by option signature",
            "scope": "project pairs over 4 state points (present in src / dst / both / none), 6 file names incl. nested directories, 3 contents, explicit mtimes, documents with flat / nested / "
                     "mixed-type conflicts; options: strategy in {None, always, never, update, custom}, doc_sync in {ByKey(), ByKey(fn), ByKey(regex), update, a custom dst.update(src), NO_SYNC, COPY}, recursive, exclude, "
                     "deep, selection, dry_run (C15); checks: source unchanged, superset, destination-only data unchanged, overwrite iff strategy, roll-back on DocumentSyncConflict, idempotence, dry run changes nothing; C15: every second successful scenario is repeated on an identically built pair with parallel=2 and parallel=True "
                     f"and must leave the sequential destination tree ({PARALLEL_STATS['pairs_compared']} comparisons in this run)"}
