"""Bounded stand-in for C04: model equality after random operation histories on real projects (never counted as proved)."""
from .common import Budget
from .fsharness import run_histories

RULE = "a case is one executed operation of a random history; non-trivial/distinct = distinct (operation kind, variant) pairs that actually executed"


def run(tier="quick", seed=0):
    b = Budget(12 if tier == "quick" else 240)
    r = run_histories(seed + 4, b, n_hist=40 if tier == "quick" else 2000, length=14 if tier == "quick" else 40, weights={"init": 3, "doc": 1, "file": 1, "rekey": 6, "move": 2, "clone": 2, "handle": 3})
    r.update(scope="random histories (length 14 quick / 40 thorough) of {init, doc edit/reset, file, remove, clear/reset, re-key by 6 routes, move, clone, handle copy/deepcopy/pickle/reopen/drop, "
                   "update_cache/restart/delete cache} over 2 projects, 4 keys x 8 values; model equality, check(), listing==len==membership, no temp files, live handles follow -- after every step; "
                   "plus: state point changes after a document write inside one signac.buffered() block (3 routes)", rule=RULE)
    from .c05 import rekey_in_buffer_check
    from .common import script_header
    for sig, msg in rekey_in_buffer_check():
        r["failures"].append({"key": "doc:rekey-inside-buffer:" + sig, "description": msg,
                              "script": script_header() + "sys.path.insert(0, '/verif')\nfrom pybound.c05 import rekey_in_buffer_check\nr = rekey_in_buffer_check()\nassert not r, r\n"})
    r["evaluations"] = r.get("evaluations", 0) + 3
    return r
