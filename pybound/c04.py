"""Bounded stand-in for C04: model equality after random operation histories on real projects (never counted as proved)."""
import json
import os

from .common import Budget
from .fsharness import run_histories

RULE = "a case is one executed operation of a random history; non-trivial/distinct = distinct (operation kind, variant) pairs that actually executed"


def copies_follow_check():
    """'every live copy of the handle follows': shallow copies (copy.copy) made from a materialised and from a lazy handle, the state point
    changed through the original or through the copy, by every route; afterwards all handles of the group describe the new job"""
    import copy
    import logging
    import signac
    from .common import project_scratch
    logging.disable(logging.CRITICAL)
    out = []
    routes = {"setitem": lambda h: h.sp.__setitem__("a", 2), "attr": lambda h: setattr(h.sp, "a", 2), "assign": lambda h: setattr(h, "statepoint", {"a": 2, "b": 0}),
              "update_statepoint": lambda h: h.update_statepoint({"c": 3}), "del": lambda h: h.sp.__delitem__("b"), "nested": lambda h: setattr(h.sp.n, "x", 9)}
    for made_from in ("materialised", "lazy", "moved"):
        for through in ("original", "copy"):
            for route, act in routes.items():
                with project_scratch() as p:
                    j0 = p.open_job({"a": 1, "b": 1, "n": {"x": 1}}).init()
                    j0.doc["d"] = 1
                    if made_from == "materialised":
                        orig = j0
                        orig.statepoint()
                    elif made_from == "moved":
                        # a handle that was just moved here from another project (its state point is reloaded lazily afterwards)
                        os.makedirs(p.path + "_other")
                        other = signac.init_project(p.path + "_other")
                        orig = other.open_job({"a": 1, "b": 1, "n": {"x": 1}}).init()
                        orig.doc["d"] = 1
                        orig.statepoint()
                        j0.remove()
                        orig.move(p)
                    else:
                        orig = signac.Project(p.path).open_job(id=j0.id)      # opened by id: the state point is not loaded yet
                    c = copy.copy(orig)
                    try:
                        act(orig if through == "original" else c)
                    except Exception as e:
                        out.append((f"{made_from}:{through}:{route}", f"state point change ({route}) through the {through} raised {type(e).__name__}: {e}"))
                        continue
                    ids = sorted(os.listdir(p.workspace))
                    bad = None
                    if len(ids) != 1:
                        bad = f"the workspace holds {ids}"
                    elif orig.id != ids[0] or c.id != ids[0]:
                        bad = f"the job is now {ids[0][:8]}, the original handle says {orig.id[:8]}, its shallow copy says {c.id[:8]}"
                    elif json.loads(json.dumps(orig.statepoint())) != json.loads(json.dumps(c.statepoint())) or os.path.realpath(orig.path) != os.path.realpath(c.path) \
                            or json.loads(json.dumps(c.doc())) != {"d": 1} or json.loads(json.dumps(orig.doc())) != {"d": 1}:
                        bad = "state point / path / document seen through the two handles differ"
                    if bad:
                        out.append((f"{made_from}:{through}:{route}", f"a shallow copy made from a {made_from} handle, state point changed ({route}) through the {through}: {bad}"))
    return out


def kept_nested_reference_check():
    """'nested edit' as a route of a state point change, through a reference to a nested mapping / list that the caller took BEFORE an
    earlier change: the edit still re-keys the job (new id = hash of the new state point, one directory, document carried along)"""
    import hashlib
    import logging
    import signac
    from .common import project_scratch
    logging.disable(logging.CRITICAL)
    out = []
    for first in ("setitem", "assign-same-nested", "update_statepoint", "reinit"):
        with project_scratch() as p:
            try:
                j = p.open_job({"a": 1, "n": {"x": 1}, "l": [1, 2]}).init()
                j.doc["d"] = 1
                sub, lst = j.sp.n, j.sp.l
                if first == "setitem":
                    j.sp.a = 2
                elif first == "assign-same-nested":
                    j.statepoint = {"a": 2, "n": {"x": 1}, "l": [1, 2]}
                elif first == "update_statepoint":
                    j.update_statepoint({"c": 3})
                else:
                    j.init()
                sub.x = 9
                lst.append(3)
                sp = json.loads(json.dumps(j.statepoint()))
                ids = sorted(os.listdir(p.workspace))
                want_n, want_l = {"x": 9}, [1, 2, 3]
                ok = sp.get("n") == want_n and sp.get("l") == want_l and ids == [hashlib.md5(json.dumps(sp, sort_keys=True).encode()).hexdigest()] and j.id == ids[0] \
                    and json.loads(json.dumps(j.doc())) == {"d": 1}
                if not ok:
                    out.append((first, f"a reference to a nested value taken before a state point change ({first}) and edited afterwards: the job's state point is {sp}, "
                                       f"the workspace holds {[i[:8] for i in ids]}, the handle says {j.id[:8]}"))
            except Exception as e:
                out.append((first, f"editing a nested value through a reference taken before a state point change ({first}) raised {type(e).__name__}: {str(e)[:200]}"))
    return out


def run(tier="quick", seed=0):
    b = Budget(12 if tier == "quick" else 240)
    r = run_histories(seed + 4, b, n_hist=40 if tier == "quick" else 2000, length=14 if tier == "quick" else 40, weights={"init": 3, "doc": 1, "file": 1, "rekey": 6, "move": 2, "clone": 2, "handle": 3})
    r.update(scope="random histories (length 14 quick / 40 thorough) of {init, doc edit/reset, file, remove, clear/reset, re-key by 6 routes, move, clone, handle copy/deepcopy/pickle/reopen/drop, "
                   "update_cache/restart/delete cache} over 2 projects, 4 keys x 8 values; model equality, check(), listing==len==membership, no temp files, live handles follow -- after every step; "
                   "plus: state point changes after a document write inside one signac.buffered() block (3 routes)", rule=RULE)
    from .c05 import rekey_in_buffer_check
    from .common import script_header
    for sig, msg in rekey_in_buffer_check():
        r["failures"].append({"key": "doc:rekey-inside-buffer:" + sig, "description": msg,
                              "script": script_header() + "sys.path.insert(0, '/verif')\nfrom pybound.c05 import rekey_in_buffer_check\nr = rekey_in_buffer_check()\nassert not r, r\n"})
    r["evaluations"] = r.get("evaluations", 0) + 3
    for sig, msg in kept_nested_reference_check():
        r["failures"].append({"key": "nested-reference:" + sig, "description": msg,
                              "script": script_header() + "sys.path.insert(0, '/verif')\nfrom pybound.c04 import kept_nested_reference_check\nr = kept_nested_reference_check()\nassert not r, r\n"})
    r["evaluations"] += 4
    for sig, msg in copies_follow_check():
        r["failures"].append({"key": "copy:does-not-follow:" + sig, "description": msg,
                              "script": script_header() + "sys.path.insert(0, '/verif')\nfrom pybound.c04 import copies_follow_check\nr = copies_follow_check()\nassert not r, r\n"})
    r["evaluations"] += 36
    r["scope"] += "; shallow copies (made from a materialised / a lazy / a just moved handle) x change through the original / the copy x 6 routes: every handle of the group describes the new job"
    return r
