"""Shared helpers of the bounded layer."""
import contextlib
import logging
import os
import shutil
import tempfile
import time


class Budget:
    def __init__(self, seconds):
        self.t0, self.s = time.time(), seconds

    def left(self):
        return time.time() - self.t0 < self.s


def scratch_root():
    """Scratch space outside /repo and /verif, removed by the caller."""
    base = os.environ.get("VERIF_SCRATCH") or tempfile.gettempdir()
    return tempfile.mkdtemp(prefix="verif_pybound_", dir=base)


@contextlib.contextmanager
def project_scratch(n=1):
    import signac
    logging.disable(logging.CRITICAL)
    d = scratch_root()
    try:
        if n == 1:
            yield signac.init_project(os.path.join(d, "p0")) if os.makedirs(os.path.join(d, "p0")) is None else None
        else:
            ps = []
            for i in range(n):
                os.makedirs(os.path.join(d, f"p{i}"))
                ps.append(signac.init_project(os.path.join(d, f"p{i}")))
            yield ps
    finally:
        shutil.rmtree(d, ignore_errors=True)


@contextlib.contextmanager
def dir_scratch():
    d = scratch_root()
    try:
        yield d
    finally:
        shutil.rmtree(d, ignore_errors=True)


def script_header():
    return "import sys, os\nsys.path.insert(0, os.environ.get('PYVC_REPO', '/repo'))\nimport logging; logging.disable(logging.CRITICAL)\n"
