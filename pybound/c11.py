"""Bounded stand-in for C11 (never counted as proved): every file-system step of every lifecycle operation is made to fail
(EIO, ENOSPC, EACCES, EXDEV, EROFS) or the process is killed right before it (fork + os._exit); after 'restart' the run-time
contract of the property is checked on the real tree."""
import errno
import hashlib
import json
import os
import random
import shutil

from .common import Budget, dir_scratch, script_header
from .fsharness import run_histories

PRIMS = [("os", "replace"), ("os", "remove"), ("os", "makedirs"), ("os", "mkdir"), ("shutil", "rmtree"), ("shutil", "copytree"), ("os", "rmdir"), ("os", "unlink")]
ERRNOS = [errno.EIO, errno.ENOSPC, errno.EACCES, errno.EXDEV, errno.EROFS]


def ref_id(sp):
    return hashlib.md5(json.dumps(sp, sort_keys=True).encode()).hexdigest()


def snapshot_jobs(ws):
    out = {}
    if not os.path.isdir(ws):
        return out
    for d in os.listdir(ws):
        files = {}
        for dp, dn, fn in os.walk(os.path.join(ws, d)):
            for f in fn:
                files[os.path.relpath(os.path.join(dp, f), os.path.join(ws, d))] = open(os.path.join(dp, f), "rb").read()
        out[d] = files
    return out


class Injector:
    """patches the primitives in os / shutil (module attributes, as signac calls them) and counts calls"""

    def __init__(self, fail_at=None, err=None, crash=False):
        self.n, self.fail_at, self.err, self.crash = 0, fail_at, err, crash
        self.saved = {}

    def __enter__(self):
        for mod, name in PRIMS:
            m = __import__(mod)
            orig = getattr(m, name)
            self.saved[(mod, name)] = orig

            def wrapper(*a, _orig=orig, _name=name, **k):
                # only count operations inside the scratch tree
                if not any(isinstance(x, str) and "verif_pybound_" in x for x in a):
                    return _orig(*a, **k)
                self.n += 1
                if self.fail_at == self.n:
                    if self.crash:
                        os._exit(77)
                    raise OSError(self.err, os.strerror(self.err))
                return _orig(*a, **k)
            setattr(m, name, wrapper)
        return self

    def __exit__(self, *a):
        for (mod, name), orig in self.saved.items():
            setattr(__import__(mod), name, orig)


def build(d, rnd):
    import signac
    os.makedirs(d + "/p")
    os.makedirs(d + "/q")
    p, q = signac.init_project(d + "/p"), signac.init_project(d + "/q")
    sps = [{"a": i} for i in range(3)]
    for sp in sps:
        j = p.open_job(sp).init()
        j.doc["k"] = sp["a"]
        open(j.fn("data.txt"), "w").write("payload %d" % sp["a"])
        os.makedirs(j.fn("sub"), exist_ok=True)
        open(j.fn("sub/nested.bin"), "wb").write(bytes([sp["a"]]))
    q.open_job({"a": 1}).init()       # a colliding destination for move / clone
    if rnd.random() < 0.7:
        p.update_cache()              # a persistent state point cache from an earlier session
        q.update_cache()
    return p.path, q.path


OPS = ["init-fresh", "init-existing", "rekey-free", "rekey-collide", "move-free", "move-collide", "clone-free", "clone-collide", "remove", "clear", "reset"]


def do_op(op, ppath, qpath):
    import signac
    p, q = signac.Project(ppath), signac.Project(qpath)
    if op == "init-fresh":
        p.open_job({"a": 99}).init()
    elif op == "init-existing":
        p.open_job({"a": 0}).init()
    elif op == "rekey-free":
        p.open_job({"a": 0}).sp.b = 5
    elif op == "rekey-collide":
        p.open_job({"a": 0}).sp.a = 2
    elif op == "move-free":
        p.open_job({"a": 0}).move(q)
    elif op == "move-collide":
        p.open_job({"a": 1}).move(q)
    elif op == "clone-free":
        q.clone(p.open_job({"a": 0}))
    elif op == "clone-collide":
        q.clone(p.open_job({"a": 1}))
    elif op == "remove":
        p.open_job({"a": 0}).remove()
    elif op == "clear":
        p.open_job({"a": 0}).clear()
    elif op == "reset":
        p.open_job({"a": 0}).reset()


def affected(op):
    sp = {"a": 1} if op in ("move-collide", "clone-collide") else ({"a": 99} if op == "init-fresh" else {"a": 0})
    new = {"rekey-free": {"a": 0, "b": 5}, "rekey-collide": {"a": 2}}.get(op)
    return ref_id(sp), (ref_id(new) if new else None), sp, new


def post_check(op, ppath, qpath, before_p, before_q, raised, crashed):
    """the property's clauses after 'restart' (fresh Project objects)"""
    import signac
    from signac.errors import JobsCorruptedError
    aid, nid, sp, newsp = affected(op)
    after_p, after_q = snapshot_jobs(ppath + "/workspace"), snapshot_jobs(qpath + "/workspace")
    touch_q = op.startswith(("move", "clone"))
    # (i) every other job byte-identical
    for name, before, after in (("p", before_p, after_p), ("q", before_q, after_q)):
        for jid, files in before.items():
            if jid in (aid, nid):
                continue
            if after.get(jid) != files:
                return f"another job ({name}/{jid[:6]}) changed"
        for jid in after:
            if jid not in before and jid not in (aid, nid):
                return f"an unrelated directory {name}/{jid[:6]} appeared"
    # destination that was occupied must stay byte-identical
    if op in ("move-collide", "clone-collide", "rekey-collide") and raised == "DestinationExistsError":
        # (a process death between the steps of the refusal is judged by the general clauses below, not by 'byte-identical')
        occ_before = before_q[aid] if op != "rekey-collide" else before_p[nid]
        occ_after = (after_q if op != "rekey-collide" else after_p).get(aid if op != "rekey-collide" else nid)
        if occ_after != occ_before:
            return "the occupied destination job was modified"
        if (op != "rekey-collide") and after_p.get(aid) != before_p.get(aid):
            return "the source job of a refused operation was modified"
        if op == "rekey-collide" and after_p.get(aid) != before_p.get(aid):
            return "the job whose re-key was refused is not byte-identical"
    # (ii) data files of the affected job exist completely under exactly one id directory (unless removal / clear / reset)
    if op in ("move-collide", "clone-collide", "rekey-collide") and raised != "DestinationExistsError":
        occ_before = before_q[aid] if op != "rekey-collide" else before_p[nid]
        occ_after = (after_q if op != "rekey-collide" else after_p).get(aid if op != "rekey-collide" else nid)
        if occ_after != occ_before:
            return "the occupied destination job was modified (crash during a refused operation)"
    if op not in ("remove", "clear", "reset", "init-fresh") and ("collide" not in op or raised != "DestinationExistsError"):
        data = {k: v for k, v in before_p[aid].items() if not k.startswith("signac_statepoint")}
        holders = []
        for name, after in (("p", after_p), ("q", after_q)):
            for jid, files in after.items():
                if jid in (aid, nid) and all(files.get(k) == v for k, v in data.items()):
                    holders.append((name, jid))
        want = 2 if (op == "clone-free" and not raised and not crashed) else 1
        if op == "clone-free":
            if ("p", aid) not in holders:
                return "clone damaged its source"
        elif len(holders) != 1:
            return f"the job's data files are complete under {len(holders)} directories ({holders}), expected exactly one"
    # (iii)/(iv) every directory validates with ITS state point, or check() reports it
    for name, path, after in (("p", ppath, after_p), ("q", qpath, after_q)):
        pr = signac.Project(path)
        try:
            pr.check()
            reported = set()
        except JobsCorruptedError as e:
            reported = set(e.job_ids)
        for jid, files in after.items():
            raw = files.get("signac_statepoint.json")
            valid = False
            if raw is not None:
                try:
                    v = json.loads(raw.decode())
                    valid = ref_id(v) == jid
                    if valid and jid in (aid, nid):
                        legit = [s for s in (sp, newsp) if s is not None] + [{"a": 1}, {"a": 2}]
                        if v not in legit:
                            return f"directory {jid[:6]} validates with a state point the job never had: {v}"
                except Exception:
                    valid = False
            if not valid and jid not in reported:
                return f"directory {name}/{jid[:6]} does not validate and check() does not report it"
            if valid and jid in reported:
                return f"check() reports the valid directory {name}/{jid[:6]}"
    # never a silent partial success: a normal return means the operation really happened
    if not raised and not crashed:
        if op == "rekey-free" and (nid not in after_p or aid in after_p):
            return "re-key returned normally but the directory was not moved"
        if op == "move-free" and (aid not in after_q or aid in after_p):
            return "move returned normally but the directory was not moved"
        if op in ("init-fresh", "init-existing", "reset") and aid not in after_p:
            return "init/reset returned normally without a job directory"
        if op in ("init-fresh", "init-existing", "reset") and "signac_statepoint.json" not in after_p[aid]:
            return "init/reset returned normally without a state point file"
    return None


def scenario(seed, op, k, mode, err):
    """k-th primitive call of `op` fails with `err` (mode 'fault') or the process dies right before it (mode 'crash')"""
    rnd = random.Random(seed)
    with dir_scratch() as d:
        ppath, qpath = build(d, rnd)
        before_p, before_q = snapshot_jobs(ppath + "/workspace"), snapshot_jobs(qpath + "/workspace")
        raised = crashed = False
        if mode == "crash":
            pid = os.fork()
            if pid == 0:
                try:
                    with Injector(fail_at=k, crash=True):
                        do_op(op, ppath, qpath)
                except BaseException:
                    os._exit(1)
                os._exit(0)
            _, status = os.waitpid(pid, 0)
            crashed = os.WEXITSTATUS(status) == 77
            raised = os.WEXITSTATUS(status) == 1
            reached = crashed
        else:
            with Injector(fail_at=k, err=err) as inj:
                try:
                    do_op(op, ppath, qpath)
                except Exception as e:
                    raised = type(e).__name__
            reached = inj.n >= k
        bad = post_check(op, ppath, qpath, before_p, before_q, raised, crashed)
        return bad, reached


def run(tier="quick", seed=0):
    b = Budget(20 if tier == "quick" else 600)
    r = run_histories(seed + 11, Budget(5 if tier == "quick" else 100), n_hist=12 if tier == "quick" else 600, length=14 if tier == "quick" else 40)
    rnd = random.Random(1100 + seed)
    evals, distinct = 0, set()
    plan = []
    for op in OPS:
        for k in range(1, 9):
            plan.append((op, k, "crash", None))
            errs = ERRNOS if tier != "quick" else [rnd.choice(ERRNOS)]
            for e in errs:
                plan.append((op, k, "fault", e))
    if tier == "quick":
        rnd.shuffle(plan)
    done_ops = {}
    for (op, k, mode, err) in plan:
        if not b.left() or any(f["key"].startswith("fault") for f in r["failures"]):
            break
        if done_ops.get((op, mode), 99) < k:
            continue        # the operation has fewer than k file-system steps
        try:
            bad, reached = scenario(seed * 1000 + evals, op, k, mode, err)
        except Exception:
            import traceback
            bad, reached = "scenario crashed: " + traceback.format_exc()[-600:], True
        if not reached:
            done_ops[(op, mode)] = min(done_ops.get((op, mode), 99), k)
            continue
        evals += 1
        distinct.add((op, k, mode))
        if bad:
            r["failures"].insert(0, {"key": f"fault:{op}:{k}:{mode}", "description": f"{op}: step {k} {'process death' if mode == 'crash' else 'fails with ' + errno.errorcode.get(err, str(err))}: {bad}",
                                     "script": script_header() + f"sys.path.insert(0, '/verif')\nfrom pybound.c11 import scenario\nbad, reached = scenario({seed * 1000 + evals}, {op!r}, {k}, {mode!r}, {err!r})\nassert not bad, bad\n"})
    r["evaluations"] += evals
    r["distinct_nontrivial"] += len(distinct)
    r.update(scope="11 lifecycle operations (init fresh/existing, re-key free/colliding, move free/colliding, clone free/colliding, remove, clear, reset) on a 3-job project with nested payload "
                   "and a second project; the k-th file-system step (k = 1..8 of os.replace/remove/makedirs/mkdir/rmdir/unlink, shutil.rmtree/copytree) fails with EIO/ENOSPC/EACCES/EXDEV/EROFS "
                   "or the process dies right before it (fork + os._exit); quick tier: one errno per step, shuffled, until the budget is used; plus random API histories",
             rule="a case is one (operation, step, fault kind) run that actually reached the step; distinct by that triple")
    return r
