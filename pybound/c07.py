"""Bounded stand-in for C07 (never counted as proved): equivalent spellings select the same jobs; cursor len / iter / index /
slice / membership describe one id set; groupby partitions exactly the selected jobs with the member's own value as label."""
import itertools
import json
import random

from .common import Budget, project_scratch, script_header
from .c06 import gen_corpus, gen_filter, matches, well_typed, ambiguous, lookup, MISSING


def respell(rnd, f):
    """rewrite a filter into an equivalent spelling: sp. prefix added/removed, operator suffix <-> nested mapping, dotted <-> nested key"""
    out = {}
    for k, v in f.items():
        v0 = v          # the entry as spelled by the generator (v is rebound to the operand below)
        if k in ("$and", "$or"):
            out[k] = [respell(rnd, g) for g in v]
            continue
        if k == "$not":
            out[k] = respell(rnd, v)
            continue
        nodes = k.split(".")
        if nodes[0] == "sp" and rnd.random() < 0.5:
            nodes = nodes[1:]
        elif nodes[0] not in ("sp", "doc") and rnd.random() < 0.5:
            nodes = ["sp"] + nodes
        op = None
        if nodes[-1].startswith("$"):
            op, nodes = nodes[-1], nodes[:-1]
        elif isinstance(v, dict) and len(v) == 1 and next(iter(v)).startswith("$"):
            op, v = next(iter(v.items()))
        val = v
        if op is not None:
            if rnd.random() < 0.5:
                nodes = nodes + [op]
            else:
                val = {op: v}
        # dotted <-> nested (never for a bare namespace key)
        if len(nodes) >= 2 and rnd.random() < 0.4 and nodes[0] in ("sp", "doc") and len(nodes) >= 3:
            head, rest = nodes[:2], nodes[2:]
            for n in reversed(rest):
                val = {n: val}
            nodes = head
        key = ".".join(nodes)
        if key in out:
            # two conditions would end up under one spelling of a key (e.g. 'doc.a.n.$eq' nested under 'doc.a' next to 'doc.a.$exists'):
            # a Python mapping cannot hold both, so this entry keeps its original spelling
            key, val = k, v0
            if key in out:
                return dict(f)
        out[key] = val
    return out


def norm_json(v):
    from synced_collections.utils import SyncedCollectionJSONEncoder
    if isinstance(v, tuple):
        return tuple(norm_json(x) for x in v)
    return json.loads(json.dumps(v, cls=SyncedCollectionJSONEncoder))


def tokens_of(f):
    """command-line token spelling of a flat filter of simple leaves, or None"""
    toks = []
    for k, v in f.items():
        if k.startswith("$") or isinstance(v, (dict, list)):
            return None
        if isinstance(v, bool):
            toks += [k, "true" if v else "false"]
        elif v is None:
            toks += [k, "null"]
        elif isinstance(v, (int, float)):
            toks += [k, repr(v)]
        elif isinstance(v, str) and v not in ("true", "false", "null", "!", "") and not v[0].isdigit() and v[0] not in "{[/-+.":
            toks += [k, v]
        else:
            return None
    return toks


def token_cast_checks(rnd, n):
    """command-line token syntax vs Python mapping, value by value: the token spelling repr(v) of a scalar must parse back to exactly v
    (same value, same JSON type) through parse_filter_arg and through the one-string filter form"""
    import contextlib
    import io
    from signac.filterparse import parse_filter, parse_filter_arg
    vals = [0, 1, -1, 7, 10, 2**31, 2**53 - 1, 2**53, 2**53 + 1, 2**63 + 5, -(2**63) - 7, 10**18 + 1, 123456789012345678901234567891, 0.5, -0.25, 1.0, 4.0, 1e22, 1e-7,
            1.5e300, -0.0, 0.1, 3.14159, True, False, None, "abc", "x_y", "a.b"]
    for _ in range(n):
        d = rnd.randint(1, 30)
        vals.append(rnd.randrange(10 ** (d - 1), 10 ** d) * rnd.choice((1, -1)))
        vals.append(rnd.uniform(-1e6, 1e6))
    out = []
    for v in vals:
        tok = "true" if v is True else "false" if v is False else "null" if v is None else (v if isinstance(v, str) else repr(v))
        for how, fn in (("tokens", lambda: parse_filter_arg(["k", tok])), ("string", lambda: parse_filter("k " + tok))):
            try:
                with contextlib.redirect_stderr(io.StringIO()):
                    got = fn()
                got = dict(got) if got is not None else got
            except Exception as e:
                got = f"raised {type(e).__name__}: {e}"
            ok = isinstance(got, dict) and list(got) == ["k"] and type(got["k"]) is type(v) and (got["k"] == v) and repr(got["k"]) == repr(v)
            if not ok:
                out.append((f"cast:{how}:{tok[:40]}", f"{how} spelling of k={v!r} ({tok!r}) parses to {got!r}: selects other jobs than the mapping {{'k': {v!r}}}"))
                break
        if len(out) >= 2:
            break
    # the non-scalar token forms: "!" (existence), /regex/ (slashes stripped), JSON-like values and whole JSON filters; a JSON-like key is refused
    forms = [(["k"], {"k": {"$exists": True}}), (["k", "!"], {"k": {"$exists": True}}), (["k", "/ab+c/"], {"k": {"$regex": "ab+c"}}), (["k", "//"], {"k": {"$regex": ""}}),
             (["k", "//data/"], {"k": {"$regex": "/data"}}), (["k", "/a//"], {"k": {"$regex": "a/"}}), (["k", "///"], {"k": {"$regex": "/"}}), (["k", "/ x /"], {"k": {"$regex": " x "}}),
             (["name", '{"$eq": "it\'s"}'], {"name": {"$eq": "it's"}}), (["name", '["its\',\'it"]'], {"name": ["its','it"]}), (["k", "{x]"], {"k": "{x]"}), (["k", "[0,1}"], {"k": "[0,1}"}), (["k", "{"], {"k": "{"}), (["k", "/"], {"k": {"$regex": ""}}) if False else (["k", "]"], {"k": "]"}),
             (["k", '{"$lt": 3}'], {"k": {"$lt": 3}}), (["k", "[1, 2]"], {"k": [1, 2]}), (['{"a": {"$gt": 1}}'], {"a": {"$gt": 1}}),
             (["a", "1", "b", "/x/", "c"], {"a": 1, "b": {"$regex": "x"}, "c": {"$exists": True}}), (["a.b", "true", "doc.c", "null"], {"a.b": True, "doc.c": None})]
    for toks, want in forms:
        try:
            with contextlib.redirect_stderr(io.StringIO()):
                got = parse_filter_arg(toks)
            got = dict(got)
        except Exception as e:
            got = f"raised {type(e).__name__}: {e}"
        if got != want and len(out) < 2:
            out.append((f"cast:form:{' '.join(toks)[:40]}", f"command-line tokens {toks} parse to {got!r}, the mapping spelling is {want!r}"))
    # the string spelling find_jobs("k v ...") is cut at white space only: backslashes, quotes and braces inside a token reach the token parser as they are
    for text, want in ((r"c /^\d$/", {"c": {"$regex": r"^\d$"}}), ('a {"$lt":3}', {"a": {"$lt": 3}}), ("k 'x", {"k": "'x"}), ('k "q"', {"k": '"q"'}), ("a 1 b /x\\.y/", {"a": 1, "b": {"$regex": "x\\.y"}}),
                       ("k\tv", {"k": "v"})):
        try:
            with contextlib.redirect_stderr(io.StringIO()):
                got = dict(parse_filter(text))
        except Exception as e:
            got = f"raised {type(e).__name__}: {e}"
        if got != want and len(out) < 2:
            out.append((f"cast:string:{text[:40]}", f"the filter string {text!r} parses to {got!r}, the mapping spelling is {want!r}"))
    try:
        with contextlib.redirect_stderr(io.StringIO()):
            parse_filter_arg(['{"a": 1}', "2"])
        if len(out) < 2:
            out.append(("cast:form:json-key", "a JSON expression used as a key is not refused"))
    except ValueError:
        pass
    return out, len(vals) * 2 + len(forms) + 1


def run(tier="quick", seed=0):
    import signac
    from signac.filterparse import parse_filter_arg
    rnd = random.Random(700 + seed)
    b = Budget(14 if tier == "quick" else 300)
    evals, distinct, failures, samples = 0, set(), [], []
    n = 0
    while b.left() and n < (14 if tier == "quick" else 800) and not failures:
        n += 1
        jobs = gen_corpus(rnd)
        with project_scratch() as p:
            idmap = {}
            for k, j in jobs.items():
                job = p.open_job(j["sp"]).init()
                if j["doc"]:
                    job.doc.update(j["doc"])
                idmap[job.id] = k
            view = {}
            for jid in idmap:
                jb = p.open_job(id=jid)
                view[jid] = {"sp": json.loads(json.dumps(jb.statepoint())), "doc": json.loads(json.dumps(jb.doc()))}
            for _ in range(10):
                f = gen_filter(rnd)
                if ambiguous(f) or not well_typed(view, f):
                    continue
                base = sorted(p._find_job_ids(json.loads(json.dumps(f))))
                want = sorted(i for i, j in view.items() if matches(j, f))
                # ---- spellings
                for _ in range(3):
                    g = respell(rnd, f)
                    if ambiguous(g):
                        continue
                    try:
                        got = sorted(p._find_job_ids(json.loads(json.dumps(g))))
                    except Exception as e:
                        got = f"raised {type(e).__name__}: {e}"
                    evals += 1
                    distinct.add(json.dumps(g, sort_keys=True))
                    if got != base and len(failures) < 2:
                        failures.append({"key": "spelling:" + json.dumps(g, sort_keys=True)[:70], "description": f"equivalent spellings disagree: {f} -> {base}, {g} -> {got}",
                                         "script": script_header() + f"""
import signac, tempfile, json
jobs = json.loads({json.dumps(json.dumps(list(view.values())))})
with tempfile.TemporaryDirectory() as d:
    p = signac.init_project(d)
    for j in jobs:
        jb = p.open_job(j['sp']).init()
        if j['doc']: jb.doc.update(j['doc'])
    a = sorted(p._find_job_ids(json.loads({json.dumps(json.dumps(f))})))
    b = sorted(p._find_job_ids(json.loads({json.dumps(json.dumps(g))})))
    assert a == b, (a, b)
"""})
                toks = tokens_of(f)
                if toks:
                    try:
                        import contextlib, io
                        with contextlib.redirect_stderr(io.StringIO()):
                            parsed = parse_filter_arg(toks)
                        got = sorted(p._find_job_ids(parsed))
                    except Exception as e:
                        got = f"raised {type(e).__name__}: {e}"
                    evals += 1
                    if got != base and len(failures) < 2:
                        failures.append({"key": "tokens:" + " ".join(toks)[:60], "description": f"command-line tokens {toks} select {got}, the mapping {f} selects {base}", "script": ""})
                # ---- cursor coherence
                cur = p.find_jobs(json.loads(json.dumps(f)))
                ids_iter = [j.id for j in cur]
                evals += 1
                probs = []
                if len(cur) != len(ids_iter) or sorted(ids_iter) != base:
                    probs.append(f"len {len(cur)} / iteration {sorted(ids_iter)} / ids {base}")
                for i in range(len(ids_iter)):
                    if cur[i].id != ids_iter[i]:
                        probs.append(f"cursor[{i}] is {cur[i].id}, iteration gives {ids_iter[i]}")
                if [j.id for j in cur[1:3]] != ids_iter[1:3]:
                    probs.append("slice [1:3] differs from iteration")
                for jid in idmap:
                    if (p.open_job(id=jid) in cur) != (jid in base):
                        probs.append(f"membership of {jid[:6]} is {(p.open_job(id=jid) in cur)}, id set says {jid in base}")
                if probs and len(failures) < 2:
                    failures.append({"key": "cursor", "description": f"cursor for {f}: " + "; ".join(probs[:3]), "script": ""})
                # ---- groupby on the cursor (top-level and nested keys in both namespaces)
                for key, default in (("a", None), ("sp.b", None), ("doc.a", None), ("a", -1), (("a", "b"), None), (None, None),
                                     ("a.n", None), ("sp.c.m", None), ("doc.a.n", -1), ("c.m", "none"), (("a.n", "doc.d"), None)):
                    try:
                        groups = [(lab, [j.id for j in grp]) for lab, grp in cur.groupby(key, default=default)] if key is not None else [(lab, [j.id for j in grp]) for lab, grp in cur.groupby()]
                    except TypeError:
                        continue        # values that Python cannot sort against each other
                    except Exception as e:
                        probs = [f"groupby({key!r}, default={default!r}) raised {type(e).__name__}: {e}"]
                        groups = None
                    evals += 1
                    if groups is not None:
                        probs = []
                        members = [i for _, g in groups for i in g]

                        def own(jid, k):
                            ns, kk = ("doc", k[4:]) if k.startswith("doc.") else ("sp", k[3:] if k.startswith("sp.") else k)
                            return lookup(view[jid][ns], kk.split("."))
                        keys = (key,) if isinstance(key, str) else (key or ())
                        if key is None:
                            sel = base
                        elif default is None:
                            sel = [i for i in base if all(own(i, k) is not MISSING for k in keys)]
                        else:
                            sel = base
                        if sorted(members) != sorted(sel):
                            probs.append(f"groupby({key!r}, default={default!r}) covers {sorted(members)}, expected exactly {sorted(sel)}")
                        if len(set(members)) != len(members):
                            probs.append("groups are not disjoint")
                        for lab, g in groups:
                            for i in g:
                                if key is None:
                                    exp = i
                                elif isinstance(key, str):
                                    v = own(i, key)
                                    exp = default if v is MISSING else v
                                else:
                                    exp = tuple(own(i, k) for k in key)
                                lab_n = norm_json(lab)
                                exp_n = norm_json(exp)
                                if lab_n != exp_n:
                                    probs.append(f"group label {lab!r} but member {i[:6]} has {exp!r} for {key!r}")
                    if probs and len(failures) < 2:
                        failures.append({"key": f"groupby:{key!r}", "description": f"cursor {f}: " + "; ".join(probs[:2]), "script": ""})
                if len(samples) < 2:
                    samples.append({"filter": f, "respelled": respell(rnd, f)})
    cast_fail, ncast = token_cast_checks(rnd, 40 if tier == "quick" else 2000)
    evals += ncast
    for key, desc in cast_fail:
        failures.append({"key": key, "description": desc, "script": ""})
    # probe of the repaired defect F6: groupby with a dotted (nested) key
    with project_scratch() as p:
        p.open_job({"n": {"k": 1}}).init()
        p.open_job({"n": {"k": 2}}).init()
        try:
            labs = sorted(lab for lab, _ in p.find_jobs().groupby("n.k"))
            ok = labs == [1, 2]
        except Exception:
            ok = False
        if not ok:
            failures.append({"key": "groupby:dotted-key", "description": "groupby('n.k') over nested state points does not give the labels [1, 2] (repaired defect F6)", "script": ""})
    return {"scope": "scalar token casting value by value (ints up to 30 digits incl. 2**53+1, floats, true/false/null, words) through parse_filter_arg and the one-string form; corpora as in C06 on real projects; every generated filter under 3 random equivalent spellings (sp. prefix, operator suffix vs nested, dotted vs nested) and, where expressible, "
                     "as command-line tokens; cursor len/iter/index/slice/membership; groupby by top-level and nested sp / doc keys, tuples, None, with and without default",
            "evaluations": evals, "distinct_nontrivial": len(distinct), "rule": "a case is one (corpus, spelling) query or one cursor/groupby observation; distinct by spelled filter",
            "samples": samples, "failures": failures}
