"""Bounded stand-in for C13 (never counted as proved): run-time sync contracts on real project pairs, see syncharness."""
import contextlib
import io
import os

from .common import Budget, dir_scratch, script_header
from .syncharness import run_focus


def destination_only_file_check():
    """'files ... that exist only in the destination are unchanged' also for a file named like a document backup
    (signac_job_document.json~ / signac_project_document.json~) while the documents are merged: the sync may refuse, but if it
    returns that file is exactly what it was"""
    import logging
    import signac
    logging.disable(logging.CRITICAL)
    out = []
    for level in ("job", "project"):
        with dir_scratch() as d:
            os.makedirs(d + "/src")
            os.makedirs(d + "/dst")
            src, dst = signac.init_project(d + "/src"), signac.init_project(d + "/dst")
            js, jd = src.open_job({"a": 1}).init(), dst.open_job({"a": 1}).init()
            if level == "job":
                js.doc["m"], jd.doc["k"] = 2, 1
                fn = jd.fn("signac_job_document.json")
            else:
                src.doc["m"], dst.doc["k"] = 2, 1
                fn = dst.fn("signac_project_document.json")
            open(fn + "~", "wb").write(b"destination only")
            try:
                with contextlib.redirect_stdout(io.StringIO()):
                    dst.sync(src)
            except Exception:
                continue        # refused: nothing is claimed after a raise here (C14 covers the roll-back)
            now = open(fn + "~", "rb").read() if os.path.isfile(fn + "~") else None
            if now != b"destination only":
                out.append((level, f"{level} level: a successful sync changed the destination-only file {os.path.basename(fn)}~: it "
                                   f"{'was deleted' if now is None else 'now holds ' + repr(now[:40])}"))
    return out


def run(tier="quick", seed=0):
    r = run_focus("C13", tier, seed, Budget(14 if tier == "quick" else 300))
    for level, msg in destination_only_file_check():
        r["failures"].append({"key": "destination-only:backup-named-file:" + level, "description": msg,
                              "script": script_header() + "sys.path.insert(0, '/verif')\nfrom pybound.c13 import destination_only_file_check\nr = destination_only_file_check()\nassert not r, r\n"})
    r["evaluations"] += 2
    r["scope"] += "; a destination-only file named like a document backup next to a document that is merged (job and project level): untouched by a sync that returns"
    return r
