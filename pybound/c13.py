"""Bounded stand-in for C13 (never counted as proved): run-time sync contracts on real project pairs, see syncharness."""
import contextlib
import io
import os

from .common import Budget, dir_scratch, script_header
from .syncharness import run_focus


def destination_only_file_check():
    """'files ... that exist only in the destination are unchanged' also for a file named like a document backup
    (signac_job_document.json~ / signac_project_document.json~) while the documents are merged: the sync may refuse, but if it
    returns that file is exactly what it was"""
    import logging
    import signac
    logging.disable(logging.CRITICAL)
    out = []
    for level in ("job", "project"):
        with dir_scratch() as d:
            os.makedirs(d + "/src")
            os.makedirs(d + "/dst")
            src, dst = signac.init_project(d + "/src"), signac.init_project(d + "/dst")
            js, jd = src.open_job({"a": 1}).init(), dst.open_job({"a": 1}).init()
            if level == "job":
                js.doc["m"], jd.doc["k"] = 2, 1
                fn = jd.fn("signac_job_document.json")
            else:
                src.doc["m"], dst.doc["k"] = 2, 1
                fn = dst.fn("signac_project_document.json")
            open(fn + "~", "wb").write(b"destination only")
            try:
                with contextlib.redirect_stdout(io.StringIO()):
                    dst.sync(src)
            except Exception:
                continue        # refused: nothing is claimed after a raise here (C14 covers the roll-back)
            now = open(fn + "~", "rb").read() if os.path.isfile(fn + "~") else None
            if now != b"destination only":
                out.append((level, f"{level} level: a successful sync changed the destination-only file {os.path.basename(fn)}~: it "
                                   f"{'was deleted' if now is None else 'now holds ' + repr(now[:40])}"))
    return out


def exclude_entry_points_check():
    """'every non-excluded source file absent from the destination is now present': an exclude pattern given as a string (the documented
    form) or as a list, through Job.sync, Project.sync, sync_jobs and sync_projects -- exactly the files matching it stay away"""
    import logging
    import re
    import signac
    from signac.sync import sync_jobs, sync_projects
    logging.disable(logging.CRITICAL)
    out = []
    names = ["test.txt", "e.dat", "s", "t", "keep.bak", "other.bak", "x_keep"]
    for entry in ("Job.sync", "Project.sync", "sync_jobs", "sync_projects"):
        for exclude in ("keep", r".*\.bak", ["keep", "other"], "test"):
            with dir_scratch() as d:
                os.makedirs(d + "/src")
                os.makedirs(d + "/dst")
                src, dst = signac.init_project(d + "/src"), signac.init_project(d + "/dst")
                js, jd = src.open_job({"a": 1}).init(), dst.open_job({"a": 1}).init()
                for n in names:
                    open(js.fn(n), "w").write(n)
                call = {"Job.sync": lambda: jd.sync(js, exclude=exclude), "Project.sync": lambda: dst.sync(src, exclude=exclude),
                        "sync_jobs": lambda: sync_jobs(js, jd, exclude=exclude), "sync_projects": lambda: sync_projects(src, dst, exclude=exclude)}[entry]
                try:
                    with contextlib.redirect_stdout(io.StringIO()):
                        call()
                except Exception as e:
                    out.append((f"{entry}:{exclude}", f"{entry}(exclude={exclude!r}) raised {type(e).__name__}: {e}"))
                    continue
                pats = [exclude] if isinstance(exclude, str) else list(exclude)
                want = sorted(n for n in names if not any(re.match(p_, n) for p_ in pats))
                got = sorted(n for n in os.listdir(jd.path) if n in names)
                if got != want:
                    out.append((f"{entry}:{exclude}", f"{entry}(exclude={exclude!r}): the destination job received {got}, the source files not matching the pattern are {want}"))
    return out


def run(tier="quick", seed=0):
    r = run_focus("C13", tier, seed, Budget(14 if tier == "quick" else 300))
    for level, msg in destination_only_file_check():
        r["failures"].append({"key": "destination-only:backup-named-file:" + level, "description": msg,
                              "script": script_header() + "sys.path.insert(0, '/verif')\nfrom pybound.c13 import destination_only_file_check\nr = destination_only_file_check()\nassert not r, r\n"})
    try:
        found = exclude_entry_points_check()
    except Exception as e:
        found = [("raised", f"exclude_entry_points_check raised {type(e).__name__}: {e}")]
    for key, msg in found[:3]:
        r["failures"].append({"key": "exclude:entry-point:" + key, "description": msg,
                              "script": script_header() + "sys.path.insert(0, '/verif')\nfrom pybound.c13 import exclude_entry_points_check\nr = exclude_entry_points_check()\nassert not r, r\n"})
    r["evaluations"] += 16
    r["scope"] += "; exclude patterns as string and list through all four entry points"
    r["evaluations"] += 2
    r["scope"] += "; a destination-only file named like a document backup next to a document that is merged (job and project level): untouched by a sync that returns"
    return r
