"""Bounded model-based harness over real signac projects (shared by the bounded stand-ins of C02 C03 C04 C08 C09 C11).

A plain in-memory model {project -> {id -> (statepoint, document, files)}} is run next to the real API; after every operation
the contract `view(real workspace through fresh handles) == model`, check() passes, listing == membership == len, and no
temp/backup files are left is checked at run time.  Never counted as proved."""
import copy
import gzip
import hashlib
import json
import logging
import os
import random
import shutil

from .common import scratch_root, script_header

logging.disable(logging.CRITICAL)


def ref_id(sp):
    return hashlib.md5(json.dumps(sp, sort_keys=True).encode()).hexdigest()


KEYS = ["a", "b", "c", "d"]
VALS = [0, 1, 2.5, "x", True, None, [1, 2], {"n": 1}]
FILES = ["f1.txt", "f2.dat", "sub/f3.txt"]


KNOWN_SEEN = set()


def dep_trigger(cur, new):
    """does assigning `new` over `cur` hit the dependency findings F23 / F24 (excluded from the generated scope)?"""
    for k, v in new.items():
        if k in cur:
            if v is None and isinstance(cur[k], (dict, list)):
                return True
            if not isinstance(v, (dict, list)) and not isinstance(cur[k], (dict, list)) and cur[k] == v and type(cur[k]) is not type(v):
                return True
            if isinstance(v, dict) and isinstance(cur[k], dict) and dep_trigger(cur[k], v):
                return True
    return False


class Harness:
    def __init__(self, rnd, nproj=2, log=None):
        import signac
        self.signac = signac
        self.rnd = rnd
        self.root = scratch_root()
        self.projects, self.model = [], []
        for i in range(nproj):
            d = os.path.join(self.root, f"p{i}")
            os.makedirs(d)
            self.projects.append(signac.init_project(d))
            self.model.append({})
        self.handles = []      # (project index, Job handle)
        self.copy_group = {}   # id(handle) -> group: a handle and its shallow copies (copy.copy) share the state point object
        self.keepalive = []    # copies are kept referenced so that id() stays unique
        self.trace = []

    def close(self):
        shutil.rmtree(self.root, ignore_errors=True)

    # ---- generators
    def gen_sp(self):
        ks = self.rnd.sample(KEYS, self.rnd.randint(1, 3))
        return {k: copy.deepcopy(self.rnd.choice(VALS)) for k in ks}

    def pick_handle(self):
        return self.rnd.choice(self.handles) if self.handles else None

    # ---- real view through fresh handles
    def view(self, pi):
        p = self.signac.Project(self.projects[pi].path)
        out = {}
        for jid in sorted(os.listdir(p.workspace)):
            full = os.path.join(p.workspace, jid)
            if not (os.path.isdir(full) and len(jid) == 32 and all(c in "0123456789abcdef" for c in jid)):
                continue
            job = p.open_job(id=jid)
            files = {}
            for dp, dn, fn in os.walk(job.path):
                for f in fn:
                    rel = os.path.relpath(os.path.join(dp, f), job.path)
                    if rel in (job.FN_STATE_POINT, job.FN_DOCUMENT):
                        continue
                    files[rel] = open(os.path.join(dp, f), "rb").read()
            out[jid] = (json.loads(json.dumps(job.statepoint())), json.loads(json.dumps(job.document())) if os.path.exists(job.fn(job.FN_DOCUMENT)) else {}, files)
        return out, p

    def check_all(self, where):
        """the run-time contract; returns a failure description or None"""
        for pi in range(len(self.projects)):
            try:
                real, p = self.view(pi)
            except Exception as e:
                return f"{where}: reading project {pi} through fresh handles failed: {type(e).__name__}: {e}"
            m = self.model[pi]
            if set(real) != set(m):
                return f"{where}: project {pi} job ids {sorted(real)} != model {sorted(m)}"
            for jid in m:
                if real[jid][0] != m[jid][0]:
                    return f"{where}: state point of {jid}: {real[jid][0]} != model {m[jid][0]}"
                if ref_id(real[jid][0]) != jid:
                    return f"{where}: directory {jid} does not hash to its state point"
                if real[jid][1] != m[jid][1]:
                    return f"{where}: document of {jid}: {real[jid][1]} != model {m[jid][1]}"
                if real[jid][2] != m[jid][2]:
                    return f"{where}: files of {jid}: {sorted(real[jid][2])} != model {sorted(m[jid][2])}"
            try:
                p.check()
            except Exception as e:
                return f"{where}: check() failed on project {pi}: {type(e).__name__}: {e}"
            ids_iter = sorted(j.id for j in p)
            if ids_iter != sorted(m) or len(p) != len(m):
                return f"{where}: iteration/len disagree with the model: {ids_iter} / {len(p)} vs {sorted(m)}"
            for jid in m:
                if p.open_job(id=jid) not in p:
                    return f"{where}: membership test false for existing job {jid}"
            # the long-lived project object (with whatever its in-memory state point cache holds) must agree as well
            live = self.projects[pi]
            for jid in m:
                try:
                    sp_live = json.loads(json.dumps(live.open_job(id=jid).statepoint()))
                    csp_live = json.loads(json.dumps(dict(live.open_job(id=jid).cached_statepoint)))
                except Exception as e:
                    return f"{where}: opening {jid} through the live project object failed: {type(e).__name__}: {e}"
                if sp_live != m[jid][0] or csp_live != m[jid][0]:
                    return f"{where}: the live project object reports state point {sp_live} / cached {csp_live} for {jid}, the job's state point is {m[jid][0]}"
            for dp, dn, fn in os.walk(p.workspace):
                for f in fn:
                    if f.endswith("~") or f.startswith("._"):
                        return f"{where}: temporary/backup file left behind: {os.path.join(dp, f)}"
        # live handles describe their job
        for pi, h in self.handles:
            try:
                hid = h.id
                hp = self.projects.index(next(p for p in self.projects if os.path.realpath(p.path) == os.path.realpath(h.project.path)))
            except Exception as e:
                return f"{where}: live handle unusable: {e}"
            if hid in self.model[hp]:
                try:
                    sp = json.loads(json.dumps(h.statepoint()))
                    if sp != self.model[hp][hid][0]:
                        return f"{where}: live handle {hid} state point {sp} != model {self.model[hp][hid][0]}"
                    if os.path.realpath(h.path) != os.path.realpath(os.path.join(self.projects[hp].workspace, hid)):
                        return f"{where}: live handle path {h.path} is not its job directory"
                    if json.loads(json.dumps(h.document())) != self.model[hp][hid][1]:
                        return f"{where}: live handle document != model"
                except Exception as e:
                    return f"{where}: live handle {hid} raised {type(e).__name__}: {e}"
        return None

    # ---- operations (each mirrors itself on the model); return text for the trace
    def op_init(self):
        pi = self.rnd.randrange(len(self.projects))
        sp = self.gen_sp()
        job = self.projects[pi].open_job(sp)
        job.init()
        self.model[pi].setdefault(job.id, (json.loads(json.dumps(sp)), {}, {}))
        self.handles.append((pi, job))
        return f"init p{pi} {sp}"

    def op_doc(self):
        h = self.pick_handle()
        if not h:
            return self.op_init()
        pi, job = h
        hp = self.hproj(job)
        if job.id not in self.model[hp]:
            return "skip"
        k, v = self.rnd.choice(KEYS), copy.deepcopy(self.rnd.choice(VALS))
        if dep_trigger(self.model[hp][job.id][1], {k: json.loads(json.dumps(v))}):
            # another live handle that still holds the old value would re-load it through the dependency's _update: findings F23 / F24 (probed separately)
            return "skip"
        job.doc[k] = v
        self.model[hp][job.id][1][k] = json.loads(json.dumps(v))
        return f"doc[{k}]={v!r} on {job.id[:6]}"

    def op_doc_reset(self):
        h = self.pick_handle()
        if not h:
            return self.op_init()
        pi, job = h
        hp = self.hproj(job)
        if job.id not in self.model[hp]:
            return "skip"
        if self.rnd.random() < 0.5:
            p2 = self.signac.Project(self.projects[hp].path)
            job = p2.open_job(id=job.id)      # a second, fresh handle: its first document access is the reset
        new = {} if self.rnd.random() < 0.5 else {self.rnd.choice(KEYS): 1}
        job.doc = new
        sp, _, files = self.model[hp][job.id]
        self.model[hp][job.id] = (sp, dict(new), files)
        return f"doc reset to {new} on {job.id[:6]}"

    def op_file(self):
        h = self.pick_handle()
        if not h:
            return self.op_init()
        pi, job = h
        hp = self.hproj(job)
        if job.id not in self.model[hp]:
            return "skip"
        fn = self.rnd.choice(FILES)
        data = bytes([self.rnd.randrange(256) for _ in range(self.rnd.randint(0, 8))])
        os.makedirs(os.path.dirname(job.fn(fn)), exist_ok=True)
        open(job.fn(fn), "wb").write(data)
        self.model[hp][job.id][2][fn] = data
        return f"file {fn} on {job.id[:6]}"

    def hproj(self, job):
        return next(i for i, p in enumerate(self.projects) if os.path.realpath(p.path) == os.path.realpath(job.project.path))

    def op_remove(self):
        h = self.pick_handle()
        if not h:
            return "skip"
        pi, job = h
        hp = self.hproj(job)
        job.remove()
        self.model[hp].pop(job.id, None)
        # independent handles of the removed job that had opened its document keep that document in memory (nothing tells them, and the
        # dependency keeps in-memory data when the file is gone): known finding F27, probed separately -- they leave the live-handle checks
        keep = []
        for pj, h2 in self.handles:
            try:
                same_job = h2 is not job and h2.id == job.id and os.path.realpath(h2.project.path) == os.path.realpath(job.project.path)
            except Exception:
                same_job = False
            if same_job and getattr(h2, "_document", None) is not None:
                continue
            keep.append((pj, h2))
        self.handles = keep
        return f"remove {job.id[:6]}"

    def op_clear(self):
        h = self.pick_handle()
        if not h:
            return "skip"
        pi, job = h
        hp = self.hproj(job)
        if self.rnd.random() < 0.5:
            job.clear()
            if job.id in self.model[hp]:
                sp, _, _ = self.model[hp][job.id]
                self.model[hp][job.id] = (sp, {}, {})
            return f"clear {job.id[:6]}"
        job.reset()
        sp = json.loads(json.dumps(job.statepoint()))
        self.model[hp][job.id] = (sp, {}, {})
        return f"reset {job.id[:6]}"

    def rekey_model(self, hp, old, newsp):
        new = ref_id(newsp)
        if old not in self.model[hp]:
            return new, "uninit"
        if new == old:
            return new, "same"
        if new in self.model[hp]:
            return new, "exists"
        sp, doc, files = self.model[hp].pop(old)
        self.model[hp][new] = (json.loads(json.dumps(newsp)), doc, files)
        return new, "moved"

    def op_rekey(self):
        from signac.errors import DestinationExistsError
        h = self.pick_handle()
        if not h:
            return self.op_init()
        pi, job = h
        hp = self.hproj(job)
        old = job.id
        cur = json.loads(json.dumps(job.statepoint()))
        how = self.rnd.choice(["setitem", "del", "assign", "update", "update_conflict", "nested", "collide"])
        newsp = copy.deepcopy(cur)
        try:
            others = [sp for jid, (sp, _, _) in self.model[hp].items() if jid != old]
            others = [o for o in others if not dep_trigger(cur, o)]
            if how == "collide" and others and old in self.model[hp]:
                newsp = copy.deepcopy(self.rnd.choice(others))      # re-key onto an existing job: must be refused
                expect = self.rekey_expect(hp, old, newsp)
                job.statepoint = newsp
            elif how == "setitem":
                k, v = self.rnd.choice(KEYS), copy.deepcopy(self.rnd.choice(VALS))
                newsp[k] = json.loads(json.dumps(v))
                expect = self.rekey_expect(hp, old, newsp)
                job.sp[k] = v
            elif how == "del" and len(cur) > 1:
                k = self.rnd.choice(sorted(cur))
                del newsp[k]
                expect = self.rekey_expect(hp, old, newsp)
                del job.sp[k]
            elif how == "assign":
                newsp = self.gen_sp()
                # scope excludes known finding F23 (dependency): None assigned over an existing mapping/list value is ignored
                for k in list(newsp):
                    if newsp[k] is None and isinstance(cur.get(k), (dict, list)):
                        newsp[k] = 0
                    # ... and known finding F24 (dependency): a value replaced by an equal value of another type (1 / True / 1.0) is kept
                    if k in cur and not isinstance(newsp[k], (dict, list)) and cur[k] == newsp[k] and type(cur[k]) is not type(newsp[k]):
                        newsp[k] = "x"
                expect = self.rekey_expect(hp, old, newsp)
                job.statepoint = newsp
            elif how == "nested" and any(isinstance(v, dict) for v in cur.values()):
                k = next(k for k, v in cur.items() if isinstance(v, dict))
                newsp[k]["n"] = 7
                expect = self.rekey_expect(hp, old, newsp)
                job.sp[k].n = 7
            elif how == "update_conflict" and cur:
                k = sorted(cur)[0]
                upd = {k: "conflict-value"}
                try:
                    job.update_statepoint(upd)
                except KeyError:
                    return f"update_statepoint conflict on {old[:6]} -> KeyError (no effect)"
                return "FAIL:update_statepoint with a conflicting key did not raise KeyError"
            else:
                k = self.rnd.choice(KEYS)
                if k in cur:
                    return "skip"
                upd = {k: 5}
                newsp[k] = 5
                expect = self.rekey_expect(hp, old, newsp)
                job.update_statepoint(upd)
        except DestinationExistsError:
            if expect != "exists":
                return f"FAIL:DestinationExistsError but the destination does not exist in the model ({how})"
            # the refused handle (and its copies) keeps the rejected value in memory: the properties only speak about the disk and
            # about fresh handles after a failed operation, so these handles leave the live-handle checks
            self.handles = [(i, h2) for i, h2 in self.handles if h2.id != old]
            return f"rekey {how} {old[:6]} -> DestinationExistsError"
        if expect == "exists":
            return f"FAIL:re-key onto an existing job did not raise DestinationExistsError ({how})"
        new, what = self.rekey_model(hp, old, newsp)
        grp = self.copy_group.get(id(job))
        if grp is not None:
            for _, h2 in self.handles:
                if h2 is not job and self.copy_group.get(id(h2)) == grp and h2.id != new:
                    return f"FAIL:a shallow copy (copy.copy) of the handle did not follow the state point change ({how}): the copy has id {h2.id}, the job is now {new}"
        self.drop_stale(old, new)
        if job.id != new:
            return f"FAIL:handle id {job.id} after {how}, expected {new}"
        return f"rekey {how} {old[:6]}->{new[:6]} ({what})"

    def drop_stale(self, old, new):
        """independent handles (opened separately, not copies) to the old id are stale after an id change: outside the property"""
        if old != new:
            self.handles = [(i, h) for i, h in self.handles if h.id != old]

    def rekey_expect(self, hp, old, newsp):
        new = ref_id(newsp)
        if old in self.model[hp] and new != old and new in self.model[hp]:
            return "exists"
        return "ok"

    def op_move(self):
        from signac.errors import DestinationExistsError
        h = self.pick_handle()
        if not h or len(self.projects) < 2:
            return "skip"
        pi, job = h
        hp = self.hproj(job)
        dst = (hp + 1) % len(self.projects)
        jid = job.id
        try:
            job.move(self.projects[dst])
        except DestinationExistsError:
            if jid in self.model[dst]:
                return f"move {jid[:6]} -> DestinationExistsError"
            return "FAIL:move raised DestinationExistsError for a free destination"
        except RuntimeError:
            if jid not in self.model[hp]:
                return f"move of uninitialised {jid[:6]} -> RuntimeError"
            return "FAIL:move raised RuntimeError for an initialised job"
        if jid in self.model[dst] or jid not in self.model[hp]:
            return "FAIL:move succeeded although the model says it must fail"
        self.model[dst][jid] = self.model[hp].pop(jid)
        self.handles = [(i, h) for i, h in self.handles if not (h.id == jid and h is not job and self.hproj(h) == hp)]
        return f"move {jid[:6]} p{hp}->p{dst}"

    def op_clone(self):
        from signac.errors import DestinationExistsError
        h = self.pick_handle()
        if not h or len(self.projects) < 2:
            return "skip"
        pi, job = h
        hp = self.hproj(job)
        dst = (hp + 1) % len(self.projects)
        jid = job.id
        try:
            new = self.projects[dst].clone(job)
        except DestinationExistsError:
            if jid in self.model[dst]:
                return f"clone {jid[:6]} -> DestinationExistsError"
            return "FAIL:clone raised DestinationExistsError for a free destination"
        except ValueError:
            if jid not in self.model[hp]:
                return "clone of uninitialised -> ValueError"
            return "FAIL:clone raised ValueError for an initialised job"
        if jid in self.model[dst] or jid not in self.model[hp]:
            return "FAIL:clone succeeded although the model says it must fail"
        self.model[dst][jid] = copy.deepcopy(self.model[hp][jid])
        self.handles.append((dst, new))
        return f"clone {jid[:6]} p{hp}->p{dst}"

    def op_handle(self):
        import pickle
        h = self.pick_handle()
        if not h:
            return "skip"
        pi, job = h
        how = self.rnd.choice(["copy", "deepcopy", "pickle", "reopen", "drop"])
        if how == "copy":
            c = copy.copy(job)
            self.copy_group[id(c)] = self.copy_group.setdefault(id(job), id(job))     # shallow copies of one handle form a group
            self.keepalive.extend([c, job])
            self.handles.append((pi, c))
        elif how == "deepcopy":
            self.handles.append((pi, copy.deepcopy(job)))
        elif how == "pickle":
            try:
                self.handles.append((pi, pickle.loads(pickle.dumps(job))))
            except RecursionError as e:
                # F22 (fixed by 0ab70da): a handle with a shallow copy could not be unpickled
                return f"FAIL:pickle round trip of a job handle raised RecursionError ({str(e)[:80]})"
        elif how == "reopen":
            hp = self.hproj(job)
            if job.id in self.model[hp]:
                self.handles.append((hp, self.signac.Project(self.projects[hp].path).open_job(id=job.id)))
        else:
            self.handles.remove(h)
        return f"handle {how}"

    def op_cache(self):
        pi = self.rnd.randrange(len(self.projects))
        how = self.rnd.choice(["update", "update", "restart", "delete"])
        if how == "update":
            pr = self.projects[pi]
            pr.update_cache()
            # after update_cache() the persistent cache lists exactly the workspace ids, each with its true state point,
            # and an immediate second call reports nothing to do
            try:
                cache = json.loads(gzip.open(pr.fn(pr.FN_CACHE), "rb").read().decode())
            except Exception as e:
                return f"FAIL:cache file unreadable after update_cache(): {type(e).__name__}: {e}"
            if set(cache) != set(self.model[pi]):
                return f"FAIL:after update_cache() the cache file lists {sorted(cache)}, the workspace holds {sorted(self.model[pi])}"
            for jid, sp in cache.items():
                if sp != self.model[pi][jid][0]:
                    return f"FAIL:cache file maps {jid} to {sp}, its state point is {self.model[pi][jid][0]}"
            again = pr.update_cache()
            if again is not None:
                return f"FAIL:a second update_cache() right after the first returned {again!r} instead of None"
        elif how == "restart":
            self.projects[pi] = self.signac.Project(self.projects[pi].path)
            self.handles = [(i, h) for i, h in self.handles if i != pi]
        else:
            try:
                os.remove(self.projects[pi].fn(self.projects[pi].FN_CACHE))
            except FileNotFoundError:
                pass
        return f"cache {how} p{pi}"

    OPS = {"init": 3, "doc": 2, "doc_reset": 1, "file": 2, "remove": 1, "clear": 1, "rekey": 4, "move": 1, "clone": 1, "handle": 2, "cache": 2}

    def step(self, weights=None):
        w = weights or self.OPS
        name = self.rnd.choices(list(w), weights=list(w.values()))[0]
        try:
            t = getattr(self, "op_" + name)()
        except Exception as e:
            import traceback
            t = f"FAIL:operation {name} raised {type(e).__name__}: {e} :: {traceback.format_exc()[-400:]}"
        self.trace.append(t)
        return t


def run_histories(seed, budget, n_hist, length, weights=None, nproj=2, extra_check=None):
    """returns dict(evaluations, distinct, failures, samples)"""
    evals, distinct, failures, samples = 0, set(), [], []
    for hno in range(n_hist):
        if not budget.left() or failures:
            break
        rnd = random.Random(seed * 100003 + hno)
        h = Harness(rnd, nproj=nproj)
        try:
            for step in range(length):
                t = h.step(weights)
                evals += 1
                if t.startswith("FAIL:"):
                    bad = t[5:]
                else:
                    try:
                        bad = h.check_all(f"after step {step} ({t})")
                    except Exception as e:
                        import traceback
                        bad = f"after step {step} ({t}): observing the projects raised {type(e).__name__}: {e} :: {traceback.format_exc()[-500:]}"
                if bad is None and extra_check is not None:
                    bad = extra_check(h, step)
                if bad:
                    failures.append({"key": "history:" + hashlib.md5(" | ".join(h.trace).encode()).hexdigest()[:10], "description": bad,
                                     "trace": list(h.trace), "script": replay_script(seed * 100003 + hno, step + 1, weights, nproj)})
                    break
                if not t.startswith("skip"):
                    distinct.add(t.split(" ")[0] + ":" + t.split(" ")[1] if " " in t else t)
            if len(samples) < 2:
                samples.append(h.trace[:8])
        finally:
            h.close()
    probe_known()
    for k in sorted(KNOWN_SEEN):
        failures.append({"key": k, "description": "known finding re-observed", "script": ""})
    return {"evaluations": evals, "distinct_nontrivial": len(distinct), "failures": failures, "samples": samples}


def probe_known():
    """re-observe known findings that the generators deliberately avoid"""
    import signac
    d = scratch_root()
    try:
        j = signac.init_project(d).open_job({"b": {"n": 1}}).init()
        j.statepoint = {"b": None}
        if json.loads(json.dumps(j.statepoint())) != {"b": None}:
            KNOWN_SEEN.add("dep:none-over-mapping-ignored")
        j.statepoint = {"c": 1}
        j.statepoint = {"c": True}
        if j.statepoint()["c"] is not True:
            KNOWN_SEEN.add("dep:equal-value-other-type-ignored")
        # the same dependency defect through documents: a second handle that holds a list re-loads None written by another handle
        j2 = j.project.open_job(id=j.id)
        j.doc["k"] = [1, 2]
        j2.doc["k"]
        j.doc["k"] = None
        if json.loads(json.dumps(j2.doc())) != {"k": None}:
            KNOWN_SEEN.add("dep:none-over-mapping-ignored")
        # F27: a second handle's opened document survives remove() and comes back into the re-created job
        j3 = j.project.open_job({"f27": 1}).init()
        j3.doc["x"] = 1
        k3 = j3.project.open_job(id=j3.id)
        k3.doc["x"]
        j3.remove()
        j3.init()
        if json.loads(json.dumps(k3.doc())) != {}:
            KNOWN_SEEN.add("doc:other-handle-survives-remove")
    finally:
        shutil.rmtree(d, ignore_errors=True)


def replay_script(hseed, steps, weights, nproj):
    return script_header() + f"""
sys.path.insert(0, {os.path.dirname(os.path.dirname(os.path.abspath(__file__)))!r})
import random
from pybound.fsharness import Harness
h = Harness(random.Random({hseed}), nproj={nproj})
try:
    for step in range({steps}):
        t = h.step({weights!r})
        bad = t[5:] if t.startswith("FAIL:") else h.check_all(f"after step {{step}} ({{t}})")
        assert not bad, bad + "\\n  history: " + " | ".join(h.trace)
finally:
    h.close()
"""
