"""Bounded stand-in for C19 (never counted as proved): get_project / get_job / init_project on generated directory trees against a
reference resolver written from the property statement."""
import hashlib
import json
import os
import random

from .common import Budget, dir_scratch, script_header


def jid(i):
    return hashlib.md5(str(i).encode()).hexdigest()


def build(rnd, root):
    """returns dict: directory -> ('project' | 'plain' | 'job', owning project dir or None)"""
    import signac
    kinds = {}
    projects = []

    def grow(d, depth, enclosing):
        if depth > 4:
            return
        for name in rnd.sample(["x", "y", "z"], rnd.randint(0, 2)):
            sub = os.path.join(d, name)
            os.makedirs(sub, exist_ok=True)
            kinds[sub] = "plain"
            if rnd.random() < 0.15:
                # a file named like a legacy configuration that is none (no project key): not a project of any schema version
                open(os.path.join(sub, "signac.rc"), "w").write(rnd.choice(["something = 1\n", "# empty\n", "workspace_dir = ws\n", "[section\nkey = 'unterminated\n", "= no key\n[[too deep]]\n", "project = \"x\nschema_version = (\n"]))
            is_proj = rnd.random() < 0.4
            if is_proj:
                signac.init_project(sub)
                projects.append(sub)
                kinds[sub] = "project"
                for k in range(rnd.randint(0, 2)):
                    job = signac.Project(sub).open_job({"k": rnd.randrange(1000)}).init()
                    kinds[job.path] = "job"
                    os.makedirs(os.path.join(job.path, "data"), exist_ok=True)
                    kinds[os.path.join(job.path, "data")] = "plain"
                    if rnd.random() < 0.4:
                        grow(job.path, depth + 2, sub)
                if rnd.random() < 0.35:
                    # a job directory that is a symbolic link to a directory elsewhere (outside every project)
                    outside = os.path.join(root, "outside_%d" % len(kinds))
                    os.makedirs(os.path.join(outside, "inner"), exist_ok=True)
                    link = os.path.join(sub, "workspace", jid(len(kinds)))
                    os.makedirs(os.path.dirname(link), exist_ok=True)
                    if not os.path.lexists(link):
                        os.symlink(outside, link)
                        kinds[link] = "job"
                        kinds[os.path.join(link, "inner")] = "plain"
                kinds[os.path.join(sub, "workspace")] = "plain"
            grow(sub, depth + 1, sub if is_proj else enclosing)
    kinds[root] = "plain"
    grow(root, 0, None)
    return kinds, projects


def ref_project(path, projects):
    p = path
    while True:
        if p in projects:
            return p
        up = os.path.dirname(p)
        if up == p:
            return None
        p = up


def ref_job(path):
    """innermost 32-hex path component and the directory holding the workspace that contains it"""
    parts = path.split(os.sep)
    idx = [i for i, c in enumerate(parts) if len(c) == 32 and all(ch in "0123456789abcdef" for ch in c)]
    if not idx:
        return None
    i = idx[-1]
    return parts[i], os.sep.join(parts[:i])      # (job id, workspace dir)


def scenario(seed):
    import signac
    rnd = random.Random(seed)
    with dir_scratch() as d:
        d = os.path.realpath(d)
        kinds, projects = build(rnd, d)
        for path in sorted(kinds):
            for spelling in ("abs", "rel"):
                q = path
                cwd0 = os.getcwd()
                try:
                    if spelling == "rel":
                        if os.path.realpath(os.path.dirname(path)) != os.path.dirname(path):
                            continue        # a cwd reached through a symlink is reported by the OS as its target: the lexical path is gone
                        os.chdir(os.path.dirname(path) or "/")
                        q = os.path.basename(path)
                    # get_project
                    want = ref_project(path, projects)
                    try:
                        got = os.path.realpath(signac.get_project(q).path)
                    except LookupError:
                        got = None
                    if got != want:
                        return f"get_project({q!r}) [{path}] -> {got}, nearest enclosing project is {want}", ("get_project", spelling)
                    try:
                        got2 = os.path.realpath(signac.get_project(q, search=False).path)
                    except LookupError:
                        got2 = None
                    want2 = path if path in projects else None
                    if got2 != want2:
                        return f"get_project({q!r}, search=False) -> {got2}, expected {want2}", ("get_project-nosearch", spelling)
                    # get_job
                    rj = ref_job(path)
                    try:
                        job = signac.get_job(q)
                        gj = (job.id, os.path.realpath(job.project.workspace))
                    except LookupError:
                        gj = None
                    if rj is None:
                        wj = None
                    else:
                        wsdir = rj[1]
                        proj = ref_project(os.path.dirname(wsdir), projects) if os.path.basename(wsdir) == "workspace" else ref_project(wsdir, projects)
                        wj = (rj[0], os.path.join(proj, "workspace")) if proj else None
                    if gj != wj:
                        return f"get_job({q!r}) [{path}] -> {gj}, expected {wj}", ("get_job", spelling)
                finally:
                    os.chdir(cwd0)
        # init_project on an existing project returns it unchanged
        for pr in projects:
            snap = {}
            for dp, dn, fn in os.walk(pr):
                for f in fn:
                    snap[os.path.join(dp, f)] = open(os.path.join(dp, f), "rb").read()
            p = signac.init_project(pr)
            if os.path.realpath(p.path) != pr:
                return f"init_project({pr}) returned {p.path}", ("init_project",)
            snap2 = {}
            for dp, dn, fn in os.walk(pr):
                for f in fn:
                    snap2[os.path.join(dp, f)] = open(os.path.join(dp, f), "rb").read()
            if snap != snap2:
                return f"init_project on the existing project {pr} changed files", ("init_project",)
        # paths that do not exist -- directly below the root, below every kind of directory of the tree, and two levels down: LookupError, never a guess
        missing = [os.path.join(d, "does", "not", "exist")]
        for path in sorted(kinds)[:12]:
            if os.path.realpath(path) == path:
                missing += [os.path.join(path, "missing_entry"), os.path.join(path, "missing_entry", "deeper")]
        for bad in missing:
            for fn, kw in ((signac.get_project, {}), (signac.get_project, {"search": False}), (signac.get_job, {})):
                try:
                    r = fn(bad, **kw)
                    return f"{fn.__name__}({bad!r}{', search=False' if kw else ''}) on a path that does not exist returned {r} instead of raising LookupError", ("nonexistent", fn.__name__)
                except LookupError:
                    pass
        return None, (len(projects), len(kinds))


def run(tier="quick", seed=0):
    b = Budget(14 if tier == "quick" else 300)
    evals, distinct, failures, samples = 0, set(), [], []
    n = 40 if tier == "quick" else 3000
    for k in range(n):
        if not b.left() or failures:
            break
        s = 190000 + seed * 100000 + k
        try:
            bad, sig = scenario(s)
        except Exception:
            import traceback
            bad, sig = "scenario crashed: " + traceback.format_exc()[-600:], ("crash",)
        evals += 1
        distinct.add(sig)
        if len(samples) < 3:
            samples.append([str(x) for x in sig])
        if bad:
            failures.append({"key": "discovery:" + str(sig)[:60], "description": bad,
                             "script": script_header() + f"sys.path.insert(0, '/verif')\nfrom pybound.c19 import scenario\nbad, sig = scenario({s})\nassert not bad, bad\n"})
    # discovery with a user-level ~/.signacrc present (shared with C20: get_project / init_project open a project by what the project declares)
    try:
        from .c20 import user_config_check
        uc = [x for x in user_config_check() if x[0].split(":")[-1] in ("get_project", "init_project", "crashed")]
    except BaseException as e:
        uc = [("user-config:raised", f"user_config_check raised {type(e).__name__}: {str(e)[:200]}")]
    evals += 3
    for key, desc in uc[:2]:
        failures.append({"key": key, "description": desc,
                         "script": script_header() + "sys.path.insert(0, '/verif')\nfrom pybound.c20 import user_config_check\nr = user_config_check()\nassert not r, r\n"})
    return {"scope": "generated directory trees to depth 5 mixing plain directories, projects, projects nested in plain sub-directories and inside job directories; every directory "
                     "queried by absolute path and by a relative path from its parent; stray signac.rc files that are no legacy configuration; get_project (search on/off), get_job, init_project on existing projects, non-existent paths",
            "evaluations": evals, "distinct_nontrivial": len(distinct), "rule": "a case is one generated tree with all its directories queried; distinct by (number of projects, number of directories)",
            "samples": samples, "failures": failures}
