"""Bounded stand-in for C09: damage state point files / rename job directories on real projects, then the run-time contracts
`check() names exactly the damaged jobs`, `open by id never yields a state point hashing to another id`, `repair() restores every
job whose state point is known, without touching documents or data files` (never counted as proved)."""
import json
import os
import random
import shutil

from .common import Budget, project_scratch, script_header
from .fsharness import ref_id, run_histories

RULE = "a case is one (project, damage set) scenario; non-trivial/distinct = distinct (damage kind, cache present, repairable) combinations"


def snapshot(p):
    out = {}
    for jid in os.listdir(p.workspace):
        d = os.path.join(p.workspace, jid)
        files = {}
        for dp, dn, fn in os.walk(d):
            for f in fn:
                if f != "signac_statepoint.json":
                    files[os.path.relpath(os.path.join(dp, f), d)] = open(os.path.join(dp, f), "rb").read()
        out[jid] = files
    return out


def damaged_ids(p):
    bad = set()
    for jid in os.listdir(p.workspace):
        fn = os.path.join(p.workspace, jid, "signac_statepoint.json")
        try:
            v = json.loads(open(fn, "rb").read().decode())
            if ref_id(v) != jid:
                bad.add(jid)
        except Exception:
            bad.add(jid)
    return bad


def scenario(rnd, with_cache):
    """returns (failure description or None, signature)"""
    import signac
    from signac.errors import JobsCorruptedError
    with project_scratch() as p:
        sps = [{"a": i, "b": rnd.choice(["x", 1.5, None, [1, 2], {"n": i}])} for i in range(rnd.randint(1, 4))]
        jobs = []
        for sp in sps:
            j = p.open_job(sp).init()
            if rnd.random() < 0.7:          # some jobs hold nothing but their state point file
                j.doc["k"] = sp["a"]
                open(j.fn("data.txt"), "w").write(str(sp))
            jobs.append(j)
        if with_cache:
            p.update_cache()
        known = {j.id: json.loads(json.dumps(j.statepoint())) for j in jobs}
        victims = rnd.sample(jobs, rnd.randint(1, min(3, len(jobs))))
        kinds = []
        for j in victims:
            fn = j.fn("signac_statepoint.json")
            if not os.path.exists(fn):
                continue
            kind = rnd.choice(["truncate", "flip", "delete", "foreign", "swap", "rename"])
            raw = open(fn, "rb").read()
            if kind == "truncate":
                open(fn, "wb").write(raw[: rnd.randrange(len(raw))])
            elif kind == "flip":
                i = rnd.randrange(len(raw))
                open(fn, "wb").write(raw[:i] + bytes([rnd.choice([0, 32, 48, 57, 34, 123, 255, raw[i] ^ 1])]) + raw[i + 1:])
            elif kind == "delete":
                os.remove(fn)
            elif kind == "foreign":
                open(fn, "w").write(json.dumps({"zz": rnd.randrange(1000)}))
            elif kind == "swap" and len(jobs) > 1:
                other = rnd.choice([o for o in jobs if o is not j])
                ofn = other.fn("signac_statepoint.json")
                if os.path.exists(ofn):
                    a, b = open(fn, "rb").read(), open(ofn, "rb").read()
                    open(fn, "wb").write(b)
                    open(ofn, "wb").write(a)
            elif kind == "rename":
                new = ref_id({"renamed": rnd.randrange(10 ** 6)})
                os.replace(j.path, os.path.join(p.workspace, new))
            kinds.append(kind)
        before = snapshot(p)
        bad = damaged_ids(p)
        sig = (tuple(sorted(set(kinds))), with_cache)
        q = signac.Project(p.path)
        try:
            q.check()
            named = set()
        except JobsCorruptedError as e:
            named = set(e.job_ids)
        except Exception as e:
            return f"check() raised {type(e).__name__}: {e}", sig
        if named != bad:
            return f"check() named {sorted(named)} but the damaged jobs (independent hash) are {sorted(bad)}; damage {kinds}", sig
        if rnd.random() < 0.5:
            # a session that (re)builds the cache after the damage must not launder a damaged state point into it
            try:
                signac.Project(p.path).update_cache()
            except Exception:
                pass
        for jid in os.listdir(p.workspace):
            q2 = signac.Project(p.path)
            try:
                sp = json.loads(json.dumps(q2.open_job(id=jid).statepoint()))
            except Exception:
                continue
            if ref_id(sp) != jid:
                return f"opening damaged job {jid} by id yielded a state point hashing to {ref_id(sp)}; damage {kinds}", sig
        for jid in os.listdir(p.workspace):
            # the read-only view (cached_statepoint, also used by repr) first, then the state point: the same rule
            q2 = signac.Project(p.path)
            try:
                h = q2.open_job(id=jid)
                csp = json.loads(json.dumps(dict(h.cached_statepoint)))
            except Exception:
                continue
            if ref_id(csp) != jid:
                return f"cached_statepoint of damaged job {jid} opened by id is a state point hashing to {ref_id(csp)}; damage {kinds}", sig
            try:
                sp = json.loads(json.dumps(h.statepoint()))
            except Exception:
                continue
            if ref_id(sp) != jid:
                return f"after reading cached_statepoint, the state point of damaged job {jid} hashes to {ref_id(sp)}; damage {kinds}", sig
        # repair
        q3 = signac.Project(p.path)
        recoverable = True
        targets = []
        for jid in bad:
            if with_cache and jid in known:
                continue
            fn = os.path.join(p.workspace, jid, "signac_statepoint.json")
            try:
                v = json.loads(open(fn, "rb").read().decode())
                tgt = ref_id(v)
                if not isinstance(v, dict) or (os.path.exists(os.path.join(p.workspace, tgt)) and tgt != jid):
                    recoverable = False
                if tgt not in known:
                    recoverable = False
                if tgt in targets:
                    recoverable = False      # two damaged directories hold the state point of one and the same job: only one can be restored
                targets.append(tgt)
            except Exception:
                recoverable = False
        try:
            q3.repair()
            rep_err = None
        except JobsCorruptedError as e:
            rep_err = set(e.job_ids)
        except Exception as e:
            return f"repair() raised {type(e).__name__}: {e}; damage {kinds}", sig
        after = snapshot(p)
        # documents and data files: every pre-existing file content still exists under some job directory with the same relative name
        for jid, files in before.items():
            holders = [a for a in after.values() if all(a.get(k) == v for k, v in files.items())]
            if files and not holders:
                return f"repair() changed or lost documents/data files of job directory {jid}; damage {kinds}", sig
        if recoverable:
            if rep_err:
                return f"repair() reported {sorted(rep_err)} although every damaged job is recoverable (cache={with_cache}); damage {kinds}", sig
            try:
                signac.Project(p.path).check()
            except JobsCorruptedError as e:
                return f"check() still fails after repair(): {sorted(e.job_ids)}; damage {kinds}, cache={with_cache}", sig
            for jid, sp in known.items():
                if with_cache and jid in bad:
                    pass
        return None, sig + (recoverable,)


def non_utf8_check():
    """a state point file that is no longer UTF-8 (one byte >= 0x80 written into it) is a corrupted job like any other: check() names
    exactly that job, opening it raises JobsCorruptedError, repair() restores it from the cache"""
    import signac
    from signac.errors import JobsCorruptedError
    out = []
    for with_cache in (False, True):
        with project_scratch() as p:
            a, b = p.open_job({"a": 1}).init(), p.open_job({"a": 2}).init()
            if with_cache:
                p.update_cache()
            fn = a.fn("signac_statepoint.json")
            raw = open(fn, "rb").read()
            open(fn, "wb").write(raw[:3] + b"\xff" + raw[4:])
            q = signac.Project(p.path)
            try:
                q.check()
                out.append((f"check:{with_cache}", "check() passed although a state point file is not UTF-8"))
            except JobsCorruptedError as e:
                if sorted(e.job_ids) != [a.id]:
                    out.append((f"check:{with_cache}", f"check() named {sorted(e.job_ids)}, the damaged job is {a.id}"))
            except Exception as e:
                out.append((f"check:{with_cache}", f"check() on a project with a non-UTF-8 state point file raised {type(e).__name__}: {e} instead of naming the job"))
            try:
                signac.Project(p.path).open_job(id=a.id).statepoint()
                if not with_cache:
                    out.append((f"open:{with_cache}", "opening the damaged job by id returned a state point"))
            except (JobsCorruptedError, UnicodeDecodeError):
                pass        # rejected either way (the state point loader passes the decode error on: accepted by its contract as well)
            except Exception as e:
                out.append((f"open:{with_cache}", f"opening the damaged job by id raised {type(e).__name__}: {e}"))
            if with_cache:
                try:
                    r = signac.Project(p.path)
                    r.repair()
                    r.check()
                except Exception as e:
                    out.append((f"repair:{with_cache}", f"repair() with a cache entry for the damaged job: {type(e).__name__}: {e}"))
    return out


def run(tier="quick", seed=0):
    b = Budget(14 if tier == "quick" else 300)
    r = run_histories(seed + 9, Budget(5 if tier == "quick" else 100), n_hist=12 if tier == "quick" else 800, length=14 if tier == "quick" else 40)
    evals, distinct = 0, set()
    n = 60 if tier == "quick" else 5000
    for k in range(n):
        if not b.left() or any(f["key"].startswith("corrupt") for f in r["failures"]):
            break
        rnd = random.Random((seed + 9) * 7919 + k)
        with_cache = k % 2 == 0
        try:
            bad, sig = scenario(rnd, with_cache)
        except Exception as e:
            import traceback
            bad, sig = f"scenario crashed: {traceback.format_exc()[-600:]}", ("crash",)
        evals += 1
        distinct.add(sig)
        if bad:
            r["failures"].insert(0, {"key": "corrupt:" + str(sig)[:60], "description": bad,
                                     "script": script_header() + f"sys.path.insert(0, '/verif')\nimport random\nfrom pybound.c09 import scenario\nbad, sig = scenario(random.Random({(seed + 9) * 7919 + k}), {with_cache})\nassert not bad, bad\n"})
    try:
        found = non_utf8_check()
    except Exception as e:
        found = [("raised", f"non_utf8_check raised {type(e).__name__}: {e}")]
    for key, msg in found:
        r["failures"].insert(0, {"key": "corrupt:non-utf8:" + key, "description": msg,
                                 "script": script_header() + "sys.path.insert(0, '/verif')\nfrom pybound.c09 import non_utf8_check\nr = non_utf8_check()\nassert not r, r\n"})
    evals += 2
    r["evaluations"] += evals
    r["distinct_nontrivial"] += len(distinct)
    r.update(scope="a state point file that is not UTF-8 any more (with and without cache); projects of 1-4 jobs with documents and data files, with/without a persistent cache; 1-3 jobs damaged by truncation at a random offset, single-byte change, "
                   "deletion, foreign JSON, cross-job swap, directory rename; damage classified by an independent canonical hash; plus random API histories with model equality", rule=RULE)
    return r
