"""Bounded stand-in for C06 (never counted as proved): the contract `find(f) == {id | M(job id, f)}` checked at run time on the
real `_SearchIndexer.find` / `Project._find_job_ids` over an enumerated small scope, against a reference per-job evaluator written
from the property statement.  Also the replay oracle: every failure carries a self-contained script."""
import itertools
import json
import math
import random
import re

from .common import Budget, project_scratch, script_header

TYPES = {"int": int, "float": float, "bool": bool, "str": str, "list": (list, tuple), "null": type(None)}
MISSING = object()


def lookup(doc, nodes):
    v = doc
    for n in nodes:
        if isinstance(v, dict) and n in v:
            v = v[n]
        else:
            return MISSING
    return v


def norm(v):
    return tuple(norm(x) for x in v) if isinstance(v, (list, tuple)) else v


def leaf_holds(v, op, arg):
    """direct evaluation of one leaf on a job's own value v (MISSING if the key is absent)"""
    if op == "$exists":
        return (v is not MISSING) == bool(arg)
    if v is MISSING:
        return False
    if isinstance(v, dict):
        # a mapping-valued key: the value is a mapping, which equals no scalar / list argument and cannot be ordered or matched
        if op in ("$lt", "$lte", "$gt", "$gte", "$near"):
            raise TypeError("mapping value in an order comparison")
        return op in ("$ne", "$nin")
    v = norm(v)
    arg_n = norm(arg)
    if op == "$eq":
        return v == arg_n and not isinstance(arg_n, dict)
    if op == "$ne":
        return v != arg_n
    if op == "$lt":
        return v < arg_n
    if op == "$lte":
        return v <= arg_n
    if op == "$gt":
        return v > arg_n
    if op == "$gte":
        return v >= arg_n
    if op == "$in":
        return any(v == a for a in arg_n)
    if op == "$nin":
        return not any(v == a for a in arg_n)
    if op == "$regex":
        return isinstance(v, str) and re.search(arg, v) is not None
    if op == "$type":
        return isinstance(v, TYPES[arg])
    if op == "$near":
        a = arg_n
        rel, ab = 1e-9, 0.0
        if isinstance(a, tuple):
            if len(a) == 1:
                a = a[0]
            elif len(a) == 2:
                a, rel = a
            else:
                a, rel, ab = a
        return math.isclose(v, float(a), rel_tol=float(rel), abs_tol=float(ab))
    raise KeyError(op)


OPS = {"$eq", "$ne", "$lt", "$lte", "$gt", "$gte", "$in", "$nin", "$regex", "$type", "$near", "$exists"}


def matches(job, f, default_ns="sp"):
    """job = {"sp": {...}, "doc": {...}}; f in the documented grammar (project-level: unprefixed keys mean sp.)"""
    for key, value in f.items():
        if key == "$and":
            if not all(matches(job, g, default_ns) for g in value):
                return False
        elif key == "$or":
            if not any(matches(job, g, default_ns) for g in value):
                return False
        elif key == "$not":
            if matches(job, value, default_ns):
                return False
        else:
            nodes = key.split(".")
            if default_ns is not None and nodes[0] not in ("sp", "doc"):
                nodes = [default_ns] + nodes
            if not leaf(job, nodes, value):
                return False
    return True


def leaf(job, nodes, value):
    if nodes[-1].startswith("$"):
        return leaf_holds(lookup(job, nodes[:-1]), nodes[-1], value)
    if isinstance(value, dict) and value:
        # nested mapping: every entry is a deeper key or an operator
        return all(leaf(job, nodes + k.split("."), v) for k, v in value.items())
    return leaf_holds(lookup(job, nodes), "$eq", value)


# ----------------------------------------------------------------------------- scope

VALUES = [0, 1, 2, 1.0, 2.5, -1, True, None, "a", "b", "ab", [1, 2], [1, 2.0], [], {"n": 1}, {"n": 2.0, "m": "a"}, -1.0, 0.0, -2, -2.0]
SP_KEYS = ["a", "b", "c"]


def gen_corpus(rnd, f3_free=True):
    n = rnd.randint(0, 6)
    jobs = {}
    for i in range(n):
        sp, doc = {}, {}
        for k in SP_KEYS:
            if rnd.random() < 0.7:
                sp[k] = rnd.choice(VALUES)
        for k in ("a", "d"):
            if rnd.random() < 0.5:
                doc[k] = rnd.choice(VALUES)
        jobs[f"{i:032x}"] = {"sp": sp, "doc": doc}
    if f3_free:
        # scope excludes the trigger of known finding F3: a bool and an equal int/float under one key
        for ns in ("sp", "doc"):
            for k in SP_KEYS + ["d"]:
                vals = [j[ns][k] for j in jobs.values() if k in j[ns] and not isinstance(j[ns][k], (dict, list, str, type(None)))]
                if any(isinstance(v, bool) for v in vals) and any((not isinstance(v, bool)) and v in (0, 1) for v in vals):
                    for j in jobs.values():
                        if k in j[ns] and isinstance(j[ns][k], bool):
                            j[ns][k] = "a"
    return jobs


def gen_leaf(rnd):
    ns = rnd.choice(["", "", "sp.", "doc."])
    key = ns + rnd.choice(["a", "b", "c", "d", "a.n", "c.m"])
    kind = rnd.random()
    scal = [0, 1, 2, 1.0, 2.0, 2.5, -1, True, False, None, "a", "ab", [1, 2], [1, 2.0]]
    if kind < 0.3:
        return {key: rnd.choice(scal)}
    op = rnd.choice(sorted(OPS))
    if op in ("$lt", "$lte", "$gt", "$gte"):
        arg = rnd.choice([0, 1, 1.5, 2, "a", "b"])
    elif op in ("$in", "$nin"):
        arg = rnd.sample(scal, rnd.randint(0, 3))
    elif op == "$regex":
        arg = rnd.choice(["a", "^a$", "b$", "^$", "."])
    elif op == "$type":
        arg = rnd.choice(sorted(TYPES))
    elif op == "$near":
        arg = rnd.choice([1, 2.5, [1], [2, 0.5], [2, 0.1, 1]])
    elif op == "$exists":
        arg = rnd.choice([True, False])
    else:
        arg = rnd.choice(scal)
    return {key + "." + op: arg} if rnd.random() < 0.5 else {key: {op: arg}}


def gen_filter(rnd, depth=0):
    r = rnd.random()
    if depth >= 2 or r < 0.5:
        f = gen_leaf(rnd)
        if rnd.random() < 0.25:
            f.update(gen_leaf(rnd))
        return f
    if r < 0.65:
        return {"$not": gen_filter(rnd, depth + 1)}
    op = "$and" if r < 0.8 else "$or"
    subs = [gen_filter(rnd, depth + 1) for _ in range(rnd.randint(1, 3))]
    if rnd.random() < 0.5:
        # operands that repeat one and the same (key, value) condition next to their own ones (e.g. {"$or": [{k: v, n: 1}, {k: v, n: 2}]})
        pivot = gen_leaf(rnd)
        subs = [dict(list(pivot.items()) + [(k, v) for k, v in g.items() if k not in pivot]) if not any(k.startswith("$") for k in g) else {"$and": [dict(pivot), g]} for g in subs]
    f = {op: subs}
    if rnd.random() < 0.3:
        f.update(gen_leaf(rnd))
    return f


def each_leaf(f, default_ns="sp"):
    for key, value in f.items():
        if key in ("$and", "$or"):
            for g in value:
                yield from each_leaf(g, default_ns)
        elif key == "$not":
            yield from each_leaf(value, default_ns)
        else:
            nodes = key.split(".")
            if default_ns is not None and nodes[0] not in ("sp", "doc"):
                nodes = [default_ns] + nodes
            yield from _leaf_parts(nodes, value)


def _leaf_parts(nodes, value):
    if nodes[-1].startswith("$"):
        yield nodes[:-1], nodes[-1], value
    elif isinstance(value, dict) and value:
        for k, v in value.items():
            yield from _leaf_parts(nodes + k.split("."), v)
    else:
        yield nodes, "$eq", value


def ambiguous(f):
    """the same (prefixed) key spelled twice in one mapping, e.g. {'b': .., 'sp.b': ..}: outside the scope (stated)"""
    seen = set()
    for key, value in f.items():
        if key in ("$and", "$or"):
            if any(ambiguous(g) for g in value):
                return True
        elif key == "$not":
            if ambiguous(value):
                return True
        else:
            nodes = key.split(".")
            if nodes[0] not in ("sp", "doc"):
                nodes = ["sp"] + nodes
            base = ".".join(n for n in nodes if not n.startswith("$"))
            if base in seen:
                return True
            seen.add(base)
    return False


def well_typed(jobs, f):
    """every leaf can be evaluated on every job (no short-circuit): excludes only comparisons Python cannot order"""
    try:
        for nodes, op, arg in each_leaf(f):
            for j in jobs.values():
                leaf_holds(lookup(j, nodes), op, arg)
        return True
    except TypeError:
        return False


def mk_script(jobs, f, expected, level):
    return script_header() + f"""
import json
jobs = json.loads({json.dumps(json.dumps(jobs))})
f = json.loads({json.dumps(json.dumps(f))})
expected = set({sorted(expected)!r})
""" + ("""
from signac._search_indexer import _SearchIndexer
from signac.filterparse import _add_prefix
got = set(_SearchIndexer(jobs).find(dict(_add_prefix(f))))
""" if level == "indexer" else """
import signac, tempfile, os
with tempfile.TemporaryDirectory() as d:
    p = signac.init_project(d)
    idmap = {}
    for k, j in jobs.items():
        job = p.open_job(j["sp"]).init()
        if j["doc"]:
            job.doc.update(j["doc"])
        idmap[job.id] = k
    got = {idmap[i] for i in p._find_job_ids(f)}
""") + """
assert got == expected, f"find returned {sorted(got)}, per-job evaluation gives {sorted(expected)} for filter {f}"
"""


def run(tier="quick", seed=0):
    from signac._search_indexer import _SearchIndexer
    from signac.filterparse import _add_prefix
    rnd = random.Random(1000 + seed)
    budget = Budget(10 if tier == "quick" else 120)
    evals, distinct, failures, samples = 0, set(), [], []
    while budget.left() and evals < (4000 if tier == "quick" else 60000):
        jobs = gen_corpus(rnd)
        ix = None
        for _ in range(12):
            f = gen_filter(rnd)
            if ambiguous(f) or not well_typed(jobs, f):
                continue
            expected = {k for k, j in jobs.items() if matches(j, f)}
            try:
                if ix is None:
                    ix = _SearchIndexer(json.loads(json.dumps(jobs)))
                got = set(ix.find(dict(_add_prefix(f))))
            except Exception as e:
                got = f"raised {type(e).__name__}: {e}"
            evals += 1
            sig = json.dumps(f, sort_keys=True)
            if 0 < len(expected) < len(jobs):
                distinct.add(sig)
            if len(samples) < 3 and 0 < len(expected) < len(jobs):
                samples.append({"filter": f, "jobs": len(jobs), "matched": len(expected)})
            if got != expected and len(failures) < 3:
                failures.append({"key": "find:" + sig[:80], "description": f"_SearchIndexer.find disagrees with per-job evaluation: filter {f}, got {got if isinstance(got, str) else sorted(got)}, expected {sorted(expected)}",
                                 "script": mk_script(jobs, f, expected, "indexer")})
        if failures:
            break
    # the logical combinators next to sibling conditions, exhaustively over a small grid ($or is a union whatever else the filter says and
    # however many candidates are left, $and an intersection, $not a complement within the corpus)
    grid = {f"j{a}{b}{c}": {"sp": {"a": a, "b": b, "c": c}} for a in (0, 1, 2) for b in (0, 1) for c in (0, 1)}
    combos = []
    for v in (0, 1):
        for x in (0, 1, 2):
            for y in (0, 1, 2):
                combos.append({"sp.b": v, "$or": [{"sp.a": x}, {"sp.a": y}]})
                combos.append({"sp.b": v, "$or": [{"sp.a": x}, {"sp.c": 1}, {"sp.a": y}]})
                combos.append({"sp.c": v, "$and": [{"$or": [{"sp.a": x}, {"sp.a": y}]}, {"sp.b": 1}]})
                combos.append({"sp.b": v, "$not": {"$or": [{"sp.a": x}, {"sp.a": y}]}})
                combos.append({"$or": [{"sp.a": x, "sp.b": v}, {"sp.a": y, "sp.c": v}], "sp.c": 1})
    gix = None
    for f in combos:
        expected = {k for k, j in grid.items() if matches(j, f)}
        try:
            if gix is None:
                gix = _SearchIndexer(json.loads(json.dumps(grid)))
            got = set(gix.find(json.loads(json.dumps(f))))
        except Exception as e:
            got = f"raised {type(e).__name__}: {e}"
        evals += 1
        if got != expected and len(failures) < 3:
            failures.append({"key": "find:combinators:" + json.dumps(f, sort_keys=True)[:70],
                             "description": f"_SearchIndexer.find on the 12-job grid a x b x c: filter {f}, got {got if isinstance(got, str) else sorted(got)}, expected {sorted(expected)}",
                             "script": mk_script(grid, f, expected, "indexer")})
    # project-level wiring (namespaces, document inclusion) on real projects: fewer, slower
    nproj = 6 if tier == "quick" else 60
    for _ in range(nproj):
        if failures or not budget.left():
            break
        jobs = gen_corpus(rnd)
        with project_scratch() as p:
            idmap = {}
            for k, j in jobs.items():
                job = p.open_job(j["sp"]).init()
                if j["doc"]:
                    job.doc.update(j["doc"])
                idmap[job.id] = k
            uniq = {v: {"sp": job_sp, "doc": {}} for v, job_sp in []}
            # jobs with identical state points collapse to one id: evaluate the reference on the merged view
            merged = {}
            for k, j in jobs.items():
                merged.setdefault(json.dumps(j["sp"], sort_keys=True), k)
            view = {}
            for jid, k in idmap.items():
                jb = p.open_job(id=jid)
                view[k] = {"sp": json.loads(json.dumps(jb.statepoint())), "doc": json.loads(json.dumps(jb.doc()))}
            for _ in range(10):
                f = gen_filter(rnd)
                if ambiguous(f) or not well_typed(view, f):
                    continue
                expected = {k for k, j in view.items() if matches(j, f)}
                try:
                    got = {idmap[i] for i in p._find_job_ids(json.loads(json.dumps(f)))}
                except Exception as e:
                    got = f"raised {type(e).__name__}: {e}"
                evals += 1
                if got != expected and len(failures) < 3:
                    failures.append({"key": "find_job_ids:" + json.dumps(f, sort_keys=True)[:80],
                                     "description": f"Project._find_job_ids disagrees with per-job evaluation: filter {f}, got {got if isinstance(got, str) else sorted(got)}, expected {sorted(expected)}",
                                     "script": mk_script(view, f, expected, "project")})
    # list values holding mappings (which hold mappings): every query over the key still answers (defect F29, repaired: _to_hashable did
    # not descend into mapping values, the index of such a key could not be built and find / groupby / detect_schema raised TypeError)
    docs = {"j1": {"sp": {"a": [1, {"p": {"u": 1}}], "b": 1}}, "j2": {"sp": {"a": [2], "b": 2}}, "j3": {"sp": {"a": [1, {"p": {"u": 1}}], "b": 3}}}
    for f, want in (({"sp.a": [2]}, {"j2"}), ({"sp.a": [1, {"p": {"u": 1}}]}, {"j1", "j3"}), ({"sp.a": {"$ne": [2]}}, {"j1", "j3"}), ({"sp.b": {"$gt": 1}}, {"j2", "j3"})):
        try:
            got = set(_SearchIndexer(json.loads(json.dumps(docs))).find(f))
        except Exception as e:
            got = f"raised {type(e).__name__}: {e}"
        evals += 1
        if got != want and len(failures) < 3:
            failures.append({"key": "find:mapping-inside-list", "description": f"documents {docs}: find({f}) gives {got if isinstance(got, str) else sorted(got)}, expected {sorted(want)}", "script": ""})
    # probe for known finding F3 (reported under its bounded_key when it still manifests)
    ix = _SearchIndexer({"a": {"sp": {"v": False}}, "b": {"sp": {"v": 0}}})
    if set(ix.find({"sp.v": {"$type": "bool"}})) != {"a"}:
        failures.append({"key": "find:$type-bool-conflation", "description": "known finding F3", "script": ""})
    return {"scope": "corpora of 0-6 jobs over 20 typed values (incl. -1 / -1.0, -2 / -2.0, 0 / 0.0) x 3 sp keys / 2 doc keys; random filters of the documented grammar to depth 3 "
                     "(operators as suffix or nested mapping, sp./doc./no prefix); 180 filters combining $or / $and / $not with sibling conditions on a 12-job grid; corpora that trigger known finding F3 and mappings that spell one key twice (b and sp.b) are excluded",
            "evaluations": evals, "distinct_nontrivial": len(distinct), "rule": "a case is one (corpus, filter) pair; non-trivial = the filter selects a non-empty proper subset; distinct by filter",
            "samples": samples, "failures": failures}
