"""Bounded stand-in for C10 (never counted as proved): a child process performing a document / cache write is killed right before
or in the middle of every file-system step (open/truncate, each write call, close, os.replace); what a reader / the restarted
program then finds must parse completely to the old or the new content, and at most a stray temporary file is left."""
import builtins
import gzip
import json
import os
import random

from .common import Budget, dir_scratch, script_header


class _Wrapped:
    def __init__(self, real, inj):
        self._real, self._inj = real, inj

    def write(self, data):
        self._inj.step("write", lambda: (self._real.write(data[: len(data) // 2]), self._real.flush()))
        return self._real.write(data)

    def close(self):
        self._inj.step("close", lambda: None)
        return self._real.close()

    def __enter__(self):
        return self

    def __exit__(self, *a):
        self.close()
        return False

    def __getattr__(self, name):
        return getattr(self._real, name)


class Injector:
    def __init__(self, root, crash_at, torn):
        self.root, self.crash_at, self.torn, self.n = root, crash_at, torn, 0

    def step(self, kind, partial):
        self.n += 1
        if self.n == self.crash_at:
            if self.torn:
                try:
                    partial()
                except Exception:
                    pass
            os._exit(77)

    def install(self):
        real_open, real_replace = builtins.open, os.replace
        inj = self

        def open_(file, mode="r", *a, **k):
            if isinstance(file, str) and file.startswith(inj.root) and any(c in mode for c in "wax+"):
                inj.step("open", lambda: real_open(file, mode, *a, **k).close())
                return _Wrapped(real_open(file, mode, *a, **k), inj)
            return real_open(file, mode, *a, **k)

        def replace(a, b, **k):
            if isinstance(a, str) and a.startswith(inj.root):
                inj.step("replace", lambda: None)
            return real_replace(a, b, **k)
        builtins.open = open_
        os.replace = replace


SCENARIOS = ["job-doc-set", "job-doc-reset", "project-doc-set", "job-doc-big", "buffered-flush", "update-cache-grow", "update-cache-shrink", "job-clear", "job-reset",
             "migrate-project-name"]


def prepare(d, name):
    import signac
    if name == "migrate-project-name":
        # a schema-version-1 project with a non-default name and an existing project document: the migration stores the name in it
        from .c20 import make_legacy
        make_legacy(d + "/p", 1, "my project", None, False, 1)
        open(os.path.join(d, "p", "signac_project_document.json"), "w").write(json.dumps({"pk": "old", "l": list(range(30))}))
        return d + "/p", None
    os.makedirs(d + "/p")
    p = signac.init_project(d + "/p")
    j = p.open_job({"a": 1}).init()
    j.doc["k"] = "old"
    j.doc["l"] = list(range(5))
    open(j.fn("data.txt"), "w").write("x")
    p.doc["pk"] = "old"
    p.open_job({"a": 2}).init()
    p.update_cache()
    if name == "update-cache-grow":
        p.open_job({"a": 3}).init()
    if name == "update-cache-shrink":
        p.open_job({"a": 2}).remove()
    return p.path, j.id


def action(name, ppath, jid):
    import signac
    if name == "migrate-project-name":
        import contextlib
        import io
        from signac.migration import apply_migrations
        with contextlib.redirect_stdout(io.StringIO()), contextlib.redirect_stderr(io.StringIO()):      # progress messages go to stderr
            apply_migrations(ppath)
        return
    p = signac.Project(ppath)
    j = p.open_job(id=jid)
    if name == "job-doc-set":
        j.doc["k"] = "new"
    elif name == "job-doc-reset":
        j.doc = {"fresh": 1}
    elif name == "project-doc-set":
        p.doc["pk"] = "new"
    elif name == "job-doc-big":
        j.doc["big"] = "y" * 300000
    elif name == "buffered-flush":
        with signac.buffered():
            j.doc["k"] = "new"
            j.doc["m"] = 2
    elif name.startswith("update-cache"):
        p.update_cache()
    elif name == "job-clear":
        j.clear()
    elif name == "job-reset":
        j.reset()


def observed(ppath, jid, name):
    """what a reader finds: (target file content parsed or an error text, stray files)"""
    if name.startswith("update-cache"):
        fn = os.path.join(ppath, ".signac", "statepoint_cache.json.gz")
        try:
            return sorted(json.loads(gzip.open(fn, "rb").read().decode()))
        except Exception as e:
            return f"UNREADABLE ({type(e).__name__}: {e})"
    fn = os.path.join(ppath, "signac_project_document.json") if name in ("project-doc-set", "migrate-project-name") else os.path.join(ppath, "workspace", jid, "signac_job_document.json")
    try:
        return json.loads(open(fn, "rb").read().decode())
    except FileNotFoundError:
        return "ABSENT"
    except Exception as e:
        return f"UNREADABLE ({type(e).__name__}: {e})"


def scenario(name, k, torn):
    with dir_scratch() as d:
        ppath, jid = prepare(d, name)
        old = observed(ppath, jid, name)
        pid = os.fork()
        if pid == 0:
            try:
                Injector(d, k, torn).install()
                action(name, ppath, jid)
            except BaseException:
                os._exit(1)
            os._exit(0)
        _, status = os.waitpid(pid, 0)
        code = os.WEXITSTATUS(status)
        got = observed(ppath, jid, name)
        if code == 0:
            return None, False, got      # fewer than k steps: the write completed
        if code == 1:
            return f"{name}: the child raised instead of completing", True, got
        # the new content: run the action to completion on a fresh copy
        with dir_scratch() as d2:
            p2, j2 = prepare(d2, name)
            action(name, p2, j2)
            new = observed(p2, j2, name)
        if isinstance(got, str) and got.startswith("UNREADABLE"):
            return f"{name}: process death at step {k}{' (mid-write)' if torn else ''} leaves the file {got}", True, got
        if got != old and got != new:
            return f"{name}: process death at step {k}{' (mid-write)' if torn else ''} leaves content that is neither the old nor the new one: {str(got)[:120]} (old {str(old)[:60]}, new {str(new)[:60]})", True, got
        return None, True, got


def run(tier="quick", seed=0):
    b = Budget(18 if tier == "quick" else 400)
    rnd = random.Random(1000 + seed)
    plan = [(n, k, t) for n in SCENARIOS for k in range(1, 9) for t in (False, True)]
    if tier == "quick":
        rnd.shuffle(plan)
    evals, distinct, failures, samples = 0, set(), [], []
    ended = {}
    for (name, k, torn) in plan:
        if not b.left() or failures:
            break
        if ended.get(name, 99) < k:
            continue
        try:
            bad, reached, got = scenario(name, k, torn)
        except Exception:
            import traceback
            bad, reached, got = "scenario crashed: " + traceback.format_exc()[-500:], True, None
        if not reached:
            ended[name] = min(ended.get(name, 99), k)
            continue
        evals += 1
        distinct.add((name, k, torn))
        if len(samples) < 3:
            samples.append({"scenario": name, "step": k, "mid_write": torn, "reader_sees": str(got)[:80]})
        if bad:
            failures.append({"key": f"crash:{name}:{k}:{'torn' if torn else 'before'}", "description": bad,
                             "script": script_header() + f"sys.path.insert(0, '/verif')\nfrom pybound.c10 import scenario\nbad, reached, got = scenario({name!r}, {k}, {torn})\nassert not bad, bad\n"})
    return {"scope": "10 write scenarios (job document item set / reset / 300 kB value / buffered flush, project document, update_cache with a grown and a shrunk workspace, job.clear, job.reset, "
                     "the v1->v2 migration storing a non-default project name in an existing project document); "
                     "the writing process is killed right before the k-th file-system step (open-for-write, each write call, close, os.replace; k = 1..8) or in the middle of it (half the bytes flushed); "
                     "a reader at that point = the file as found afterwards",
            "evaluations": evals, "distinct_nontrivial": len(distinct), "rule": "a case is one (scenario, step, before/mid-write) run that reached the step; distinct by that triple",
            "samples": samples, "failures": failures}
