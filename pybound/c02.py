"""Bounded stand-in for C02: reopen in a fresh session, lookup by id and by every id prefix (never counted as proved)."""
import json
import random

from .common import Budget, project_scratch, script_header
from .fsharness import run_histories, ref_id

RULE = "a case is one executed operation / one (project, prefix) lookup; non-trivial = distinct operation kinds and prefix outcomes (unique / ambiguous / unknown)"


def prefix_checks(seed, budget, rounds):
    import signac
    evals, distinct, failures = 0, set(), []
    rnd = random.Random(seed)
    for r in range(rounds):
        if not budget.left() or failures:
            break
        with project_scratch() as p:
            sps = [{"a": rnd.randrange(10 ** 6), "b": rnd.choice([1, "x", None])} for _ in range(rnd.randint(1, 24))]
            ids = sorted({p.open_job(sp).init().id for sp in sps})
            if rnd.random() < 0.5:
                p.update_cache()
            q = signac.Project(p.path)                       # fresh session
            for jid in rnd.sample(ids, min(3, len(ids))):    # partially filled in-memory cache
                q.open_job(id=jid).statepoint()
            cands = set()
            for jid in ids:
                for n in (1, 2, 3, 4, 31, 32):
                    cands.add(jid[:n])
            cands |= {"0", "f", "zz", "0" * 32}
            for pre in sorted(cands):
                m = [i for i in ids if i.startswith(pre)]
                want = "unique" if len(m) == 1 else "ambiguous" if len(m) > 1 else "unknown"
                if len(pre) == 32:
                    want = "unique" if pre in ids else "unknown"
                try:
                    j = q.open_job(id=pre)
                    got = "unique" if (m and j.id == m[0]) or (len(pre) == 32 and j.id == pre) else f"wrong job {j.id}"
                except LookupError as e:
                    got = "unknown" if isinstance(e, KeyError) else "ambiguous"
                evals += 1
                distinct.add((want, min(len(pre), 5)))
                if got != want and not failures:
                    failures.append({"key": f"prefix:{want}->{got}", "description": f"open_job(id={pre!r}) with workspace ids {ids}: expected {want}, got {got}",
                                     "script": script_header() + f"""
import signac, tempfile, json
sps = json.loads({json.dumps(json.dumps(sps))})
with tempfile.TemporaryDirectory() as d:
    p = signac.init_project(d)
    ids = sorted({{p.open_job(sp).init().id for sp in sps}})
    q = signac.Project(d)
    for jid in {rnd.sample(ids, min(3, len(ids)))!r}:
        q.open_job(id=jid).statepoint()
    m = [i for i in ids if i.startswith({pre!r})]
    try:
        j = q.open_job(id={pre!r}); got = j.id
    except KeyError: got = "KeyError"
    except LookupError: got = "LookupError"
    want = m[0] if len(m) == 1 else ("LookupError" if len(m) > 1 else "KeyError")
    assert got == want, (got, want)
"""})
    return evals, distinct, failures


def run(tier="quick", seed=0):
    b = Budget(12 if tier == "quick" else 240)
    r = run_histories(seed + 2, Budget(6 if tier == "quick" else 120), n_hist=20 if tier == "quick" else 1000, length=14 if tier == "quick" else 40,
                      weights={"init": 5, "handle": 3, "cache": 2, "doc": 1, "remove": 1})
    e, d, f = prefix_checks(seed + 2, b, 6 if tier == "quick" else 200)
    r["evaluations"] += e
    r["distinct_nontrivial"] += len(d)
    r["failures"] = f + r["failures"]
    r.update(scope="random histories of init / handle copies / cache / remove over 2 projects with model equality after every step; plus id-prefix lookup (lengths 1-4, 31, 32, unknown ids) "
                   "in a fresh session with a partially filled cache on projects of 1-24 jobs", rule=RULE)
    return r
