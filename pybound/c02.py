"""Bounded stand-in for C02: reopen in a fresh session, lookup by id and by every id prefix (never counted as proved)."""
import json
import os
import random

from .common import Budget, project_scratch, script_header
from .fsharness import run_histories, ref_id

RULE = "a case is one executed operation / one (project, prefix) lookup; non-trivial = distinct operation kinds and prefix outcomes (unique / ambiguous / unknown)"


def prefix_checks(seed, budget, rounds):
    import signac
    evals, distinct, failures = 0, set(), []
    rnd = random.Random(seed)
    for r in range(rounds):
        if not budget.left() or failures:
            break
        with project_scratch() as p:
            sps = [{"a": rnd.randrange(10 ** 6), "b": rnd.choice([1, "x", None])} for _ in range(rnd.randint(1, 24))]
            ids = sorted({p.open_job(sp).init().id for sp in sps})
            if rnd.random() < 0.5:
                p.update_cache()
            q = signac.Project(p.path)                       # fresh session
            for jid in rnd.sample(ids, min(3, len(ids))):    # partially filled in-memory cache
                q.open_job(id=jid).statepoint()
            cands = set()
            for jid in ids:
                for n in (1, 2, 3, 4, 31, 32):
                    cands.add(jid[:n])
            cands |= {"0", "f", "zz", "0" * 32}
            for pre in sorted(cands):
                m = [i for i in ids if i.startswith(pre)]
                want = "unique" if len(m) == 1 else "ambiguous" if len(m) > 1 else "unknown"
                if len(pre) == 32:
                    want = "unique" if pre in ids else "unknown"
                try:
                    j = q.open_job(id=pre)
                    got = "unique" if (m and j.id == m[0]) or (len(pre) == 32 and j.id == pre) else f"wrong job {j.id}"
                except LookupError as e:
                    got = "unknown" if isinstance(e, KeyError) else "ambiguous"
                evals += 1
                distinct.add((want, min(len(pre), 5)))
                if got != want and not failures:
                    failures.append({"key": f"prefix:{want}->{got}", "description": f"open_job(id={pre!r}) with workspace ids {ids}: expected {want}, got {got}",
                                     "script": script_header() + f"""
import signac, tempfile, json
sps = json.loads({json.dumps(json.dumps(sps))})
with tempfile.TemporaryDirectory() as d:
    p = signac.init_project(d)
    ids = sorted({{p.open_job(sp).init().id for sp in sps}})
    q = signac.Project(d)
    for jid in {rnd.sample(ids, min(3, len(ids)))!r}:
        q.open_job(id=jid).statepoint()
    m = [i for i in ids if i.startswith({pre!r})]
    try:
        j = q.open_job(id={pre!r}); got = j.id
    except KeyError: got = "KeyError"
    except LookupError: got = "LookupError"
    want = m[0] if len(m) == 1 else ("LookupError" if len(m) > 1 else "KeyError")
    assert got == want, (got, want)
"""})
    return evals, distinct, failures


def lazy_checks():
    """open_job(sp) writes nothing and the handle knows its state point -- including the empty one"""
    import signac
    out = []
    with project_scratch() as p:
        for sp in ({}, {"a": {}}, {"a": []}, {"a": None}, {"a": 0}, {"a": ""}, {"a": False}, {"a": {"n": [1, {"x": 2}]}, "l": [[1], 2]}):
            before = sorted(os.listdir(p.workspace))
            j = p.open_job(sp)
            try:
                got = json.loads(json.dumps(dict(j.cached_statepoint)))
                r = repr(j)
                got2 = json.loads(json.dumps(j.statepoint()))
            except Exception as e:
                out.append(("lazy:" + json.dumps(sp), f"uninitialised handle for state point {sp}: {type(e).__name__}: {e}"))
                continue
            if got != sp or got2 != sp:
                out.append(("lazy:" + json.dumps(sp), f"uninitialised handle for {sp} reports {got} / {got2}"))
            if sorted(os.listdir(p.workspace)) != before:
                out.append(("lazy:" + json.dumps(sp), f"open_job({sp}) / reading its state point wrote to the workspace"))
            try:
                p.open_job(id=j.id)
                out.append(("lazy-by-id:" + json.dumps(sp), f"open_job(id=...) of the never-initialised job {sp} (only a handle was made) returned a job instead of raising KeyError"))
            except KeyError:
                pass
            except Exception as e:
                out.append(("lazy-by-id:" + json.dumps(sp), f"open_job(id=...) of the never-initialised job {sp} raised {type(e).__name__}: {e}"))
            j.init()
            fn_sp = j.fn("signac_statepoint.json")
            st0 = (open(fn_sp, "rb").read(), os.stat(fn_sp).st_mtime_ns, os.stat(fn_sp).st_ino)
            for label, h, kw in (("same handle", j, {}), ("same handle, force", j, {"force": True}), ("fresh session", signac.Project(p.path).open_job(sp), {}),
                                 ("fresh session, force", signac.Project(p.path).open_job(sp), {"force": True}), ("fresh session by id, force", signac.Project(p.path).open_job(id=j.id), {"force": True})):
                try:
                    h.init(**kw)
                except Exception as e:
                    out.append(("reinit:" + json.dumps(sp), f"init({kw}) of the initialised job {sp} ({label}) raised {type(e).__name__}: {e}"))
                    continue
                st = (open(fn_sp, "rb").read(), os.stat(fn_sp).st_mtime_ns, os.stat(fn_sp).st_ino)
                if st != st0:
                    out.append(("reinit:" + json.dumps(sp), f"init({kw}) of the initialised job {sp} ({label}) rewrote its valid state point file"))
                    break
            q = signac.Project(p.path).open_job(id=j.id)
            try:
                if json.loads(json.dumps(q.statepoint())) != sp or json.loads(json.dumps(dict(q.cached_statepoint))) != sp:
                    out.append(("reopen:" + json.dumps(sp), f"job {sp} reopened by id in a fresh session reports {q.statepoint()}"))
            except Exception as e:
                out.append(("reopen:" + json.dumps(sp), f"job {sp} reopened by id in a fresh session: reading statepoint / cached_statepoint as plain JSON data raised {type(e).__name__}: {e}"))
    out += aliasing_checks()
    return out


def aliasing_checks():
    """open_job(sp) is unaffected by later mutation of the caller's mapping, whatever container spelling it came in"""
    import copy
    import hashlib
    import signac
    out = []

    def rid(v):
        return hashlib.md5(json.dumps(v, sort_keys=True).encode()).hexdigest()
    with project_scratch() as p:
        parent = p.open_job({"grid": {"n": 1, "l": [1, 2]}, "tag": "parent"}).init()
        cases = []
        d1 = {"a": {"n": 1}}
        cases.append(("nested dict", d1, lambda: d1["a"].__setitem__("n", 2)))
        d2 = {"a": [1, 2]}
        cases.append(("nested list", d2, lambda: d2["a"].append(3)))
        d3 = {"kind": "child", "grid": parent.sp.grid}
        cases.append(("nested synced collection", d3, lambda: parent.sp.grid.__setitem__("n", 5)))
        d4 = {"kind": "child2", "t": ([1, 2], "x")}
        cases.append(("tuple holding a list", d4, lambda: d4["t"][0].append(9)))
        d5 = {"kind": "child3", "l": parent.sp.grid.l}
        cases.append(("synced list", d5, lambda: parent.sp.grid.l.append(7)))
        for name, sp, mutate in cases:
            try:
                from synced_collections.utils import SyncedCollectionJSONEncoder
                want = json.loads(SyncedCollectionJSONEncoder().encode(sp))
                j = p.open_job(sp)
                jid = j.id
                mutate()
                got = json.loads(json.dumps(j.statepoint()))
                if got != want or rid(got) != jid:
                    out.append(("alias:" + name, f"open_job({name}): after mutating the caller's value the handle reports {got} (id {jid}, hash of that {rid(got)}), expected the value at open time {want}"))
                    continue
                j.init()
                if json.loads(open(j.fn("signac_statepoint.json")).read()) != want:
                    out.append(("alias:" + name, f"open_job({name}): state point file differs from the value at open time"))
            except Exception as e:
                out.append(("alias:" + name, f"open_job({name}) / later use raised {type(e).__name__}: {e}"))
    return out


def run(tier="quick", seed=0):
    b = Budget(12 if tier == "quick" else 240)
    r = run_histories(seed + 2, Budget(6 if tier == "quick" else 120), n_hist=20 if tier == "quick" else 1000, length=14 if tier == "quick" else 40,
                      weights={"init": 5, "handle": 3, "cache": 2, "doc": 1, "remove": 1})
    e, d, f = prefix_checks(seed + 2, b, 6 if tier == "quick" else 200)
    r["evaluations"] += e
    r["distinct_nontrivial"] += len(d)
    r["failures"] = f + r["failures"]
    for key, desc in lazy_checks():
        r["failures"].insert(0, {"key": key, "description": desc, "script": ""})
    r["evaluations"] += 7
    r.update(scope="random histories of init / handle copies / cache / remove over 2 projects with model equality after every step; plus id-prefix lookup (lengths 1-4, 31, 32, unknown ids) "
                   "in a fresh session with a partially filled cache on projects of 1-24 jobs", rule=RULE)
    return r
