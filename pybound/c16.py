"""Bounded stand-in for C16 (never counted as proved): export_to then import_from into an empty project reproduces ids, state
points, documents and file trees -- or the export raises before anything was copied; path checks; import never overwrites."""
import json
import os
import random
import shutil
import zipfile

from .common import Budget, dir_scratch, script_header

UNIVERSES = [
    [{"a": v} for v in (1, 10, 100)],
    [{"a": 1, "b": v} for v in ("x", "y z", "k.l")],
    [{"a": v, "b": w} for v in (1, 2) for w in (True, False)],
    [{"a": {"n": v}} for v in (1, 2, 3)],
    [{"ab": 1, "a": v} for v in (1, 2)],
    [{"a": 1}, {"a": 2, "b": 3}, {"b": 3}],
    [{"a": 1}],
    [],
    [{"a": v} for v in (1, 1.0, "1")],
    [{"a": v} for v in (True, "True")],
    [{"a": v, "c": 0.5} for v in range(12)],
]
KINDS = ["dir", ".zip", ".tar", ".tar.gz", ".tar.bz2", ".tar.xz"]
PATHS = [None, False, "a_{a}", "x/{{auto}}", "{{auto:_}}", "val/{a}/id/{job.id}", lambda job: "fn_" + job.id[:8], lambda job: "same"]


def tree(p):
    out = {}
    for job in p:
        files = {}
        for dp, dn, fn in os.walk(job.path):
            for f in fn:
                rel = os.path.relpath(os.path.join(dp, f), job.path)
                files[rel] = open(os.path.join(dp, f), "rb").read()
        out[job.id] = files
    return out


def stray(p):
    """entries of the workspace that are not job directories of the project: 'import never writes outside the importing project's job directories'"""
    ids = {j.id for j in p}
    return sorted(x for x in os.listdir(p.workspace) if x not in ids)


def collides(sps, path):
    """(repaired defects F17 / F18) the automatic path function gives textually equal or leaf/node-conflicting paths"""
    if path is None or (isinstance(path, str) and "auto" in path):
        seen = {}
        for sp in sps:
            for k, v in sp.items():
                seen.setdefault(k, set()).add(str(v))
        flat = [json.dumps({k: str(v) for k, v in sp.items()}, sort_keys=True) for sp in sps]
        if len(set(flat)) != len(flat):
            return True
        keysets = {frozenset(sp) for sp in sps}
        if len(keysets) > 1:
            return True
    return False


def scenario(seed):
    import signac
    rnd = random.Random(seed)
    sps = rnd.choice(UNIVERSES)
    kind = rnd.choice(KINDS)
    path = rnd.choice(PATHS)
    move = False
    sig = (UNIVERSES.index(sps), kind, PATHS.index(path))
    if collides(sps, path):
        sig = sig + ("colliding-automatic-paths",)      # must be refused before anything is copied, or round-trip exactly (F17/F18 repaired)
    with dir_scratch() as d:
        os.makedirs(d + "/src")
        os.makedirs(d + "/dst")
        src, dst = signac.init_project(d + "/src"), signac.init_project(d + "/dst")
        for sp in sps:
            j = src.open_job(sp).init()
            j.doc["v"] = sp
            open(j.fn("data.txt"), "w").write(json.dumps(sp))
            os.makedirs(j.fn("sub"), exist_ok=True)
            open(j.fn("sub/n.bin"), "wb").write(bytes([len(sp)]))
            if rnd.random() < 0.3:
                # a data directory that itself looks like a job (e.g. a copied job): belongs to the enclosing job's file tree
                os.makedirs(j.fn("sub/inner"), exist_ok=True)
                open(j.fn("sub/inner/signac_statepoint.json"), "w").write(json.dumps({"inner": len(sp)}))
        before = tree(src)
        target = d + "/export" + ("" if kind == "dir" else kind)
        try:
            src.export_to(target, path=path)
            exported = True
        except Exception as e:
            exported = False
            err = e
        if tree(src) != before:
            return "export changed the source project", sig
        if not exported:
            # allowed only if nothing was copied
            if kind == "dir" and os.path.isdir(target) and any(fn for _, _, fn in os.walk(target)):
                return f"export raised {type(err).__name__}: {err} after having copied files", sig
            return None, sig + ("refused",)
        outside = [x for x in os.listdir(d) if x not in ("src", "dst", os.path.basename(target))]
        if outside:
            return f"export wrote outside its target: {outside}", sig
        if not sps:
            return None, sig + ("nothing-to-export",)
        try:
            dst.import_from(target)
        except Exception as e:
            if callable(path) or (isinstance(path, str) and "{" in path and "job.id" not in path and "auto" not in path and not all("a" in sp for sp in sps)):
                return None, sig + ("import-needs-schema",)
            return f"import of the export raised {type(e).__name__}: {e}", sig
        got = tree(dst)
        if stray(dst):
            return f"the import wrote outside the job directories of the importing project: workspace entries {stray(dst)}", sig
        if set(got) != set(before):
            return f"ids after round trip {sorted(got)} != {sorted(before)}", sig
        for jid in before:
            if got[jid] != before[jid]:
                diff = sorted(k for k in set(got[jid]) | set(before[jid]) if got[jid].get(k) != before[jid].get(k))
                return f"job {jid[:6]}: files differ after round trip: {diff}", sig
        # import never overwrites an existing job
        try:
            dst.import_from(target)
            if sps:
                return "importing into a project that already holds the jobs did not raise", sig
        except Exception:
            pass
        if tree(dst) != got:
            return "a refused import modified existing jobs", sig
        return None, sig


def path_checks():
    """_check_directory_structure_validity must reject leaf/node conflicts in ANY order; zip member selection by directory, not string prefix"""
    from signac.import_export import _check_directory_structure_validity
    import itertools
    out = []
    comps = ["a", "a.b", "a-b", "ab", "b"]
    pool = comps + [c + "/" + d for c in comps for d in ("z", "a")] + ["a/z/q"]
    sets = [list(t) for n in (2, 3) for t in itertools.permutations(pool, n)]
    import random
    random.Random(7).shuffle(sets)
    for paths in [["a/b", "a"], ["a", "a/b"], ["x/y/z", "x/y"], ["x/y", "x/y/z"], ["a", "b"], ["a/b", "a/c"], ["ab", "a"], ["v_x", "v_x.y", "v_x/z"]] + sets[:1500]:
        want = any(p != q and q.startswith(p + "/") for p in paths for q in paths)
        try:
            _check_directory_structure_validity(paths)
            got = False
        except RuntimeError:
            got = True
        if got != want and len(out) < 2:
            out.append(("leafnode:" + ",".join(paths), f"_check_directory_structure_validity({paths}) {'raised' if got else 'accepted'}, expected {'rejection' if want else 'acceptance'}"))
    return out


def schema_string_check():
    """'a schema string parses back the path layout it describes (word-like strings, integers, plain decimals, booleans)': export with a
    format string naming every key, import with the matching typed schema string; directory and zip; also one key per type alone"""
    import signac
    out = []
    sps = [{"i": i, "f": f, "s": st, "b": b} for (i, f, st, b) in ((1, 0.5, "ab", True), (10, 2.0, "c_d", False), (100, 2.5, "ab", False), (1, 2.0, "x1", False), (7, 10.25, "c_d", True))]
    layouts = [("i/{i}/f/{f}/s/{s}/b/{b}", "i/{i:int}/f/{f:float}/s/{s}/b/{b:bool}", sps),
               ("b_{b}/n_{i}", "b_{b:bool}/n_{i:int}", [{"b": b, "i": i} for b in (True, False) for i in (0, 3)]),
               ("flag/{b}", "flag/{b:bool}", [{"b": True}, {"b": False}]),
               ("a.b/{a.b}/a.c/{a.c}", "a.b/{a.b:int}/a.c/{a.c:int}", [{"a": {"b": 1, "c": 2}}, {"a": {"b": 1, "c": 3}}, {"a": {"b": 2, "c": 2}}]),
               ("n.x.y/{n.x.y}/n.x.z/{n.x.z}/n.w/{n.w}", "n.x.y/{n.x.y:int}/n.x.z/{n.x.z}/n.w/{n.w:float}", [{"n": {"x": {"y": 1, "z": "u"}, "w": 0.5}}, {"n": {"x": {"y": 2, "z": "u"}, "w": 0.5}}]),
               ("x/{f}", "x/{f:float}", [{"f": 0.5}, {"f": 12.0}, {"f": 3.25}]),
               ("k/{s}/v/{i}", "k/{s:str}/v/{i:int}", [{"s": "ab", "i": 1}, {"s": "ab", "i": 10}, {"s": "a_b", "i": 1}])]
    for n_layout, (path, schema, universe) in enumerate(layouts):
        for kind in ("dir", ".zip") + (("dir-relative",) if n_layout in (0, 3) else ()):
            with dir_scratch() as d:
                os.makedirs(d + "/src")
                os.makedirs(d + "/dst")
                src, dst = signac.init_project(d + "/src"), signac.init_project(d + "/dst")
                for sp in universe:
                    j = src.open_job(sp).init()
                    j.doc["v"] = sp
                    open(j.fn("data.txt"), "w").write(json.dumps(sp))
                before = tree(src)
                target = d + "/export" + ("" if kind.startswith("dir") else kind)
                cwd = os.getcwd()
                try:
                    src.export_to(target, path=path)
                    if kind == "dir-relative":
                        # the origin spelled relative to the working directory: the same directory, the same result
                        os.chdir(d)
                        dst.import_from("export", schema=schema)
                    else:
                        dst.import_from(target, schema=schema)
                except Exception as e:
                    os.chdir(cwd)
                    out.append((f"{schema}:{kind}", f"export with path {path!r} then import with the schema {schema!r} ({kind}) raised {type(e).__name__}: {str(e)[:200]}"))
                    continue
                finally:
                    os.chdir(cwd)
                got = tree(dst)
                if got != before or stray(dst):
                    sp_got = sorted(json.dumps(j.statepoint(), sort_keys=True) for j in dst)
                    out.append((f"{schema}:{kind}", f"export with path {path!r} then import with the schema {schema!r} ({kind}): state points after the round trip {sp_got[:4]}, "
                                                      f"exported {sorted(json.dumps(sp, sort_keys=True) for sp in universe)[:4]}"))
    return out


def auto_path_collision_probe():
    """(repaired defect F18) with path=None nobody checked that the schema-based paths are unique (1 vs '1' both give a/1)"""
    import signac
    import warnings
    warnings.simplefilter("ignore")
    with dir_scratch() as d:
        os.makedirs(d + "/src")
        src = signac.init_project(d + "/src")
        for v in (1, "1"):
            src.open_job({"a": v}).init()
        try:
            src.export_to(d + "/e.zip")
        except RuntimeError:
            return None            # refused before copying: the property holds
        except Exception as e:
            return f"export of state points a=1 / a='1' with the automatic path raised {type(e).__name__} instead of refusing up front"
        with zipfile.ZipFile(d + "/e.zip") as z:
            n = len([x for x in z.namelist() if x.endswith("signac_statepoint.json")])
        return f"export of a=1 and a='1' with the automatic path silently merged both jobs into one archive directory ({n} state point member(s))"


def zip_prefix_check():
    import signac
    with dir_scratch() as d:
        os.makedirs(d + "/src")
        os.makedirs(d + "/dst")
        src, dst = signac.init_project(d + "/src"), signac.init_project(d + "/dst")
        for v in (1, 10, 100):
            j = src.open_job({"a": v}).init()
            open(j.fn("data.txt"), "w").write(str(v))
        src.export_to(d + "/e.zip", path="a/{a}")
        try:
            dst.import_from(d + "/e.zip")
        except Exception as e:
            return f"zip import raised {type(e).__name__}: {e}"
        if sorted(j.id for j in dst) != sorted(j.id for j in src):
            return f"zip round trip with paths a/1, a/10, a/100: got {len(list(dst))} jobs"
        if stray(dst):
            return f"zip import of a/1, a/10, a/100 wrote outside the job directories: workspace entries {stray(dst)}"
        for j in dst:
            if sorted(os.listdir(j.path)) != sorted(os.listdir(src.open_job(id=j.id).path)):
                return f"zip import of a/1, a/10, a/100 mixed files between jobs: {sorted(os.listdir(j.path))}"
    return None


def run(tier="quick", seed=0):
    b = Budget(16 if tier == "quick" else 400)
    evals, distinct, failures, samples = 0, set(), [], []
    n = 60 if tier == "quick" else 5000
    for k in range(n):
        if not b.left() or failures:
            break
        s = 160000 + seed * 100000 + k
        try:
            bad, sig = scenario(s)
        except Exception:
            import traceback
            bad, sig = "scenario crashed: " + traceback.format_exc()[-600:], ("crash",)
        evals += 1
        distinct.add(sig)
        if len(samples) < 3:
            samples.append([str(x) for x in sig])
        if bad:
            failures.append({"key": "roundtrip:" + str(sig)[:60], "description": bad,
                             "script": script_header() + f"sys.path.insert(0, '/verif')\nfrom pybound.c16 import scenario\nbad, sig = scenario({s})\nassert not bad, bad\n"})
    def guarded(fn, key, empty):
        # a probe that raises on this tree has found something: it is a failure of the probe's key, not a crash of the checker
        try:
            return fn()
        except Exception as e:
            import traceback
            failures.append({"key": key + ":raised", "description": f"{fn.__name__} raised {type(e).__name__}: {e} :: {traceback.format_exc()[-400:]}", "script": ""})
            return empty
    for key, desc in guarded(path_checks, "leafnode", []):
        evals += 1
        failures.append({"key": key, "description": desc, "script": ""})
    kf = guarded(auto_path_collision_probe, "export:auto-path-collision", None)
    evals += 1
    if kf:
        failures.append({"key": "export:auto-path-collision", "description": kf, "script": ""})
    z = guarded(zip_prefix_check, "zip:string-prefix", None)
    evals += 1
    if z:
        failures.append({"key": "zip:string-prefix", "description": z, "script": ""})
    for key, msg in guarded(schema_string_check, "schema-string", [])[:3]:
        failures.append({"key": "schema-string:" + key, "description": msg,
                         "script": script_header() + "sys.path.insert(0, '/verif')\nfrom pybound.c16 import schema_string_check\nr = schema_string_check()\nassert not r, r\n"})
    evals += 10
    return {"scope": "11 state point universes chosen to collide textually (1/10/100, 1/1.0/'1', True/'True', prefix keys, nested, heterogeneous) x 6 target kinds x 8 path specs "
                     "(None, False, format strings incl. {{auto}}, callables); colliding automatic paths must be refused up front or round-trip exactly; plus leaf/node order checks, the zip string-prefix probe and typed schema strings (int, float, str, bool incl. False) parsing back the layout of a format-string export (directory and zip)",
            "evaluations": evals, "distinct_nontrivial": len(distinct), "rule": "a case is one export+import round trip; distinct by (universe, target kind, path spec, outcome class)",
            "samples": samples, "failures": failures}
