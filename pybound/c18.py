"""Bounded stand-in for C18 (never counted as proved): detect_schema() and diff_jobs() against reference summaries computed
directly from the state points, over enumerated heterogeneous corpora."""
import json
import random

from .common import Budget, project_scratch, script_header

VALS = [None, None, 0, 1, 2, 1.0, 2.5, "a", "b", None, [1, 2], [1, 2.0], True, False, {"n": 1}, {"n": 2, "m": "x"}, {"n": {"z": 1}}, 0.0, 0, 0.0, -1, -1.0, [0, 1], [0.0, 1],
        {"n": {"p": 1, "q": 2}}, {"n": {"p": 1, "q": 3, "r": {"s": 0, "t": 1}}}, {"n": {"p": 2, "q": 2, "r": {"s": 0, "t": 2}}}]      # several leaves under one mapping, two and three levels down
KEYS = ["a", "b", "c", "seed", "p", "ps", "speed"]       # incl. names made of the letters of the "sp." prefix


def flat(d, pre=()):
    """leaves of a nested mapping: {(dotted key): value}, lists as tuples, empty mappings are leaves"""
    out = {}
    for k, v in d.items():
        if isinstance(v, dict) and v:
            out.update(flat(v, pre + (k,)))
        else:
            out[".".join(pre + (k,))] = tuple_of(v)
    return out


def tuple_of(v):
    return tuple(tuple_of(x) for x in v) if isinstance(v, list) else v


def typed(v):
    return (type(v).__name__, v if not isinstance(v, dict) else "{}")


def ref_schema(sps, exclude_const):
    """{dotted key: {type name: set(values)}} for exactly the keys present; with exclude_const drop keys on which ALL jobs carry the same (type-exact) value"""
    keys = {}
    for sp in sps:
        for k, v in flat(sp).items():
            if isinstance(v, dict):
                continue  # an empty mapping is a placeholder, not a value
            keys.setdefault(k, []).append(v)
    out = {}
    for k, vals in keys.items():
        if exclude_const and len(vals) == len(sps) and len({typed(v) for v in vals}) == 1:
            continue
        by = {}
        for v in vals:
            by.setdefault(type(v).__name__, set()).add(v)
        out[k] = by
    return out


def f3_trigger(sps):
    """known finding F3: a bool and an equal int/float under one key are conflated by the index"""
    keys = {}
    for sp in sps:
        for k, v in flat(sp).items():
            keys.setdefault(k, []).append(v)
    for vals in keys.values():
        nums = [v for v in vals if isinstance(v, (bool, int, float))]
        for a in nums:
            for b in nums:
                if a == b and isinstance(a, bool) != isinstance(b, bool):
                    return True
    return False


def gen_sps(rnd):
    n = rnd.randint(0, 8)
    sps = []
    for _ in range(n):
        sp = {k: json.loads(json.dumps(rnd.choice(VALS))) for k in KEYS if rnd.random() < 0.75}
        sps.append(sp)
    return sps


def mappings_in_lists_check():
    """values compared 'as Python compares them': mappings inside lists are equal whatever their key insertion order (same session, so
    that the order in which the caller spelled them survives); the jobs agree on `a` and differ in `b`"""
    import signac
    from signac.diff import diff_jobs
    out = []
    variants = [([{"x": 1, "y": 2}], [{"y": 2, "x": 1}]), ([1, {"p": {"u": 1, "v": 2}, "q": 0}], [1, {"q": 0, "p": {"v": 2, "u": 1}}])]
    for va, vb in variants:
        with project_scratch() as p:
            j1 = p.open_job({"a": va, "b": 1}).init()
            j2 = p.open_job({"a": vb, "b": 2}).init()
            try:
                sch = p.detect_schema(exclude_const=False)
                na = sum(len(vs) for vs in sch["a"].values())
                if na != 1:
                    out.append(("schema", f"state points a={va} / a={vb} (equal values): detect_schema reports {na} values for key a"))
                sch2 = p.detect_schema(exclude_const=True)
                if "a" in sch2 or "b" not in sch2:
                    out.append(("schema-exclude-const", f"state points a={va} / a={vb} (equal) and b=1 / b=2: detect_schema(exclude_const=True) reports the keys {sorted(sch2)}"))
                d = diff_jobs(j1, j2)
                got = {i: sorted(json.loads(json.dumps(v))) for i, v in d.items()}
                if got != {j1.id: ["b"], j2.id: ["b"]}:
                    out.append(("diff", f"state points a={va} / a={vb} (equal) and b=1 / b=2: diff_jobs lists the keys {got}"))
            except Exception as e:
                out.append(("raised", f"schema / diff over state points with mappings inside lists raised {type(e).__name__}: {e}"))
    return out


def empty_mapping_check():
    """an empty mapping is a state point value like any other (a leaf: there is no dotted key below it): the schema reports no value for
    it (mappings are not values), the diff of jobs holding one is computed and reconstructs the state points (finding F31)"""
    import signac
    from signac.diff import diff_jobs
    from signac._utility import _nested_dicts_to_dotted_keys
    out = []
    sps = [{"a": 1, "b": {}}, {"a": 2, "b": {}}, {"a": 1, "b": {"c": 1}}, {"a": 1, "e": [1, {}]}]
    with project_scratch() as p:
        jobs = [p.open_job(sp).init() for sp in sps]
        try:
            sch = p.detect_schema(exclude_const=False)
            got = {k: {t.__name__: sorted(map(repr, vs)) for t, vs in sch[k].items()} for k in sch}
            # the key b is present (two jobs hold an empty mapping under it) and has no value: mappings are not values
            want = {"a": {"int": ["1", "2"]}, "b": {}, "b.c": {"int": ["1"]}, "e": {"tuple": [repr((1, {}))]}}
            if {k: v for k, v in got.items() if k != "e"} != {k: v for k, v in want.items() if k != "e"} or set(got) - set(want):
                out.append(("schema", f"state points {sps}: detect_schema reports {got}"))
        except Exception as e:
            out.append(("schema-raised", f"detect_schema over state points with an empty mapping raised {type(e).__name__}: {e}"))
        try:
            d = diff_jobs(*jobs)
            flat = lambda sp: {k: v for k, v in _nested_dicts_to_dotted_keys(sp)}
            common = None
            for sp in sps:
                f = flat(sp)
                common = dict(f) if common is None else {k: v for k, v in common.items() if k in f and f[k] == v}
            for j, sp in zip(jobs, sps):
                merged = dict(common)
                merged.update(flat(d[j.id]))
                if merged != flat(sp):
                    out.append(("diff", f"state points {sps}: diff of {sp} is {d[j.id]}, which does not reconstruct it"))
        except Exception as e:
            out.append(("diff-raised", f"diff_jobs over state points with an empty mapping raised {type(e).__name__}: {e}"))
    return out


def run(tier="quick", seed=0):
    import signac
    from signac.diff import diff_jobs
    rnd = random.Random(1800 + seed)
    b = Budget(10 if tier == "quick" else 200)
    evals, distinct, failures, samples = 0, set(), [], []
    n = 0
    while b.left() and n < (700 if tier == "quick" else 20000) and not failures:
        n += 1
        sps = gen_sps(rnd)
        with project_scratch() as p:
            jobs = {}
            for sp in sps:
                j = p.open_job(sp).init()
                jobs[j.id] = (j, sp)
            uniq = [sp for _, sp in jobs.values()]
            # ---- detect_schema
            if not f3_trigger(uniq):
                for exclude_const in (False, True):
                    subset = None
                    if jobs and rnd.random() < 0.5:
                        subset = rnd.sample(sorted(jobs), rnd.randint(0, len(jobs)))     # incl. the empty selection
                    sel = [jobs[i][1] for i in (sorted(jobs) if subset is None else subset)]
                    want = ref_schema(sel, exclude_const)
                    try:
                        sch = p.detect_schema(exclude_const=exclude_const, subset=subset)
                        got = {k: {t.__name__: set(vs) for t, vs in sch[k].items() if vs} for k in sch}
                        got = {k: {("tuple" if t == "tuple" else t): vs for t, vs in by.items()} for k, by in got.items() if by}
                    except Exception as e:
                        got = f"raised {type(e).__name__}: {e}"
                    evals += 1
                    distinct.add(("schema", len(sel), exclude_const, len(want)))
                    if got != want and len(failures) < 2:
                        failures.append({"key": f"schema:exclude_const={exclude_const}", "description": f"detect_schema(exclude_const={exclude_const}, subset={subset}) on state points {sel}: got {got}, expected {want}",
                                         "script": script_header() + f"""
import signac, tempfile, json
sys.path.insert(0, '/verif')
from pybound.c18 import ref_schema
sps = json.loads({json.dumps(json.dumps(sel))})
with tempfile.TemporaryDirectory() as d:
    p = signac.init_project(d)
    for sp in sps: p.open_job(sp).init()
    sch = p.detect_schema(exclude_const={exclude_const})
    got = {{k: {{t.__name__: set(vs) for t, vs in sch[k].items() if vs}} for k in sch}}
    got = {{k: by for k, by in got.items() if by}}
    assert got == ref_schema(sps, {exclude_const}), (got, ref_schema(sps, {exclude_const}))
"""})
            # ---- diff_jobs
            if jobs:
                sel_ids = rnd.sample(sorted(jobs), rnd.randint(1, len(jobs)))
                sel_jobs = [jobs[i][0] for i in sel_ids]
                flats = {i: flat(jobs[i][1]) for i in sel_ids}
                common = None
                for f in flats.values():
                    items = set((k, repr(v) if isinstance(v, dict) else v) for k, v in f.items())
                    common = items if common is None else {x for x in common if any(x[0] == y[0] and x[1] == y[1] for y in items)}
                try:
                    got = diff_jobs(*sel_jobs)
                    ok = set(got) == set(sel_ids)
                    desc = ""
                    for i in sel_ids:
                        if not ok:
                            break
                        gflat = flat(json.loads(json.dumps(got[i])))
                        want = {k: v for k, v in flats[i].items() if not any(k == ck and (repr(v) if isinstance(v, dict) else v) == cv for ck, cv in common)}
                        if {k: tuple_of(v) for k, v in gflat.items()} != want:
                            ok, desc = False, f"diff of {i[:6]}: got {gflat}, expected {want}"
                        # reconstruction: common part merged with the diff gives the job's flattened state point
                        merged = dict((k, v) for k, v in flats[i].items() if (k, repr(v) if isinstance(v, dict) else v) in common)
                        merged.update({k: tuple_of(v) for k, v in gflat.items()})
                        if merged != flats[i]:
                            ok, desc = False, f"common + diff does not reconstruct {jobs[i][1]}: {merged}"
                except Exception as e:
                    ok, desc = False, f"raised {type(e).__name__}: {e}"
                evals += 1
                distinct.add(("diff", len(sel_ids), len(common or ())))
                if not ok and len(failures) < 2:
                    sel_sps = [jobs[i][1] for i in sel_ids]
                    failures.append({"key": "diff", "description": f"diff_jobs on {sel_sps}: {desc}",
                                     "script": script_header() + f"""
import signac, tempfile, json
from signac.diff import diff_jobs
sys.path.insert(0, '/verif')
from pybound.c18 import flat, tuple_of
sps = json.loads({json.dumps(json.dumps(sel_sps))})
with tempfile.TemporaryDirectory() as d:
    p = signac.init_project(d)
    js = [p.open_job(sp).init() for sp in sps]
    got = diff_jobs(*js)
    fl = [flat(sp) for sp in sps]
    common = set.intersection(*[set((k, repr(v)) for k, v in f.items()) for f in fl])
    for j, sp, f in zip(js, sps, fl):
        want = {{k: v for k, v in f.items() if (k, repr(v)) not in common}}
        g = {{k: tuple_of(v) for k, v in flat(json.loads(json.dumps(got[j.id]))).items()}}
        assert g == want, (sp, g, want)
"""})
                if len(samples) < 2:
                    samples.append({"statepoints": [jobs[i][1] for i in sel_ids]})
    if diff_jobs() != {}:
        failures.append({"key": "diff-empty", "description": "diff_jobs() of no jobs is not {}", "script": "from signac.diff import diff_jobs\nassert diff_jobs() == {}\n"})
    for key, msg in mappings_in_lists_check():
        failures.append({"key": "mapping-inside-list:" + key, "description": msg,
                         "script": script_header() + "sys.path.insert(0, '/verif')\nfrom pybound.c18 import mappings_in_lists_check\nr = mappings_in_lists_check()\nassert not r, r\n"})
    for key, msg in empty_mapping_check():
        failures.append({"key": "empty-mapping:" + key, "description": msg,
                         "script": script_header() + "sys.path.insert(0, '/verif')\nfrom pybound.c18 import empty_mapping_check\nr = empty_mapping_check()\nassert not r, r\n"})
    evals += 8
    # probe of known finding F3 on the schema side
    with project_scratch() as p:
        p.open_job({"v": True}).init()
        p.open_job({"v": 1}).init()
        sch = p.detect_schema()
        got = {t.__name__: set(vs) for t, vs in sch["v"].items()} if "v" in sch else {}
        if got != {"bool": {True}, "int": {1}}:
            failures.append({"key": "find:$type-bool-conflation", "description": "known finding F3 (schema side)", "script": ""})
    return {"scope": "corpora of 0-8 jobs over 7 keys x 22 values (int / equal float incl. 0 / 0.0 and -1 / -1.0 / bool, lists, None, nested and empty mappings, scalar-vs-mapping under one key), "
                     "random subsets, exclude_const on/off; corpora triggering known finding F3 are excluded from the schema comparison; plus lists holding mappings (holding mappings) "
                     "spelled in two key orders: one value, constant under exclude_const, absent from the diff",
            "evaluations": evals, "distinct_nontrivial": len(distinct), "rule": "a case is one detect_schema or diff_jobs call; distinct by (kind, #jobs, options, size of the summary)",
            "samples": samples, "failures": failures}
