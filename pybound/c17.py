"""Bounded stand-in for C17 (never counted as proved): create_linked_view gives exactly one link per selected job resolving to the
job directory; re-running after workspace changes equals a from-scratch build; twice is a no-op; unrepresentable input is rejected."""
import json
import os
import random
import warnings

from .common import Budget, dir_scratch, script_header

UNIVERSES = [
    [{"a": v} for v in (1, 2, 3)],
    [{"a": v, "b": w} for v in (1, 2) for w in ("x", "y z")],
    [{"a": {"n": v}, "c": 1} for v in (1, 2)],
    [{"a": 1}, {"a": 2, "b": 3}, {"a": 3, "b": 4}],
    [{"a": "é"}, {"a": "u.v"}],
    [{"a": 1}],
]


def view_tree(root):
    out = {}
    for dp, dn, fn in os.walk(root):
        for n in list(dn) + fn:
            p = os.path.join(dp, n)
            rel = os.path.relpath(p, root)
            if os.path.islink(p):
                out[rel] = ("link", os.path.realpath(p))
            elif os.path.isdir(p):
                out[rel] = ("dir",)
            else:
                out[rel] = ("file",)
    return out


def key_names_check():
    """'an exact picture': each link sits under the path spelled from the job's own varying state point keys and values --
    <dotted key>/<value>/.../job -- whatever the keys are called (also nested keys under a parent whose name ends in 'sp')"""
    import signac
    from signac._utility import _nested_dicts_to_dotted_keys
    out = []
    universes = [[{"disp": {"x": v}, "wasp": {"n": w}} for v in (1, 2) for w in (3, 4)],
                 [{"wasp": {"n": v}, "wan": w} for v in (1, 2) for w in (5, 6)],
                 [{"sp": {"sp": {"a": v}}, "asp": v + 1} for v in (1, 2)]]
    for sps in universes:
        with dir_scratch() as d:
            os.makedirs(d + "/p")
            p = signac.init_project(d + "/p")
            jobs = [p.open_job(sp).init() for sp in sps]
            try:
                p.create_linked_view(prefix=d + "/view")
            except Exception as e:
                out.append(f"create_linked_view over the state points {sps} raised {type(e).__name__}: {str(e)[:150]}")
                continue
            t = view_tree(d + "/view")
            for j in jobs:
                flat = {k: str(v) for k, v in _nested_dicts_to_dotted_keys(j.statepoint())}
                mine = [k for k, v in t.items() if v[0] == "link" and v[1] == os.path.realpath(j.path)]
                if len(mine) != 1:
                    out.append(f"state points {sps}: {len(mine)} links for the job {j.statepoint()}")
                    continue
                comps = mine[0].split(os.sep)[:-1]
                got = dict(zip(comps[0::2], comps[1::2]))
                if len(comps) % 2 or any(flat.get(k) != v for k, v in got.items()):
                    out.append(f"state points {sps}: the job {j.statepoint()} is linked at {mine[0]!r}, which does not spell its own keys and values {flat}")
    return out


def check_view(project, view, selected):
    t = view_tree(view)
    links = {k: v for k, v in t.items() if v[0] == "link"}
    targets = sorted(v[1] for v in links.values())
    want = sorted(os.path.realpath(j.path) for j in selected)
    if targets != want:
        return f"links resolve to {len(targets)} targets, expected one per selected job ({len(want)}): extra/missing {sorted(set(targets) ^ set(want))[:3]}"
    for k, v in t.items():
        if v[0] == "file":
            return f"unexpected plain file {k} in the view"
        if v[0] == "dir" and not any(l.startswith(k + os.sep) for l in links):
            return f"empty / dead directory {k} left in the view"
    for k in links:
        if os.path.basename(k) != "job":
            return f"link {k} is not named 'job'"
    return None


def scenario(seed):
    import signac
    rnd = random.Random(seed)
    sps = list(rnd.choice(UNIVERSES))
    sig = [UNIVERSES.index(sps) if sps in UNIVERSES else -1]
    with dir_scratch() as d:
        os.makedirs(d + "/p")
        p = signac.init_project(d + "/p")
        jobs = [p.open_job(sp).init() for sp in sps]
        view = d + "/view"
        hist = []
        for step in range(rnd.randint(2, 5)):
            op = rnd.choice(["view", "view", "add", "remove", "rekey", "subset"])
            hist.append(op)
            if op == "add":
                sp = dict(rnd.choice(sps))
                sp["a"] = rnd.choice([7, 8, 9]) if not isinstance(sp.get("a"), dict) else {"n": rnd.choice([7, 8])}
                p.open_job(sp).init()
            elif op == "remove" and len(list(p)) > 1:
                rnd.choice(list(p)).remove()
            elif op == "rekey" and list(p):
                j = rnd.choice(list(p))
                try:
                    j.sp["c"] = rnd.choice([5, 6])
                except Exception:
                    pass
            else:
                cur = list(p)
                keysets = {frozenset(j.statepoint()) for j in cur}
                flat = {json.dumps({k: str(v) for k, v in j.statepoint().items()}, sort_keys=True) for j in cur}
                colliding = len(keysets) > 1 or len(flat) != len(cur)      # heterogeneous / textually colliding schema with the automatic path
                sel = cur
                kw = {}
                if op == "subset" and len(cur) > 2:
                    sel = rnd.sample(cur, 2)
                    kw["job_ids"] = [j.id for j in sel]
                    ks = {frozenset(j.statepoint()) for j in sel}
                try:
                    p.create_linked_view(prefix=view, **kw)
                except RuntimeError as e:
                    if colliding:
                        continue            # refused (repaired defect F18): paths that print alike are not linked over each other
                    return f"create_linked_view raised {type(e).__name__}: {e} after {hist}", tuple(sig + hist)
                except Exception as e:
                    return f"create_linked_view raised {type(e).__name__}: {e} after {hist}", tuple(sig + hist)
                if len(sel) == 0:
                    continue
                bad = check_view(p, view, sel)
                if bad:
                    return bad + f" after {hist}", tuple(sig + hist)
                # from scratch
                scratch = d + f"/scratch{step}"
                p.create_linked_view(prefix=scratch, **kw)
                a, b = view_tree(view), view_tree(scratch)
                if a != b:
                    return f"incremental view differs from a from-scratch build after {hist}: only incremental {sorted(set(a) - set(b))[:3]}, only scratch {sorted(set(b) - set(a))[:3]}", tuple(sig + hist)
                before = view_tree(view)
                p.create_linked_view(prefix=view, **kw)
                if view_tree(view) != before:
                    return f"running create_linked_view twice changed the view after {hist}", tuple(sig + hist)
        return None, tuple(sig + hist)


SPELL_UNIVERSES = [
    [{"a": v, "b": w} for v in (1, 2) for w in ("x", "y")],
    [{"a": v, "k": 0} for v in (1, 2, 3)],
    [{"d": {"c": v}, "c": w} for v in (1, 2) for w in (5, 6)],           # a nested leaf named like a top-level key
    [{"d": {"c": v}, "c": 5, "e": w} for v in (1, 2) for w in (True, False)],
    [{"x": {"y": {"z": v}}, "z": w, "y": 1} for v in (1, 2) for w in ("p", "q")],
    [{"a": 1.5, "b": v} for v in (1, 2)],
    [{"d": {"c": v}, "c": w, "e": 10 * v + w} for v in (1, 2) for w in (5, 6)],   # a key that is distinguishing but not needed to tell the jobs apart
]


SPELL_STATS = {"views_checked": 0, "rejected": 0}


def _flatten(d, prefix=None):
    for k, v in d.items():
        k_ = k if prefix is None else prefix + "." + k
        if isinstance(v, dict) and v:
            yield from _flatten(v, k_)
        else:
            yield k_, v


def spelling(useed):
    """'at a path spelling the job's distinguishing state point keys and values': for every universe, the automatic path and every custom
    spec '<key>/{<key>}/{{auto}}' naming one (possibly nested) key; grown once (a second view after adding jobs).  Order-insensitive:
    the path of a job, cut into (key, value) pairs, must be exactly the job's non-constant keys with its own values."""
    import signac
    sps = SPELL_UNIVERSES[useed % len(SPELL_UNIVERSES)]
    keys = sorted({k for sp in sps for k, _ in _flatten(sp)})
    specs = [None] + [k for k in keys]
    stats = SPELL_STATS
    for named in specs:
        with dir_scratch() as d:
            os.makedirs(d + "/p")
            p = signac.init_project(d + "/p")
            view = d + "/view"
            half = max(1, len(sps) // 2)
            for stage, upto in (("first", half), ("grown", len(sps))):
                for sp in sps[:upto]:
                    p.open_job(sp).init()
                cur = list(p)
                flat = {j.id: dict(_flatten(j.statepoint())) for j in cur}
                allk = sorted({k for f in flat.values() for k in f})
                dist = [k for k in allk if not (all(k in f for f in flat.values()) and len({json.dumps(f[k]) for f in flat.values()}) == 1)]
                kw = {} if named is None else {"path": "%s/{%s}/{{auto}}" % (named, named)}
                where = f"universe {useed % len(SPELL_UNIVERSES)}, path spec {kw.get('path')!r}, {stage} view of {len(cur)} jobs"
                before = view_tree(view) if os.path.isdir(view) else {}
                try:
                    p.create_linked_view(prefix=view, **kw)
                except RuntimeError:
                    # rejected (e.g. '{auto}' with no key left to spell is refused by signac): allowed, but an existing view must be left alone
                    after = view_tree(view) if os.path.isdir(view) else {}
                    if after != before:
                        return f"{where}: the call was rejected but the existing view was altered"
                    stats["rejected"] += 1
                    continue
                except Exception as e:
                    return f"{where}: create_linked_view raised {type(e).__name__}: {e}"
                stats["views_checked"] += 1
                t = view_tree(view)
                by_target = {v[1]: k for k, v in t.items() if v[0] == "link"}
                for j in cur:
                    rel = by_target.get(os.path.realpath(j.path))
                    if rel is None:
                        return f"{where}: no link for job {j.statepoint()}"
                    toks = rel.split(os.sep)[:-1]
                    f = flat[j.id]
                    if named is not None:
                        if toks[:2] != [named, str(f[named])]:
                            return f"{where}: link {rel} does not start with the named key and its value"
                        toks = toks[2:]
                    want = {(k, str(f[k])) for k in dist if k in f and k != named} if len(cur) > 1 else set()
                    got = set(zip(toks[0::2], toks[1::2]))
                    if len(toks) % 2 or got != want or len(toks) != 2 * len(want):
                        return f"{where}: job {j.statepoint()} is linked at {rel}; its distinguishing keys and values are {sorted(want)}"
    return None


def probes():
    import signac
    out = []
    with dir_scratch() as d:
        os.makedirs(d + "/p")
        p = signac.init_project(d + "/p")
        j = p.open_job({"a": {"n": "x/y"}}).init()
        p.open_job({"a": {"n": "z"}}).init()
        view = d + "/view"
        try:
            p.create_linked_view(prefix=view)
            out.append(("view:nested-separator-not-rejected", "a nested state point value containing the path separator is not rejected by create_linked_view (repaired defect F20)"))
        except RuntimeError:
            pass
        except Exception:
            out.append(("view:nested-separator-not-rejected", "a nested state point value containing the path separator is not rejected by create_linked_view (repaired defect F20)"))
    with dir_scratch() as d:
        os.makedirs(d + "/p")
        p = signac.init_project(d + "/p")
        p.open_job({"a": 1}).init()
        view = d + "/view"
        try:
            p.create_linked_view(prefix=view, job_ids=[])
            if any(os.path.islink(os.path.join(dp, n)) for dp, dn, fn in os.walk(view) for n in dn + fn):
                out.append(("view:empty-selection-links-a-job", "create_linked_view(job_ids=[]) links an unselected job (repaired defect F21)"))
        except Exception:
            pass
    return out


def run(tier="quick", seed=0):
    warnings.simplefilter("ignore")
    b = Budget(14 if tier == "quick" else 300)
    evals, distinct, failures, samples = 0, set(), [], []
    n = 60 if tier == "quick" else 4000
    for k in range(n):
        if not b.left() or failures:
            break
        s = 170000 + seed * 100000 + k
        try:
            bad, sig = scenario(s)
        except Exception:
            import traceback
            bad, sig = "scenario crashed: " + traceback.format_exc()[-600:], ("crash",)
        evals += 1
        distinct.add(sig)
        if len(samples) < 3:
            samples.append([str(x) for x in sig])
        if bad:
            failures.append({"key": "view:" + str(sig)[:60], "description": bad,
                             "script": script_header() + f"sys.path.insert(0, '/verif')\nfrom pybound.c17 import scenario\nbad, sig = scenario({s})\nassert not bad, bad\n"})
    for u in range(len(SPELL_UNIVERSES)):
        if failures:
            break
        try:
            bad = spelling(u)
        except Exception:
            import traceback
            bad = "spelling scenario crashed: " + traceback.format_exc()[-600:]
        evals += 1
        distinct.add(("spelling", u))
        if bad:
            failures.append({"key": f"view:spelling:{u}", "description": bad,
                             "script": script_header() + f"sys.path.insert(0, '/verif')\nfrom pybound.c17 import spelling\nbad = spelling({u})\nassert not bad, bad\n"})
    for key, desc in probes():
        failures.append({"key": key, "description": desc, "script": ""})
    try:
        kn = key_names_check()
    except Exception:
        import traceback
        kn = ["key-name probe crashed: " + traceback.format_exc()[-400:]]
    evals += 3
    for desc in kn[:2]:
        failures.append({"key": "view:key-names", "description": desc,
                         "script": script_header() + "sys.path.insert(0, '/verif')\nfrom pybound.c17 import key_names_check\nr = key_names_check()\nassert not r, r\n"})
    # the leaf/node check shared with export (a job's link must not sit inside another job's link path)
    try:
        from .c16 import path_checks
        for key, desc in path_checks():
            failures.append({"key": key, "description": desc, "script": ""})
        evals += 1
    except Exception as e:
        failures.append({"key": "leafnode:raised", "description": f"the leaf/node check raised {type(e).__name__}: {e}", "script": ""})
    return {"scope": "6 state point universes (homogeneous, nested, heterogeneous, unicode / dots / spaces, single job) x histories of 2-5 steps over {create view, add / remove / re-key jobs, "
                     "view of a job_ids subset}; after every view: one link per selected job resolving to its directory, no dead directories, equals a from-scratch build, second run is a no-op; "
                     "colliding automatic paths must be refused or linked exactly; probes for the repaired defects F20 / F21; "
                     "path spelling: 7 universes (incl. nested leaves named like top-level keys) x {automatic path, '<key>/{<key>}/{{auto}}' for every flattened key} x {first view, view after growth}: "
                     "each link path cut into (key, value) pairs is exactly the job's non-constant keys with its own values "
                     f"({SPELL_STATS['views_checked']} views checked, {SPELL_STATS['rejected']} specs rejected by signac with the existing view left alone)",
            "evaluations": evals, "distinct_nontrivial": len(distinct), "rule": "a case is one history; distinct by (universe, operation sequence)", "samples": samples, "failures": failures}
