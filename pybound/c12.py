"""Bounded stand-in for C12 (never counted as proved): a two-process scheduler with one preemption at file-system-call granularity.

Process P runs an actor script and is suspended right before its k-th file-system step (mkdir / makedirs, open-for-writing, each
write call, close of a written file, os.replace / rename, remove); while it is suspended process Q runs a second actor script to
completion; then P is resumed.  Every (P script, Q script, k) is one schedule; k ranges until P finishes before reaching step k.
Checked for each schedule: both processes complete without error, Q observes only complete state points / documents (the old or a
completely written new content), and afterwards the workspace passes check() and holds exactly the requested jobs with the state
points and documents a sequential execution produces.  Schedules with more than one preemption and more than two actors are outside
this scope (the rely/guarantee obligations of the deductive layer quantify over all of them)."""
import builtins
import json
import os
import random
import sys
import traceback

from .common import Budget, dir_scratch, script_header

SP0, SP1, SP2 = {"a": 0, "n": {"x": [1, 2.5, None]}}, {"a": 1}, {"a": 2, "s": "ü"}


class _Wrapped:
    def __init__(self, real, pre):
        self._real, self._pre = real, pre

    def write(self, data):
        self._pre.step("write")
        return self._real.write(data)

    def close(self):
        if not self._real.closed:
            self._pre.step("close")
        return self._real.close()

    def __enter__(self):
        return self

    def __exit__(self, *a):
        self.close()
        return False

    def __getattr__(self, name):
        return getattr(self._real, name)


class Preempt:
    """suspends this process right before its k-th file-system step under root"""

    def __init__(self, root, k, w_reached, r_resume):
        self.root, self.k, self.n, self.w, self.r = root, k, 0, w_reached, r_resume

    def step(self, kind):
        self.n += 1
        if self.n == self.k:
            os.write(self.w, b"x")
            os.read(self.r, 1)

    def mine(self, p):
        return isinstance(p, str) and p.startswith(self.root)

    def install(self):
        real_open = builtins.open
        pre = self

        def open_(file, mode="r", *a, **k):
            if pre.mine(file) and any(c in mode for c in "wax+"):
                pre.step("open")
                return _Wrapped(real_open(file, mode, *a, **k), pre)
            return real_open(file, mode, *a, **k)
        builtins.open = open_
        for name in ("replace", "rename", "mkdir", "remove", "unlink", "rmdir"):
            real = getattr(os, name)

            def f(p, *a, _real=real, _name=name, **k):
                if pre.mine(p):
                    pre.step(_name)
                return _real(p, *a, **k)
            setattr(os, name, f)


# ---- actor scripts: (name, function(project_path) -> observation)


def a_project(pp):
    import signac
    p = signac.Project(pp)
    return ("project", os.path.isdir(p.workspace))


def a_init(sp):
    def f(pp):
        import signac
        j = signac.Project(pp).open_job(sp).init()
        return ("init", j.id, json.loads(json.dumps(j.statepoint())))
    return f


def a_doc_set(sp, key, val):
    def f(pp):
        import signac
        j = signac.Project(pp).open_job(sp)
        j.doc[key] = val
        return ("doc-set", j.id)
    return f


def a_doc_read(sp):
    def f(pp):
        import signac
        j = signac.Project(pp).open_job(sp)
        return ("doc-read", json.loads(json.dumps(j.doc())))
    return f


def a_len(pp):
    import signac
    p = signac.Project(pp)
    n = len(p)
    return ("len", n, sorted(j.id for j in p))      # ids only: loading the state point of a job another process is just creating is not in the script set


ACTORS = {
    "Project()": (a_project, [], None),
    "init(sp0)": (a_init(SP0), [SP0], None),
    "init(sp1)": (a_init(SP1), [SP1], None),
    "init(sp2)": (a_init(SP2), [SP2], None),
    "doc0[k]=new": (a_doc_set(SP0, "k", {"v": list(range(40)), "t": "new"}), [SP0], (0, "k", {"v": list(range(40)), "t": "new"})),
    "doc1[m]=1": (a_doc_set(SP1, "m", 1), [SP1], (1, "m", 1)),
    "read doc0": (a_doc_read(SP0), [], None),
    "read doc1": (a_doc_read(SP1), [], None),          # job 1 exists without a document file: a first read must not race with another process's write
    "len(project)": (a_len, [], None),
}
P_SCRIPTS = ["Project()", "init(sp0)", "init(sp2)", "doc0[k]=new", "read doc1"]
Q_SCRIPTS = ["Project()", "init(sp0)", "init(sp1)", "doc1[m]=1", "read doc0", "read doc1", "len(project)"]
STARTS = ["empty", "populated"]


def prepare(d, start):
    import signac
    pp = os.path.join(d, "proj")
    os.makedirs(pp)
    p = signac.init_project(pp)
    have = []
    if start == "populated":
        for sp in (SP0, SP1):
            j = p.open_job(sp).init()
            have.append(sp)
        p.open_job(SP0).doc["k"] = "old"
        p.open_job(SP0).doc["keep"] = [1, 2]
    else:
        # the workspace directory does not exist yet: the first Project() / init creates it
        if os.path.isdir(p.workspace) and not os.listdir(p.workspace):
            os.rmdir(p.workspace)
    return pp, have


def _child(fn, pp, wfd):
    import logging
    logging.disable(logging.CRITICAL)
    try:
        obs = fn(pp)
        os.write(wfd, json.dumps({"ok": True, "obs": obs}).encode())
        code = 0
    except BaseException:
        os.write(wfd, json.dumps({"ok": False, "err": traceback.format_exc()[-700:]}).encode())
        code = 1
    os._exit(code)


def _collect(pid, rfd):
    data = b""
    while True:
        b = os.read(rfd, 65536)
        if not b:
            break
        data += b
    os.close(rfd)
    os.waitpid(pid, 0)
    try:
        return json.loads(data.decode())
    except Exception:
        return {"ok": False, "err": f"no result from the process ({data[:100]!r})"}


def schedule(start, pname, qname, k):
    """returns (failure text or None, reached: did P get to step k)"""
    import signac
    with dir_scratch() as d:
        pp, have = prepare(d, start)
        pf, pjobs, pdoc = ACTORS[pname]
        qf, qjobs, qdoc = ACTORS[qname]
        if start == "empty" and (pname.startswith(("doc", "read")) or qname.startswith(("doc0", "read"))):
            return None, False          # documents of jobs that do not exist: not a script of the scope
        if start == "empty" and qname == "doc1[m]=1":
            return None, False
        r_reached, w_reached = os.pipe()
        r_resume, w_resume = os.pipe()
        r_pres, w_pres = os.pipe()
        ppid = os.fork()
        if ppid == 0:
            os.close(r_reached), os.close(w_resume), os.close(r_pres)
            Preempt(d, k, w_reached, r_resume).install()
            _child(pf, pp, w_pres)
        os.close(w_reached), os.close(r_resume), os.close(w_pres)
        b = os.read(r_reached, 1)          # b"x": suspended before step k; b"": P finished (pipe closed at exit)
        reached = b == b"x"
        qres = None
        if reached:
            r_q, w_q = os.pipe()
            qpid = os.fork()
            if qpid == 0:
                os.close(r_q)
                _child(qf, pp, w_q)
            os.close(w_q)
            qres = _collect(qpid, r_q)
            os.write(w_resume, b"g")
        os.close(w_resume), os.close(r_reached)
        pres = _collect(ppid, r_pres)
        if not reached:
            return None, False
        where = f"[{start}] P={pname} suspended before its file-system step {k}, Q={qname} runs, P resumes"
        if not qres.get("ok"):
            return f"{where}: Q failed: {qres.get('err', '')[-400:]}", True
        if not pres.get("ok"):
            return f"{where}: P failed after being resumed: {pres.get('err', '')[-400:]}", True
        # Q's observations are complete values
        qo = qres["obs"]
        if qo[0] == "doc-read" and qname == "read doc1":
            if qo[1] != {}:
                return f"{where}: Q read {str(qo[1])[:100]} from a job without a document", True
        elif qo[0] == "doc-read":
            old = {"k": "old", "keep": [1, 2]}
            new = dict(old, k={"v": list(range(40)), "t": "new"}) if pname == "doc0[k]=new" else old
            if qo[1] not in (old, new):
                return f"{where}: Q read a document that is neither the old nor the new content: {str(qo[1])[:150]}", True
        if qo[0] == "init" and qo[2] != json.loads(json.dumps(qjobs[0])):
            return f"{where}: Q's job has state point {qo[2]}", True
        if qo[0] == "len":
            from signac.job import calc_id
            allowed = {calc_id(sp) for sp in have + pjobs}
            base = {calc_id(sp) for sp in have}
            if not (base <= set(qo[2]) <= allowed) or not (len(base) <= qo[1] <= len(allowed)):
                return f"{where}: Q counted {qo[1]} jobs and listed {qo[2]}; jobs present before: {sorted(base)}, being created: {sorted(allowed - base)}", True
        # final state
        p = signac.Project(pp)
        try:
            p.check()
        except Exception as e:
            return f"{where}: afterwards check() fails: {type(e).__name__}: {e}", True
        want = {json.dumps(sp, sort_keys=True) for sp in have + pjobs + qjobs}
        got = {json.dumps(j.statepoint(), sort_keys=True) for j in signac.Project(pp)}
        if got != want:
            return f"{where}: afterwards the project holds {sorted(got)}, requested {sorted(want)}", True
        docs = {}
        if start == "populated":
            docs[0] = {"k": "old", "keep": [1, 2]}
        for dd in (pdoc, qdoc):
            if dd:
                docs.setdefault(dd[0], {})[dd[1]] = dd[2]
        for i, exp in docs.items():
            gotd = json.loads(json.dumps(signac.Project(pp).open_job((SP0, SP1)[i]).doc()))
            if gotd != exp:
                return f"{where}: afterwards document of job {i} is {str(gotd)[:120]}, a sequential execution gives {str(exp)[:120]}", True
        stray = [f for dp, dn, fn in os.walk(pp) for f in fn if f.endswith(("~", ".tmp")) or ".tmp" in f]
        return None, True


def run(tier="quick", seed=0):
    b = Budget(20 if tier == "quick" else 600)
    rnd = random.Random(1200 + seed)
    plan = [(s, p, q) for s in STARTS for p in P_SCRIPTS for q in Q_SCRIPTS]
    if tier == "quick":
        rnd.shuffle(plan)
    evals, distinct, failures, samples = 0, set(), [], []
    maxk = 14
    # breadth first over k so that a quick run touches every script pair at its early steps
    done = set()
    for k in range(1, maxk + 1):
        for (s, p, q) in plan:
            if (s, p, q) in done:
                continue
            if not b.left() or failures:
                break
            try:
                bad, reached = schedule(s, p, q, k)
            except Exception:
                bad, reached = "scheduler crashed: " + traceback.format_exc()[-500:], True
            if not reached:
                done.add((s, p, q))
                continue
            evals += 1
            distinct.add((s, p, q, k))
            if len(samples) < 3:
                samples.append({"start": s, "P": p, "Q": q, "preempted_before_step": k})
            if bad:
                failures.append({"key": f"schedule:{s}:{p}:{q}:{k}", "description": bad,
                                 "script": script_header() + f"sys.path.insert(0, '/verif')\nfrom pybound.c12 import schedule\nbad, reached = schedule({s!r}, {p!r}, {q!r}, {k})\nassert not bad, bad\n"})
    return {"scope": "two processes, one preemption: P in {Project(), init(sp0), init(sp2), doc0[k]=new, read doc1} is suspended right before its k-th file-system step (mkdir, open-for-writing, "
                     "each write, close, replace/rename, remove; k = 1.. until P finishes first), Q in {Project(), init(sp0), init(sp1), doc1[m]=1, read doc0, read doc1, len(project)} runs to completion, "
                     "P resumes; from an empty project (no workspace directory yet) and from a populated one",
            "evaluations": evals, "distinct_nontrivial": len(distinct), "rule": "a case is one schedule (start, P script, Q script, k) in which P reached step k; distinct by that tuple",
            "samples": samples, "failures": failures}
