"""Bounded stand-in for C05 (never counted as proved): job / project documents against a plain dict model, through several
handles, unbuffered and inside signac.buffered(); the file on disk equals the model after every unbuffered step and on block exit."""
import copy
import contextlib
import json
import os
import random

from .common import Budget, project_scratch, script_header
from .fsharness import dep_trigger

VALS = [0, 1, 2.5, "x", True, None, [1, 2], {"n": 1}, {"n": {"z": 2}}, []]
KEYS = ["a", "b", "c"]


def norm(v):
    from synced_collections.utils import SyncedCollectionJSONEncoder
    return json.loads(json.dumps(v, cls=SyncedCollectionJSONEncoder))


def apply_op(rnd, doc, model, mem=None):
    """apply one random mapping operation to the real document `doc` and the dict `model`; returns a description.
    `mem`: what the long-lived handle of this document may still hold in memory (it re-loads through the dependency's in-place merge)"""
    op = rnd.choice(["set", "set", "attr", "del", "update", "setdefault", "pop", "clear", "reset", "nested", "append"])
    k, v = rnd.choice(KEYS), copy.deepcopy(rnd.choice(VALS))
    _dt = dep_trigger

    def dep_trigger_(cur, new):
        return _dt(cur, new) or (mem is not None and _dt(mem, new))
    if op in ("set", "attr") and dep_trigger_(model, {k: norm(v)}):
        return None             # another live handle would re-load this change through the dependency's in-place merge (F23 / F24)
    if op == "set":
        doc[k] = v
        model[k] = norm(v)
    elif op == "attr":
        setattr(doc, k, v)
        model[k] = norm(v)
    elif op == "del":
        if k in model:
            del doc[k]
            del model[k]
        else:
            return None
    elif op == "update":
        u = {kk: copy.deepcopy(rnd.choice(VALS)) for kk in rnd.sample(KEYS, 2)}
        if dep_trigger_(model, norm(u)):
            return None         # scope excludes dependency findings F23 / F24 (update() goes through the same in-place merge)
        doc.update(u)
        model.update(norm(u))
    elif op == "setdefault":
        if k not in model and dep_trigger_(model, {k: norm(v)}):
            return None
        r = doc.setdefault(k, v)
        model.setdefault(k, norm(v))
    elif op == "pop":
        r = doc.pop(k, "dflt")
        m = model.pop(k, "dflt")
        if norm(r) != m:
            return f"FAIL:pop({k!r}) returned {norm(r)!r}, dict gives {m!r}"
    elif op == "clear":
        doc.clear()
        model.clear()
    elif op == "reset":
        new = {kk: copy.deepcopy(rnd.choice(VALS)) for kk in rnd.sample(KEYS, rnd.randint(0, 2))}
        if dep_trigger_(model, norm(new)):
            return None         # scope excludes dependency findings F23 / F24
        doc.reset(new)
        model.clear()
        model.update(norm(new))
    elif op == "nested":
        if isinstance(model.get(k), dict):
            doc[k]["deep"] = v
            model[k]["deep"] = norm(v)
        else:
            return None
    elif op == "append":
        if isinstance(model.get(k), list):
            doc[k].append(7)
            model[k].append(7)
        else:
            return None
    return f"{op} {k}"


def on_disk(fn):
    try:
        return json.loads(open(fn).read())
    except FileNotFoundError:
        return {}


def scenario(seed, buffered_mode):
    import signac
    rnd = random.Random(seed)
    with project_scratch() as p:
        jobs = [p.open_job({"j": i}).init() for i in range(rnd.randint(1, 3))]
        targets = [("job", j) for j in jobs] + [("project", p)]
        models = {id(t[1]): {} for t in targets}
        files = {id(j): j.fn(j.FN_DOCUMENT) for j in jobs}
        files[id(p)] = p.fn(p.FN_DOCUMENT)
        trace = []

        mems = {id(t[1]): {} for t in targets}      # what the long-lived handle (obj.document) may still hold in memory

        def spelled(path):
            # the same directory, spelled differently by the caller
            return rnd.choice([path, path + os.sep, os.path.join(path, "."), os.path.join(os.path.dirname(path), ".", os.path.basename(path)), path.replace(os.sep, os.sep * 2, 1)])

        def handle(kind, obj):
            how = rnd.choice(["same", "fresh"])
            handle.last_same = how == "same"
            if kind == "project":
                return (obj if how == "same" else signac.Project(spelled(obj.path))).document
            return (obj if how == "same" else signac.Project(spelled(p.path)).open_job(id=obj.id)).document

        def steps(n, inside_buffer):
            for _ in range(n):
                kind, obj = rnd.choice(targets)
                m = models[id(obj)]
                if kind == "job" and rnd.random() < 0.1:
                    # Job.clear() / Job.reset(): the document is cleared like doc.clear() (there are no other data files here)
                    same = inside_buffer or rnd.random() < 0.5
                    jh = obj if same else signac.Project(p.path).open_job(id=obj.id)
                    which = rnd.choice(["clear", "reset"])
                    getattr(jh, which)()
                    m.clear()
                    h = jh.document
                    d = f"job.{which}()"
                else:
                    h = (obj.document if inside_buffer else handle(kind, obj))   # inside a buffered block: the writing handle
                    same = True if inside_buffer else handle.last_same
                    d = apply_op(rnd, h, m, mems[id(obj)])
                if d is None:
                    continue
                if same:
                    mems[id(obj)] = copy.deepcopy(m)
                trace.append(("buffered " if inside_buffer else "") + f"{kind}:{d}")
                if d.startswith("FAIL:"):
                    return d[5:]
                got = norm(h())
                if got != m:
                    return f"value read back {got} != dict model {m} after {trace[-3:]}"
                if not inside_buffer:
                    other = norm(handle(kind, obj)())
                    if handle.last_same and other == m:
                        mems[id(obj)] = copy.deepcopy(m)
                    if other != m:
                        return f"another handle sees {other}, dict model {m} after {trace[-3:]}"
                    disk = on_disk(files[id(obj)])
                    if disk != m:
                        return f"file on disk {disk} != dict model {m} after {trace[-3:]}"
            return None
        n = rnd.randint(4, 12)
        if buffered_mode == "none":
            bad = steps(n, False)
        elif buffered_mode == "full":
            cap = rnd.choice([0, 1, 64, None])
            if cap is not None:
                old = signac.get_buffer_capacity()
                signac.set_buffer_capacity(cap)
            try:
                with signac.buffered():
                    bad = steps(n, True)
            finally:
                if cap is not None:
                    signac.set_buffer_capacity(old)
        else:
            bad = steps(n // 2, False)
            if not bad:
                with signac.buffered():
                    bad = steps(3, True)
                    if not bad:
                        with signac.buffered():
                            bad = steps(2, True)
            if not bad:
                bad = steps(2, False)
        if bad:
            return bad, trace
        for kind, obj in targets:      # on exit the files are exactly what an unbuffered run leaves
            disk = on_disk(files[id(obj)])
            if disk != models[id(obj)]:
                return f"after the run the {kind} document file holds {disk}, dict model {models[id(obj)]} (mode {buffered_mode})", trace
        return None, trace


def remove_in_buffer_check():
    """a job removed and re-created inside one buffered block starts with an empty document"""
    import signac
    with project_scratch() as p:
        with signac.buffered():
            j = p.open_job({"r": 1})
            j.doc["old"] = 1
            j.remove()
            j.doc["new"] = 2
            inside = norm(j.doc())
        after = on_disk(j.fn(j.FN_DOCUMENT))
        if inside != {"new": 2} or after != {"new": 2}:
            return f"document of a job removed and re-created inside signac.buffered(): read back {inside}, file {after}, a plain dict gives {{'new': 2}}"
    return None


def rekey_in_buffer_check():
    """documents follow their jobs through state point changes inside one buffered block; a job that later lives under the old id
    (changed back, or newly created) starts from / keeps its own document"""
    import signac
    out = []
    for route in ("back-and-forth", "new-job-at-old-id", "doc-handle-kept"):
        with project_scratch() as p:
            try:
                with signac.buffered():
                    j = p.open_job({"a": 1}).init()
                    d = j.doc
                    d["x"] = 1
                    j.sp.a = 2
                    j.doc["y"] = 2
                    if route == "back-and-forth":
                        j.sp.a = 1
                        j.doc["z"] = 3
                        want = {j.id: {"x": 1, "y": 2, "z": 3}}
                        inside = {j.id: norm(j.doc())}
                    elif route == "new-job-at-old-id":
                        k = p.open_job({"a": 1}).init()
                        k.doc["k"] = "fresh"
                        want = {j.id: {"x": 1, "y": 2}, k.id: {"k": "fresh"}}
                        inside = {j.id: norm(j.doc()), k.id: norm(k.doc())}
                    else:
                        want = {j.id: {"x": 1, "y": 2}}
                        inside = {j.id: norm(j.doc())}
                after = {i: on_disk(p.open_job(id=i).fn("signac_job_document.json")) for i in want}
            except Exception as e:
                out.append((f"{route}:{type(e).__name__}", f"[{route}] state point change after a document access inside signac.buffered() raised {type(e).__name__}: {str(e)[:300]}"))
                continue
            if inside != want or after != want:
                lost = sorted(k for i in want for k in want[i] if k not in after.get(i, {}))
                moved = sorted(k for i in after for k in after[i] if k not in want.get(i, {}))
                out.append((f"{route}:lost={','.join(lost)}:misplaced={','.join(moved)}",
                            f"[{route}] documents after state point changes inside signac.buffered(): read back {inside}, files {after}, plain dicts give {want}"))
    return out


def kept_doc_handle_check():
    """a document handle taken before the document had any content (doc = job.doc) stays THE handle: writes through it, interleaved with
    further job.doc accesses, inside and outside signac.buffered(), all land in the one document"""
    import signac
    out = []
    for buffered in (False, True):
        for target in ("job", "project"):
            with project_scratch() as p:
                try:
                    obj = p.open_job({"e": 1}).init() if target == "job" else p
                    doc = obj.doc
                    same = obj.doc is doc
                    model = {}
                    ctxm = signac.buffered() if buffered else contextlib.nullcontext()
                    with ctxm:
                        doc["a"] = 1
                        obj.doc["b"] = 2
                        doc["c"] = {"n": [1]}
                        model.update(a=1, b=2, c={"n": [1]})
                        inside = (norm(doc()), norm(obj.doc()))
                    fn = obj.fn("signac_job_document.json") if target == "job" else p.fn("signac_project_document.json")
                    after = (norm(doc()), norm(obj.doc()), on_disk(fn))
                    if not same or inside != (model, model) or after != (model, model, model):
                        out.append((f"{target}:{buffered}", f"{target} document handle taken while the document was empty (buffered={buffered}): same object on re-access: {same}; "
                                                            f"inside {inside}, afterwards (kept handle, re-accessed, file) {after}; plain dict {model}"))
                except Exception as e:
                    out.append((f"{target}:{buffered}", f"{target} document handle taken while empty (buffered={buffered}) raised {type(e).__name__}: {str(e)[:200]}"))
    return out


def moved_handle_doc_check():
    """a handle whose document was used before job.move(other_project): afterwards its document is the moved job's document (read, write,
    file in the new project, fresh handle), buffered or not"""
    import signac
    out = []
    for buffered in (False, True):
        with project_scratch() as p:
            try:
                os.makedirs(p.path + "_other", exist_ok=True)
                other = signac.init_project(p.path + "_other")
                job = p.open_job({"m": 1}).init()
                job.doc["before"] = 1
                job.move(other)
                model = {"before": 1}
                ctxm = signac.buffered() if buffered else contextlib.nullcontext()
                with ctxm:
                    job.doc["after"] = 2
                    model["after"] = 2
                    inside = norm(job.doc())
                after = norm(job.doc())
                disk = on_disk(os.path.join(other.workspace, job.id, "signac_job_document.json"))
                fresh = norm(signac.Project(other.path).open_job(id=job.id).doc())
                stray = os.path.exists(os.path.join(p.workspace, job.id))
                if not (inside == after == disk == fresh == model) or stray:
                    out.append((f"moved:{buffered}", f"document through a handle that was moved to another project (buffered={buffered}): inside {inside}, after {after}, file in the new project {disk}, "
                                                      f"fresh handle {fresh}; plain dict {model}; old job directory re-created: {stray}"))
            except Exception as e:
                out.append((f"moved:{buffered}", f"document through a handle that was moved to another project (buffered={buffered}) raised {type(e).__name__}: {str(e)[:200]}"))
            finally:
                import shutil
                shutil.rmtree(p.path + "_other", ignore_errors=True)
    return out


def reopened_by_cached_id_check():
    """a document through a handle opened by an id the project still remembers although the job was removed / re-keyed meanwhile:
    a faithful persistent dict all the same (the handle creates the job directory on first use), buffered or not"""
    import signac
    out = []
    for how in ("removed", "id-changed"):
        for buffered in (False, True):
            with project_scratch() as p:
                try:
                    job = p.open_job({"kind": how, "v": 0}).init()
                    job.doc["old"] = True
                    old_id = job.id
                    if how == "removed":
                        job.remove()
                    else:
                        job.sp.v = 1
                    other = p.open_job(id=old_id)          # the id is still in the in-memory state point cache
                    model = {}
                    ctxm = signac.buffered() if buffered else contextlib.nullcontext()
                    with ctxm:
                        for d in (other.doc, model):
                            d["a"] = 1
                            d["b"] = {"c": [1, 2]}
                            d.setdefault("e", "x")
                            del d["a"]
                        inside = norm(other.doc())
                    after = norm(other.doc())
                    disk = on_disk(other.fn("signac_job_document.json"))
                    third = norm(p.open_job(id=old_id).doc())
                    if not (inside == after == disk == third == model):
                        out.append((f"{how}:{buffered}", f"document of a job reopened by a remembered id after it was {how} (buffered={buffered}): inside {inside}, after {after}, file {disk}, other handle {third}; plain dict {model}"))
                except Exception as e:
                    out.append((f"{how}:{buffered}", f"document of a job reopened by a remembered id after it was {how} (buffered={buffered}) raised {type(e).__name__}: {str(e)[:200]}"))
    return out


def run(tier="quick", seed=0):
    b = Budget(12 if tier == "quick" else 240)
    evals, distinct, failures, samples = 0, set(), [], []
    n = 90 if tier == "quick" else 6000
    for k in range(n):
        if not b.left() or failures:
            break
        mode = ("none", "full", "mixed")[k % 3]
        s = 5000 + seed * 100000 + k
        try:
            bad, trace = scenario(s, mode)
        except Exception:
            import traceback
            bad, trace = "scenario crashed: " + traceback.format_exc()[-600:], []
        evals += max(1, len(trace))
        distinct.update(t.split(":")[-1] for t in trace)
        if len(samples) < 2:
            samples.append(trace[:6])
        if bad:
            failures.append({"key": "doc:" + mode, "description": bad, "script": script_header() + f"sys.path.insert(0, '/verif')\nfrom pybound.c05 import scenario\nbad, trace = scenario({s}, {mode!r})\nassert not bad, bad\n"})
    rb = remove_in_buffer_check()
    evals += 1
    if rb:
        failures.append({"key": "doc:remove-inside-buffer", "description": rb, "script": script_header() + "sys.path.insert(0, '/verif')\nfrom pybound.c05 import remove_in_buffer_check\nr = remove_in_buffer_check()\nassert not r, r\n"})
    for sig, msg in rekey_in_buffer_check():
        failures.append({"key": "doc:rekey-inside-buffer:" + sig, "description": msg,
                         "script": script_header() + "sys.path.insert(0, '/verif')\nfrom pybound.c05 import rekey_in_buffer_check\nr = rekey_in_buffer_check()\nassert not r, r\n"})
    evals += 3
    for sig, msg in kept_doc_handle_check():
        failures.append({"key": "doc:kept-handle:" + sig, "description": msg,
                         "script": script_header() + "sys.path.insert(0, '/verif')\nfrom pybound.c05 import kept_doc_handle_check\nr = kept_doc_handle_check()\nassert not r, r\n"})
    evals += 4
    for sig, msg in moved_handle_doc_check():
        failures.append({"key": "doc:moved-handle:" + sig, "description": msg,
                         "script": script_header() + "sys.path.insert(0, '/verif')\nfrom pybound.c05 import moved_handle_doc_check\nr = moved_handle_doc_check()\nassert not r, r\n"})
    evals += 2
    for sig, msg in reopened_by_cached_id_check():
        failures.append({"key": "doc:reopened-by-cached-id:" + sig, "description": msg,
                         "script": script_header() + "sys.path.insert(0, '/verif')\nfrom pybound.c05 import reopened_by_cached_id_check\nr = reopened_by_cached_id_check()\nassert not r, r\n"})
    evals += 4
    from .fsharness import KNOWN_SEEN, probe_known
    probe_known()
    for k in sorted(KNOWN_SEEN):
        if k.startswith("dep:"):
            failures.append({"key": k, "description": "known finding re-observed", "script": ""})
    return {"scope": "1-3 jobs + the project document, 1-3 handles each (same / freshly opened), 4-12 random mapping operations (item/attribute set, del, update, setdefault, pop, clear, reset, Job.clear() / Job.reset(), "
                     "nested dict and list mutation) over 10 JSON values; run unbuffered, fully inside signac.buffered() (capacities 0, 1, 64, default) and with nested buffered sub-blocks; "
                     "remove / state point change after a document access inside one buffered block (3 routes); a job reopened by a remembered id after remove / re-key (buffered or not); "
                     "resets that trigger dependency findings F23/F24 are excluded",
            "evaluations": evals, "distinct_nontrivial": len(distinct), "rule": "a case is one executed mapping operation; distinct by (operation, key)", "samples": samples, "failures": failures}
