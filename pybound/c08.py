"""Bounded stand-in for C08: model equality after random operation histories on real projects (never counted as proved)."""
from .common import Budget
from .fsharness import run_histories

RULE = "a case is one executed operation of a random history; non-trivial/distinct = distinct (operation kind, variant) pairs that actually executed"


def stale_cache_scenarios():
    """the persistent cache lags behind the workspace (jobs added / removed / re-keyed by a session that did not update it); in a
    fresh session each first cache-touching call must still give exact answers, and update_cache must make the file exact"""
    import gzip
    import json
    import os
    import signac
    from .common import dir_scratch
    out = []
    for change in ("added", "removed", "both", "none"):
        for first in ("update_cache", "len", "find", "open-by-id"):
            try:
                out += _stale_one(change, first)
            except Exception as e:
                out.append((f"stale:{change}:{first}:raised", f"workspace {change}, first call {first}: {type(e).__name__}: {str(e)[:200]}"))
    return out


def rekey_then_reinit_check():
    """a handle that was re-keyed and is initialised again (init(), init(force=True)) must not teach the project a wrong state point for
    its id: same-session queries, open-by-id and the persistent cache written afterwards stay exact"""
    import gzip
    import hashlib
    import json
    import os
    import signac
    from .common import dir_scratch
    out = []
    for route in ("setitem", "assign", "update_statepoint"):
        for force in (False, True):
            with dir_scratch() as d:
                pp = os.path.join(d, "p")
                os.makedirs(pp)
                p = signac.init_project(pp)
                j = p.open_job({"a": 1, "b": 0}).init()
                p.open_job({"a": 5}).init()
                j.statepoint()
                if route == "setitem":
                    j.sp.a = 2
                elif route == "assign":
                    j.statepoint = {"a": 2, "b": 0}
                else:
                    j.update_statepoint({"c": 3})
                j.init(force=force)
                new_sp = json.loads(json.dumps(j.statepoint()))
                try:
                    byid = json.loads(json.dumps(p.open_job(id=j.id).statepoint()))
                    found = sorted(x.id for x in p.find_jobs(new_sp))
                    p.update_cache()
                    fn = os.path.join(pp, ".signac", "statepoint_cache.json.gz")
                    disk = json.loads(gzip.open(fn, "rb").read().decode())
                except Exception as e:
                    out.append((f"reinit:{route}:{force}:raised", f"re-key ({route}) then init(force={force}): {type(e).__name__}: {str(e)[:200]}"))
                    continue
                ref = lambda v: hashlib.md5(json.dumps(v, sort_keys=True).encode()).hexdigest()
                bad = [i for i, v in disk.items() if ref(v) != i]
                if byid != new_sp or found != [j.id] or bad:
                    out.append((f"reinit:{route}:{force}", f"re-key ({route}) then init(force={force}) through the same handle: open-by-id gives {byid} (the job's state point is {new_sp}), "
                                                          f"find_jobs finds {len(found)} jobs, cache file entries that do not hash to their key: {bad}"))
    return out


def refused_rekey_check():
    """a state point change that is refused (the destination exists) must leave what the project remembers about the job as it was:
    same-session open-by-id, queries, and the cache file written afterwards"""
    import gzip
    import hashlib
    import json
    import os
    import signac
    from signac.errors import DestinationExistsError
    from .common import dir_scratch
    out = []
    ref = lambda v: hashlib.md5(json.dumps(v, sort_keys=True).encode()).hexdigest()
    for route in ("update_statepoint", "setitem", "assign"):
        for warm in ("cached", "uncached"):
            with dir_scratch() as d:
                pp = os.path.join(d, "p")
                os.makedirs(pp)
                p = signac.init_project(pp)
                j = p.open_job({"a": 1}).init()
                p.open_job({"a": 1, "b": 2}).init()
                if warm == "uncached":
                    p = signac.Project(pp)
                    j = p.open_job(id=j.id)
                old_id, old_sp = j.id, {"a": 1}
                try:
                    if route == "update_statepoint":
                        j.update_statepoint({"b": 2})
                    elif route == "setitem":
                        j.sp.b = 2
                    else:
                        j.statepoint = {"a": 1, "b": 2}
                    out.append((f"refused:{route}:{warm}", f"{route} onto an existing job did not raise DestinationExistsError"))
                    continue
                except DestinationExistsError:
                    pass
                except Exception as e:
                    out.append((f"refused:{route}:{warm}", f"{route} onto an existing job raised {type(e).__name__}: {e}"))
                    continue
                try:
                    byid = json.loads(json.dumps(p.open_job(id=old_id).statepoint()))
                    found = sorted(x.id for x in p.find_jobs({"b": {"$exists": False}}))
                    fn = os.path.join(pp, ".signac", "statepoint_cache.json.gz")
                    if os.path.exists(fn):
                        os.remove(fn)
                    p.update_cache()
                    disk = json.loads(gzip.open(fn, "rb").read().decode())
                except Exception as e:
                    out.append((f"refused:{route}:{warm}:raised", f"after a refused {route}: {type(e).__name__}: {str(e)[:200]}"))
                    continue
                bad = sorted(i for i, v in disk.items() if ref(v) != i)
                if byid != old_sp or found != [old_id] or bad:
                    out.append((f"refused:{route}:{warm}", f"after a refused {route} ({warm} handle) the same session opens {old_id[:8]} with {byid} (it is {old_sp}), "
                                                          f"finds {len(found)} jobs without b, cache file entries not hashing to their key: {bad}"))
    return out


def _stale_one(change, first):
    import gzip
    import json
    import os
    import signac
    from .common import dir_scratch
    out = []
    if True:
        if True:
            with dir_scratch() as d:
                pp = os.path.join(d, "p")
                os.makedirs(pp)
                p = signac.init_project(pp)
                jobs = [p.open_job({"a": i}).init() for i in range(4)]
                p.update_cache()
                q = signac.Project(pp)
                if change in ("added", "both"):
                    q.open_job({"a": 10}).init()
                if change in ("removed", "both"):
                    q.open_job({"a": 0}).remove()
                want = sorted(j.id for j in signac.Project(pp))
                s = signac.Project(pp)           # the fresh session under test
                if first == "len":
                    len(s)
                elif first == "find":
                    got = sorted(j.id for j in s.find_jobs({"a": {"$gte": 0}}))
                    if got != want:
                        out.append((f"stale:{change}:{first}", f"workspace {change}: find_jobs in a fresh session returns {got}, workspace holds {want}"))
                elif first == "open-by-id":
                    for i in want:
                        s.open_job(id=i).statepoint()
                r1 = s.update_cache()
                fn = os.path.join(pp, ".signac", "statepoint_cache.json.gz")
                on_disk = sorted(json.loads(gzip.open(fn, "rb").read().decode()))
                if on_disk != want:
                    out.append((f"stale:{change}:{first}:file", f"workspace {change}, first call {first}: after update_cache() the cache file lists {len(on_disk)} ids, the workspace holds {len(want)}"))
                r2 = s.update_cache()
                if r2 is not None:
                    out.append((f"stale:{change}:{first}:second", f"workspace {change}, first call {first}: a second update_cache() reports {r2!r} instead of nothing to do"))
                if change == "none" and r1 is not None and first == "update_cache":
                    out.append((f"stale:{change}:{first}:first", f"an exact cache file is reported as updated ({r1!r})"))
    return out


def run(tier="quick", seed=0):
    b = Budget(12 if tier == "quick" else 240)
    r = run_histories(seed + 8, b, n_hist=40 if tier == "quick" else 2000, length=14 if tier == "quick" else 40, weights={"init": 3, "remove": 2, "rekey": 3, "cache": 5, "doc": 1})
    r.update(scope="random histories (length 14 quick / 40 thorough) of {init, doc edit/reset, file, remove, clear/reset, re-key by 6 routes, move, clone, handle copy/deepcopy/pickle/reopen/drop, "
                   "update_cache/restart/delete cache} over 2 projects, 4 keys x 8 values; model equality, check(), listing==len==membership, no temp files, live handles follow -- after every step", rule=RULE)
    from .common import script_header
    for key, msg in refused_rekey_check():
        r["failures"].append({"key": key, "description": msg, "script": script_header() + "sys.path.insert(0, '/verif')\nfrom pybound.c08 import refused_rekey_check\nr = refused_rekey_check()\nassert not r, r\n"})
    for key, msg in rekey_then_reinit_check():
        r["failures"].append({"key": key, "description": msg, "script": script_header() + "sys.path.insert(0, '/verif')\nfrom pybound.c08 import rekey_then_reinit_check\nr = rekey_then_reinit_check()\nassert not r, r\n"})
    for key, msg in stale_cache_scenarios():
        r["failures"].append({"key": key, "description": msg, "script": script_header() + "sys.path.insert(0, '/verif')\nfrom pybound.c08 import stale_cache_scenarios\nr = stale_cache_scenarios()\nassert not r, r\n"})
    r["evaluations"] = r.get("evaluations", 0) + 16
    r["scope"] += "; plus 16 stale-cache scenarios (workspace changed by a session that did not update the cache file x first call of the fresh session)"
    return r
