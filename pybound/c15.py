"""Bounded stand-in for C15 (never counted as proved): run-time sync contracts on real project pairs, see syncharness."""
from .common import Budget
from .syncharness import run_focus


def run(tier="quick", seed=0):
    return run_focus("C15", tier, seed, Budget(14 if tier == "quick" else 300))
