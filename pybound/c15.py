"""Bounded stand-in for C15 (never counted as proved): run-time sync contracts on real project pairs, see syncharness."""
import contextlib
import io
import os

from .common import Budget, dir_scratch, script_header
from .syncharness import run_focus


def deep_compare_check():
    """'With deep=True files are compared by content at both job and project level regardless of size and timestamps': a file present on
    both sides with the same size and the same mtime but other bytes, top level and nested -- without a strategy the conflict is raised,
    with FileSync.always the destination gets the source bytes; through Project.sync, Job.sync, sync_projects and sync_jobs"""
    import logging
    import signac
    from signac.errors import FileSyncConflict
    from signac.sync import FileSync, sync_jobs, sync_projects
    logging.disable(logging.CRITICAL)
    out = []
    for entry in ("Project.sync", "Job.sync", "sync_projects", "sync_jobs"):
        for rel in ("data.txt", os.path.join("sub", "deep", "data.txt")):
            for strategy in (None, "always"):
                with dir_scratch() as d:
                    os.makedirs(d + "/src")
                    os.makedirs(d + "/dst")
                    src, dst = signac.init_project(d + "/src"), signac.init_project(d + "/dst")
                    js, jd = src.open_job({"a": 1}).init(), dst.open_job({"a": 1}).init()
                    for j, content in ((js, b"AAAA"), (jd, b"BBBB")):
                        os.makedirs(os.path.dirname(j.fn(rel)), exist_ok=True)
                        open(j.fn(rel), "wb").write(content)
                        os.utime(j.fn(rel), (1000, 1000))
                    kw = dict(deep=True, recursive=True, strategy=FileSync.always if strategy else None)
                    call = {"Project.sync": lambda: dst.sync(src, **kw), "Job.sync": lambda: jd.sync(js, **kw),
                            "sync_projects": lambda: sync_projects(src, dst, **kw), "sync_jobs": lambda: sync_jobs(js, jd, **kw)}[entry]
                    err = None
                    try:
                        with contextlib.redirect_stdout(io.StringIO()):
                            call()
                    except FileSyncConflict as e:
                        err = e
                    except Exception as e:
                        out.append((f"{entry}:{rel}:{strategy}", f"{entry}(deep=True) raised {type(e).__name__}: {e}"))
                        continue
                    now = open(jd.fn(rel), "rb").read()
                    if strategy is None and (err is None or now != b"BBBB"):
                        out.append((f"{entry}:{rel}:{strategy}", f"{entry}(deep=True, strategy=None): {rel} differs in content only (same size, same mtime): "
                                                                  f"{'no FileSyncConflict was raised' if err is None else 'the destination file was changed'}"))
                    if strategy == "always" and (err is not None or now != b"AAAA"):
                        out.append((f"{entry}:{rel}:{strategy}", f"{entry}(deep=True, strategy=always): {rel} differs in content only (same size, same mtime): the destination holds {now!r} afterwards"))
    return out


def dry_run_stale_backup_check():
    """'With dry_run=True a sync ... [leaves] any file, directory or document in either project [unchanged]' also when a file named like a
    document backup sits next to a destination document that would be merged (job and project level, conflicting and mergeable documents)"""
    import logging
    import signac
    from .syncharness import snapshot
    logging.disable(logging.CRITICAL)
    out = []
    for level in ("job", "project"):
        for conflict in (False, True):
            with dir_scratch() as d:
                os.makedirs(d + "/src")
                os.makedirs(d + "/dst")
                src, dst = signac.init_project(d + "/src"), signac.init_project(d + "/dst")
                js, jd = src.open_job({"a": 1}).init(), dst.open_job({"a": 1}).init()
                sdoc, ddoc = (js.doc, jd.doc) if level == "job" else (src.doc, dst.doc)
                ddoc["k"] = 1
                sdoc["k" if conflict else "m"] = 2
                fn = jd.fn("signac_job_document.json") if level == "job" else dst.fn("signac_project_document.json")
                open(fn + "~", "wb").write(b'{"stale": true}')
                before = (snapshot(src.path), snapshot(dst.path))
                try:
                    with contextlib.redirect_stdout(io.StringIO()):
                        dst.sync(src, dry_run=True)
                except Exception:
                    pass
                after = (snapshot(src.path), snapshot(dst.path))
                if after != before:
                    changed = sorted(k for i in (0, 1) for k in set(before[i]) | set(after[i]) if before[i].get(k) != after[i].get(k))[:4]
                    out.append((f"{level}:{conflict}", f"dry run at {level} level with a backup-named file next to the destination document changed {changed}"))
    return out


def run(tier="quick", seed=0):
    r = run_focus("C15", tier, seed, Budget(14 if tier == "quick" else 300))
    try:
        found = deep_compare_check()
    except Exception as e:
        found = [("raised", f"deep_compare_check raised {type(e).__name__}: {e}")]
    for key, msg in found[:3]:
        r["failures"].append({"key": "deep:content-only-difference:" + key, "description": msg,
                              "script": script_header() + "sys.path.insert(0, '/verif')\nfrom pybound.c15 import deep_compare_check\nr = deep_compare_check()\nassert not r, r\n"})
    try:
        found2 = dry_run_stale_backup_check()
    except Exception as e:
        found2 = [("raised", f"dry_run_stale_backup_check raised {type(e).__name__}: {e}")]
    for key, msg in found2:
        r["failures"].append({"key": "dry-run:stale-backup:" + key, "description": msg,
                              "script": script_header() + "sys.path.insert(0, '/verif')\nfrom pybound.c15 import dry_run_stale_backup_check\nr = dry_run_stale_backup_check()\nassert not r, r\n"})
    r["evaluations"] += 4
    r["scope"] += "; dry runs next to a backup-named file"
    r["evaluations"] += 16
    r["scope"] += "; deep=True over a file that differs in content only (same size, same mtime), top level and nested, with and without a strategy, through all four entry points"
    return r
