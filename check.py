#!/usr/bin/env python3
"""Entry point of every registered check:  ./check <Cxx> [--tier quick|thorough] [--replay FILE] [--relock]

exit 0  every locked obligation of the property was generated and discharged (known findings reported as KNOWN-FINDING)
exit 1  VIOLATION property=<id> replay=<path>   (an obligation has a counter-model / a bounded contract check failed)
exit 2  undecided (solver unknown, construct outside the subset, function renamed, ...)
exit 3  the checker itself crashed
"""
import argparse
import json
import os
import sys
import time
import traceback

ROOT = os.path.dirname(os.path.abspath(__file__))
sys.path.insert(0, ROOT)
os.environ.setdefault("PYTHONHASHSEED", "0")


def main():
    ap = argparse.ArgumentParser()
    ap.add_argument("pid")
    ap.add_argument("--tier", default=os.environ.get("VERIF_TIER", "quick"))
    ap.add_argument("--replay")
    ap.add_argument("--relock", action="store_true", help="development: rewrite the lock entry of this property from this run")
    ap.add_argument("--only")
    ap.add_argument("--jobs", type=int)
    ap.add_argument("-v", action="store_true")
    a = ap.parse_args()
    seed = int(os.environ.get("VERIF_SEED", "0") or 0)
    tier = a.tier if a.tier in ("quick", "thorough") else "quick"
    from pyvc import report
    if a.replay:
        return report.replay(a.pid, a.replay)
    try:
        return report.check_property(a.pid, tier, seed, relock=a.relock, only=a.only, jobs=a.jobs, verbose=a.v)
    except SystemExit:
        raise
    except BaseException:
        traceback.print_exc()
        print(f"CHECKER-CRASH property={a.pid}")
        return 3


if __name__ == "__main__":
    sys.exit(main())
