"""pyvc interpreter: executes the real AST of /repo functions over mixed concrete / symbolic values.

Nothing here is a model of signac: the statements executed are the ones parsed from the working tree on this
run.  What *is* modelled: Python's statement/expression semantics for the supported subset (below), the
symbolic value classes, and the externals / dependency contracts registered by a verification context.
"""
import ast
import builtins
import hashlib
import importlib
import logging
import operator
import os
import sys
import types

import z3

from .core import (
    BreakSignal,
    ContinueSignal,
    CutSeq,
    NativeStub,
    OpaqueStr,
    PathEnd,
    RaiseSignal,
    ReturnSignal,
    SBool,
    SInt,
    Sym,
    Unsupported,
    has_sym,
)

REPO = os.environ.get("PYVC_REPO", "/repo")
PKG = "signac"


# ----------------------------------------------------------------------------- repo source index


class RepoFunc:
    def __init__(self, qual, node, module, cls=None):
        self.qual, self.node, self.module, self.cls = qual, node, module, cls
        self.is_generator = _has_yield(node)
        self.decorators = [ast.unparse(d) for d in node.decorator_list]

    def __repr__(self):
        return f"<repo {self.qual}>"


class RepoClass:
    def __init__(self, qual, node, module, real):
        self.qual, self.node, self.module, self.real = qual, node, module, real
        self.methods, self.props, self.setters = {}, {}, {}
        self.name = node.name

    def __repr__(self):
        return f"<repoclass {self.qual}>"


class Closure:
    """A nested def / lambda of /repo code, bound to its defining frame."""

    def __init__(self, node, frame, qual):
        self.node, self.frame, self.qual = node, frame, qual
        self.is_generator = not isinstance(node, ast.Lambda) and _has_yield(node)


class BoundMethod:
    def __init__(self, func, selfobj):
        self.func, self.selfobj = func, selfobj


class Obj:
    """Heap object of a /repo class: concrete identity, field values concrete or symbolic."""

    def __init__(self, cls, **fields):
        self.cls, self.fields = cls, dict(fields)
        self.tag = None

    def __repr__(self):
        return f"<Obj {self.cls.name}#{self.tag or hex(id(self))[-4:]}>"


class DictView:
    """`obj.__dict__` of an Obj."""

    def __init__(self, o):
        self.o = o


class Frame:
    def __init__(self, module, parent=None, func_qual="<module>"):
        self.vars, self.module, self.parent, self.func_qual = {}, module, parent, func_qual
        self.nonlocals, self.globals_ = set(), set()
        self.yielded = None
        self.yield_hook = None
        self.active_exc = None
        self.selfobj = None
        self.cls = None
        self.loop_ord = 0


def _has_yield(node):
    for n in _walk_same_scope(node):
        if isinstance(n, (ast.Yield, ast.YieldFrom)):
            return True
    return False


def _walk_same_scope(fn):
    """Walk the body of fn without descending into nested function definitions."""
    todo = list(fn.body) if isinstance(fn.body, list) else [fn.body]
    while todo:
        n = todo.pop()
        yield n
        for c in ast.iter_child_nodes(n):
            if isinstance(c, (ast.FunctionDef, ast.AsyncFunctionDef, ast.Lambda, ast.ClassDef)):
                continue
            todo.append(c)


def assigned_names(stmts):
    """Names (re)bound by these statements, not descending into nested defs."""
    out = set()

    def targets(t):
        if isinstance(t, ast.Name):
            out.add(t.id)
        elif isinstance(t, (ast.Tuple, ast.List)):
            for e in t.elts:
                targets(e)
        elif isinstance(t, ast.Starred):
            targets(t.value)

    class V(ast.NodeVisitor):
        def visit_FunctionDef(self, n):
            out.add(n.name)

        def visit_Lambda(self, n):
            pass

        def visit_Assign(self, n):
            for t in n.targets:
                targets(t)
            self.generic_visit(n)

        def visit_AugAssign(self, n):
            targets(n.target)
            self.generic_visit(n)

        def visit_AnnAssign(self, n):
            targets(n.target)
            self.generic_visit(n)

        def visit_For(self, n):
            targets(n.target)
            self.generic_visit(n)

        def visit_With(self, n):
            for it in n.items:
                if it.optional_vars is not None:
                    targets(it.optional_vars)
            self.generic_visit(n)

        def visit_NamedExpr(self, n):
            targets(n.target)
            self.generic_visit(n)

        def visit_ExceptHandler(self, n):
            if n.name:
                out.add(n.name)
            self.generic_visit(n)

        def visit_Import(self, n):
            for a in n.names:
                out.add((a.asname or a.name).split(".")[0])

        def visit_ImportFrom(self, n):
            for a in n.names:
                out.add(a.asname or a.name)

    for s in stmts:
        V().visit(s)
    return out


def called_names(stmts):
    out = set()
    for s in stmts:
        for n in ast.walk(s):
            if isinstance(n, ast.Call) and isinstance(n.func, ast.Name):
                out.add(n.func.id)
    return out


class Repo:
    """All /repo modules parsed from the working tree on this run."""

    def __init__(self, root=REPO):
        self.root = root
        self.executed = set()
        self.modules = {}  # modname -> dict(tree, real, funcs, classes, src)
        if root not in sys.path:
            sys.path.insert(0, root)
        for dirpath, dirs, files in os.walk(os.path.join(root, PKG)):
            dirs[:] = [d for d in dirs if d not in ("_vendor", "__pycache__")]
            for f in files:
                if f.endswith(".py"):
                    path = os.path.join(dirpath, f)
                    rel = os.path.relpath(path, root)[:-3].replace(os.sep, ".")
                    if rel.endswith(".__init__"):
                        rel = rel[: -len(".__init__")]
                    self.modules[rel] = {"path": path}
        self.funcs, self.classes = {}, {}

    def load(self, modname):
        m = self.modules[modname]
        if "tree" in m:
            return m
        src = open(m["path"]).read()
        m["src"] = src
        m["tree"] = ast.parse(src)
        m["real"] = importlib.import_module(modname)
        m["name"] = modname
        for n in m["tree"].body:
            self._index(n, modname, m)
        return m

    def _index(self, n, modname, m):
        if isinstance(n, ast.FunctionDef):
            self.funcs[f"{modname}.{n.name}"] = RepoFunc(f"{modname}.{n.name}", n, modname)
        elif isinstance(n, ast.ClassDef):
            real = getattr(m["real"], n.name, None)
            rc = RepoClass(f"{modname}.{n.name}", n, modname, real)
            self.classes[rc.qual] = rc
            for b in n.body:
                if isinstance(b, ast.FunctionDef):
                    decs = [ast.unparse(d) for d in b.decorator_list]
                    rf = RepoFunc(f"{rc.qual}.{b.name}", b, modname, rc)
                    if "property" in decs:
                        rc.props[b.name] = rf
                    elif any(d.endswith(".setter") for d in decs):
                        rf.qual += ".setter"
                        rc.setters[b.name] = rf
                    else:
                        rc.methods[b.name] = rf
                    self.funcs[rf.qual] = rf
                elif isinstance(b, ast.ClassDef):
                    # nested class (e.g. DocSync.ByKey): index under Outer.Inner
                    real_in = getattr(real, b.name, None) if real is not None else None
                    rin = RepoClass(f"{rc.qual}.{b.name}", b, modname, real_in)
                    self.classes[rin.qual] = rin
                    for bb in b.body:
                        if isinstance(bb, ast.FunctionDef):
                            rf = RepoFunc(f"{rin.qual}.{bb.name}", bb, modname, rin)
                            rin.methods[bb.name] = rf
                            self.funcs[rf.qual] = rf
        elif isinstance(n, (ast.If, ast.Try)):
            for b in ast.iter_child_nodes(n):
                if isinstance(b, (ast.FunctionDef, ast.ClassDef)):
                    self._index(b, modname, m)

    def load_all(self):
        for k in list(self.modules):
            try:
                self.load(k)
            except Exception as e:  # a module that cannot be imported is simply not available
                self.modules[k]["error"] = repr(e)

    def func(self, qual):
        if qual not in self.funcs:
            mod = qual
            while "." in mod:
                mod = mod.rsplit(".", 1)[0]
                if mod in self.modules:
                    self.load(mod)
                    break
        return self.funcs.get(qual)

    def executed_hash(self):
        """hash over the source of every /repo function whose body was executed since the repo view was created (target, inlined callees)"""
        parts = []
        for q in sorted(self.executed):
            h = self.source_hash(q) if q in self.funcs else None
            if h:
                parts.append(f"{q}:{h}")
        return hashlib.sha256("|".join(parts).encode()).hexdigest()[:16]

    def source_hash(self, qual):
        f = self.func(qual)
        if f is None:
            return None
        seg = ast.get_source_segment(self.modules[f.module]["src"], f.node) or ""
        return hashlib.sha256(seg.encode()).hexdigest()[:16]

    def wrap_real(self, v):
        """Map a real function/class object defined in /repo to its RepoFunc/RepoClass."""
        mod = getattr(v, "__module__", None)
        if isinstance(mod, str) and (mod == PKG or mod.startswith(PKG + ".")) and "_vendor" not in mod and mod in self.modules:
            self.load(mod)
            qn = getattr(v, "__qualname__", None)
            if qn:
                q = f"{mod}.{qn}"
                if isinstance(v, type) and q in self.classes:
                    return self.classes[q]
                if isinstance(v, types.FunctionType) and q in self.funcs:
                    return self.funcs[q]
        return v


PURE_MODULES = {"re", "operator", "math", "json", "itertools", "collections", "copy", "errno", "string", "numbers",
                "posixpath", "functools", "collections.abc", "hashlib", "_hashlib", "_operator", "_json", "json.encoder",
                "json.decoder", "_collections_abc", "abc", "typing", "types", "_md5", "textwrap", "pprint", "shlex", "textwrap", "string", "fnmatch"}
IMPURE_NAMES = {"open", "input", "print", "exec", "eval", "compile", "__import__", "breakpoint", "exit", "quit"}
PURE_OSPATH = {"join", "dirname", "basename", "split", "splitext", "normpath", "isabs", "commonprefix"}


def is_pure_native(f):
    """May this real callable be evaluated by CPython on concrete arguments?"""
    if isinstance(f, type):
        mod = getattr(f, "__module__", "")
        return mod == "builtins" or mod in PURE_MODULES or issubclass(f, BaseException) or mod.startswith("signac") or mod.startswith("synced_collections.errors")
    name = getattr(f, "__name__", "")
    mod = getattr(f, "__module__", None)
    slf = getattr(f, "__self__", None)
    if slf is not None and not isinstance(slf, types.ModuleType):
        t = type(slf)
        if t.__module__ == "builtins" or t.__module__ in PURE_MODULES or t.__module__ in ("re", "_sre"):
            return True
        if isinstance(slf, type) and slf.__module__ == "builtins":  # dict.fromkeys, set.intersection, ...
            return True
        if isinstance(slf, logging.Logger):
            return False
        return False
    if mod == "builtins" or (isinstance(slf, types.ModuleType) and slf.__name__ == "builtins"):
        return name not in IMPURE_NAMES
    if mod in ("posixpath", "ntpath", "genericpath"):
        return name in PURE_OSPATH
    if mod in PURE_MODULES:
        return True
    if isinstance(f, (types.MethodDescriptorType, types.WrapperDescriptorType, types.BuiltinFunctionType)):
        oc = getattr(f, "__objclass__", None)
        if oc is not None and oc.__module__ == "builtins":
            return True
    return False


_BINOPS = {"Add": operator.add, "Sub": operator.sub, "Mult": operator.mul, "Div": operator.truediv, "Mod": operator.mod,
           "FloorDiv": operator.floordiv, "BitOr": operator.or_, "BitAnd": operator.and_, "Pow": operator.pow}
_CMPOPS = {"Lt": operator.lt, "LtE": operator.le, "Gt": operator.gt, "GtE": operator.ge}


class Interp:
    """Interpreter bound to one Ex (path) and one verification context `ctx`."""

    MAX_UNROLL = 40

    def __init__(self, repo, ex, ctx):
        self.repo, self.ex, self.ctx = repo, ex, ctx
        self.depth = 0
        self.heap_writes = []

    # ------------------------------------------------------------------ names
    def module_global(self, modname, name):
        m = self.repo.load(modname)
        ov = self.ctx.global_override(modname, name)
        if ov is not NotImplemented:
            return ov
        real = m["real"]
        if hasattr(real, name):
            return self.repo.wrap_real(getattr(real, name))
        if hasattr(builtins, name):
            return getattr(builtins, name)
        raise RaiseSignal(NameError(name))

    def lookup(self, frame, name):
        f = frame
        while f is not None:
            if name in f.vars:
                v = f.vars[name]
                if isinstance(v, ScratchPoison):
                    # a name the sidecar invariant declared loop-local is read before the body assigned it: it carries a value from the
                    # previous iteration (or from before the loop), which the cut-loop rule does not know
                    raise Unsupported(f"`{name}` is read in the body of loop `{v.loop}` before it is assigned there: it is live across iterations, not scratch")
                return v
            f = f.parent
        return self.module_global(frame.module, name)

    def assign_name(self, frame, name, v):
        if name in frame.nonlocals:
            f = frame.parent
            while f is not None and name not in f.vars:
                f = f.parent
            if f is None:
                raise Unsupported(f"nonlocal {name} not found")
            f.vars[name] = v
            return
        if name in frame.globals_:
            raise Unsupported("assignment to a global")
        frame.vars[name] = v

    # ------------------------------------------------------------------ expressions
    def ev(self, n, fr):
        m = getattr(self, "ev_" + type(n).__name__, None)
        if m is None:
            raise Unsupported(f"expression {type(n).__name__}: {ast.unparse(n)[:60]}")
        return m(n, fr)

    def ev_Constant(self, n, fr):
        return n.value

    def ev_Name(self, n, fr):
        if n.id == "super":
            return NativeStub(lambda: self.make_super(fr), "super")
        return self.lookup(fr, n.id)

    def ev_Tuple(self, n, fr):
        return tuple(self._elts(n.elts, fr))

    def ev_List(self, n, fr):
        return list(self._elts(n.elts, fr))

    def _elts(self, elts, fr):
        out = []
        for e in elts:
            if isinstance(e, ast.Starred):
                out.extend(self.iterate(self.ev(e.value, fr), fr, e))
            else:
                out.append(self.ev(e, fr))
        return out

    def ev_Set(self, n, fr):
        vals = self._elts(n.elts, fr)
        if has_sym(vals):
            return self.ctx.make_set(self.ex, vals)
        return set(vals)

    def ev_Dict(self, n, fr):
        d = {}
        for k, v in zip(n.keys, n.values):
            if k is None:
                d.update(self.ev(v, fr))
            else:
                kk = self.ev(k, fr)
                if isinstance(kk, Sym) and not kk.sym_hashable():
                    return self.ctx.make_dict(self.ex, [(self.ev(k2, fr), self.ev(v2, fr)) for k2, v2 in zip(n.keys, n.values)])
                d[kk] = self.ev(v, fr)
        return d

    def ev_JoinedStr(self, n, fr):
        parts, sym = [], False
        for v in n.values:
            if isinstance(v, ast.Constant):
                parts.append(v.value)
            else:
                x = self.ev(v.value, fr)
                if isinstance(x, (Sym, Obj)) or has_sym(x):
                    sym = True
                else:
                    try:
                        spec = "" if v.format_spec is None else self.ev(v.format_spec, fr)
                        if isinstance(spec, Sym):
                            sym = True
                            continue
                        conv = {-1: lambda a: a, 115: str, 114: repr, 97: ascii}[v.conversion]
                        parts.append(format(conv(x), spec))
                    except RaiseSignal:
                        raise
                    except Exception:
                        sym = True
        return OpaqueStr() if sym else "".join(parts)

    def ev_FormattedValue(self, n, fr):
        return self.ev(n.value, fr)

    def ev_Lambda(self, n, fr):
        return Closure(n, fr, fr.func_qual + ".<lambda>")

    def ev_IfExp(self, n, fr):
        return self.ev(n.body, fr) if self.truth(self.ev(n.test, fr), n.test) else self.ev(n.orelse, fr)

    def ev_NamedExpr(self, n, fr):
        v = self.ev(n.value, fr)
        self.assign_name(fr, n.target.id, v)
        return v

    def ev_Starred(self, n, fr):
        raise Unsupported("starred outside call/display")

    def ev_BoolOp(self, n, fr):
        is_and = isinstance(n.op, ast.And)
        v = None
        for e in n.values:
            v = self.ev(e, fr)
            t = self.truth(v, e)
            if is_and and not t:
                return v
            if not is_and and t:
                return v
        return v

    def ev_UnaryOp(self, n, fr):
        v = self.ev(n.operand, fr)
        if isinstance(n.op, ast.Not):
            if isinstance(v, Sym):
                t = v.sym_truth(self.ex)
                return (not t) if isinstance(t, bool) else SBool(z3.Not(t))
            return not self.truth(v, n.operand)
        if isinstance(v, Sym):
            if isinstance(n.op, ast.USub) and isinstance(v, SInt):
                return SInt(-v.e)
            raise Unsupported("unary op on symbolic")
        return {ast.USub: operator.neg, ast.UAdd: operator.pos, ast.Invert: operator.invert}[type(n.op)](v)

    def ev_BinOp(self, n, fr):
        l, r = self.ev(n.left, fr), self.ev(n.right, fr)
        return self.binop(type(n.op).__name__, l, r)

    def binop(self, op, l, r):
        if isinstance(l, Sym):
            return l.sym_binop(self.ex, op, r)
        if isinstance(r, Sym):
            return r.sym_binop(self.ex, op, l, reflected=True)
        if isinstance(l, Obj) or isinstance(r, Obj):
            raise Unsupported(f"binop {op} on heap object")
        return self.native(_BINOPS[op], [l, r], {})

    def ev_Compare(self, n, fr):
        left = self.ev(n.left, fr)
        result = True
        for op, c in zip(n.ops, n.comparators):
            right = self.ev(c, fr)
            v = self.compare(type(op).__name__, left, right)
            if len(n.ops) == 1:
                return v
            if not self.truth(v, n):
                return False
            result = v
            left = right
        return result

    def py_eq(self, l, r):
        if isinstance(l, Sym):
            return l.sym_eq(self.ex, r)
        if isinstance(r, Sym):
            return r.sym_eq(self.ex, l)
        if isinstance(l, Obj) or isinstance(r, Obj):
            return self.obj_eq(l, r)
        if has_sym(l) or has_sym(r):
            if isinstance(l, (tuple, list)) and type(l) is type(r):
                if len(l) != len(r):
                    return False
                acc = True
                for a, b in zip(l, r):
                    e = self.py_eq(a, b)
                    if e is False:
                        return False
                    if e is not True:
                        acc = e if acc is True else SBool(z3.And(acc.e, e.e))
                return acc
            raise Unsupported("== between containers with symbolic content")
        return l == r

    def obj_eq(self, l, r):
        if l is r:
            return True
        o = l if isinstance(l, Obj) else r
        eq = self.find_member(o.cls, "__eq__")
        if eq is None:
            return l is r
        v = self.call(BoundMethod(eq, o), [r if o is l else l], {})
        if v is NotImplemented:
            return False
        return v

    def compare(self, op, l, r):
        if op == "Is":
            return self.identical(l, r)
        if op == "IsNot":
            v = self.identical(l, r)
            return (not v) if isinstance(v, bool) else SBool(z3.Not(v.e))
        if op == "Eq":
            return self.py_eq(l, r)
        if op == "NotEq":
            v = self.py_eq(l, r)
            return (not v) if isinstance(v, bool) else SBool(z3.Not(v.sym_truth(self.ex)))
        if op in ("In", "NotIn"):
            v = self.contains(r, l)
            if op == "In":
                return v
            return (not v) if isinstance(v, bool) else SBool(z3.Not(v.sym_truth(self.ex)))
        if isinstance(l, Sym):
            return l.sym_compare(self.ex, op, r)
        if isinstance(r, Sym):
            return r.sym_compare(self.ex, op, l, reflected=True)
        return self.native(_CMPOPS[op], [l, r], {})

    def identical(self, l, r):
        for a, b in ((l, r), (r, l)):
            if isinstance(a, Sym) and hasattr(a, "sym_is"):
                return a.sym_is(self.ex, b)
        if isinstance(l, Sym) or isinstance(r, Sym):
            if l is r:
                return True
            if l is None or r is None or isinstance(l, (bool, type)) or isinstance(r, (bool, type)):
                return False  # a symbolic value of a non-None abstract type is never None/True/False/a class
            raise Unsupported(f"`is` between {type(l).__name__} and {type(r).__name__}")
        return l is r

    def contains(self, container, x):
        if isinstance(container, Sym):
            return container.sym_contains(self.ex, x)
        if isinstance(container, Obj):
            m = self.find_member(container.cls, "__contains__")
            if m is None:
                return self.ctx.dep_call(self, container, "__contains__", [x], {})
            return self.call(BoundMethod(m, container), [x], {})
        if isinstance(container, DictView):
            return x in container.o.fields
        if isinstance(x, (Sym, Obj)) or has_sym(x) or has_sym(container):
            if isinstance(container, (tuple, list, set, frozenset)):
                acc = []
                for c in container:
                    e = self.py_eq(x, c)
                    if e is True:
                        return True
                    if e is not False:
                        acc.append(e.sym_truth(self.ex))
                return SBool(z3.Or(*acc)) if acc else False
            if isinstance(container, dict):
                return self.contains(tuple(container.keys()), x)
            if isinstance(container, str) and isinstance(x, Sym):
                return x.sym_compare(self.ex, "InStr", container)
            raise Unsupported(f"`in` with symbolic element on {type(container).__name__}")
        return self.native(operator.contains, [container, x], {})

    def ev_Attribute(self, n, fr):
        return self.getattr(self.ev(n.value, fr), n.attr)

    def ev_Subscript(self, n, fr):
        o = self.ev(n.value, fr)
        k = self.ev_slice(n.slice, fr)
        return self.getitem(o, k)

    def ev_slice(self, s, fr):
        if isinstance(s, ast.Slice):
            return slice(*(None if p is None else self.ev(p, fr) for p in (s.lower, s.upper, s.step)))
        return self.ev(s, fr)

    def ev_Slice(self, n, fr):
        return self.ev_slice(n, fr)

    def getitem(self, o, k):
        if isinstance(o, Sym):
            return o.sym_getitem(self.ex, k)
        if isinstance(o, Obj):
            m = self.find_member(o.cls, "__getitem__")
            if m is not None:
                return self.call(BoundMethod(m, o), [k], {})
            return self.ctx.dep_call(self, o, "__getitem__", [k], {})
        if isinstance(o, DictView):
            return o.o.fields[k]
        if isinstance(k, Sym) or (isinstance(k, slice) and has_sym([k.start, k.stop, k.step])):
            return self.ctx.sym_index(self.ex, o, k)
        return self.native(operator.getitem, [o, k], {})

    def ev_Call(self, n, fr):
        # logging / warnings / print: arguments are evaluated (arity & name errors surface), effect ignored
        f = self.ev(n.func, fr)
        is_log = isinstance(getattr(f, "__self__", None), logging.Logger)
        if not is_log and isinstance(n.func, ast.Attribute) and isinstance(n.func.value, ast.Name):
            try:
                is_log = isinstance(self.ev(n.func.value, fr), logging.Logger)       # logger.more(...): a /repo helper hung on the logger object
            except Signal_types:
                is_log = False
        if is_log:
            # a logging call: its arguments are evaluated for arity / name errors only; anything in them that the interpreter cannot
            # execute (string formatting over symbolic values) cannot influence the program
            try:
                for a in n.args:
                    self.ev(a.value if isinstance(a, ast.Starred) else a, fr)
            except Unsupported:
                pass
            return None
        args, kw = [], {}
        for a in n.args:
            if isinstance(a, ast.Starred):
                args.extend(self.iterate(self.ev(a.value, fr), fr, a))
            else:
                args.append(self.ev(a, fr))
        for k in n.keywords:
            if k.arg is None:
                d = self.ev(k.value, fr)
                if isinstance(d, DictView):
                    d = d.o.fields
                if isinstance(d, Sym):
                    d = self.ctx.kwargs_of(self.ex, d)
                kw.update(d)
            else:
                kw[k.arg] = self.ev(k.value, fr)
        return self.call(f, args, kw, node=n, frame=fr)

    def _comp(self, gens, fr, emit):
        if not gens:
            emit(fr)
            return
        g = gens[0]
        for x in self.iterate(self.ev(g.iter, fr), fr, g.iter):
            self.assign_target(g.target, x, fr)
            if all(self.truth(self.ev(c, fr), c) for c in g.ifs):
                self._comp(gens[1:], fr, emit)

    def _comp_frame(self, fr):
        f = Frame(fr.module, fr, fr.func_qual)
        f.selfobj, f.cls = fr.selfobj, fr.cls
        return f

    def ev_ListComp(self, n, fr):
        out = []
        hook = self.ctx.comprehension(self, n, fr)
        if hook is not NotImplemented:
            return hook
        self._comp(n.generators, self._comp_frame(fr), lambda f: out.append(self.ev(n.elt, f)))
        return out

    ev_GeneratorExp = ev_ListComp

    def ev_SetComp(self, n, fr):
        hook = self.ctx.comprehension(self, n, fr)
        if hook is not NotImplemented:
            return hook
        out = []
        self._comp(n.generators, self._comp_frame(fr), lambda f: out.append(self.ev(n.elt, f)))
        if has_sym(out):
            return self.ctx.make_set(self.ex, out)
        return set(out)

    def ev_DictComp(self, n, fr):
        hook = self.ctx.comprehension(self, n, fr)
        if hook is not NotImplemented:
            return hook
        out = {}
        self._comp(n.generators, self._comp_frame(fr), lambda f: out.__setitem__(self.ev(n.key, f), self.ev(n.value, f)))
        return out

    def ev_Yield(self, n, fr):
        v = None if n.value is None else self.ev(n.value, fr)
        return self.do_yield(fr, v)

    def do_yield(self, fr, v):
        f = fr
        while f is not None and f.yielded is None and f.yield_hook is None:
            f = f.parent if f.func_qual == (f.parent.func_qual if f.parent else None) else None
        if f is None:
            raise Unsupported("yield outside generator frame")
        if f.yield_hook is not None:
            return f.yield_hook(v)
        f.yielded.append(v)
        return None

    def ev_YieldFrom(self, n, fr):
        v = self.ev(n.value, fr)
        if isinstance(v, Sym) and hasattr(v, "sym_yield_from"):
            # a whole symbolic sequence passed on at once: one batch element (the value decides how it presents itself)
            for x in v.sym_yield_from(self):
                self.do_yield(fr, x)
            return None
        for x in self.iterate(v, fr, n.value):
            self.do_yield(fr, x)
        return None

    # ------------------------------------------------------------------ truth / iteration
    def truth(self, v, node=None):
        label = ast.unparse(node)[:48] if node is not None else ""
        if isinstance(v, Obj):
            for nm in ("__bool__", "__len__"):
                m = self.find_member(v.cls, nm)
                if m is not None:
                    return self.truth(self.call(BoundMethod(m, v), [], {}), node)
            r = self.ctx.dep_truth(self, v)
            if r is not NotImplemented:
                return self.truth(r, node)
            return True
        if isinstance(v, DictView):
            return bool(v.o.fields)
        return self.ex.truth(v, label)

    def iterate(self, it, fr, node=None):
        """Iteration for unrolled contexts (comprehensions, star-args, yield from): must be concrete-length."""
        if isinstance(it, Sym):
            r = it.sym_iter(self.ex)
            if isinstance(r, CutSeq):
                raise Unsupported(f"symbolic-length iteration outside a contracted loop: {ast.unparse(node)[:50] if node else ''}")
            return r
        if isinstance(it, Obj):
            m = self.find_member(it.cls, "__iter__")
            if m is not None:
                return self.iterate(self.call(BoundMethod(m, it), [], {}), fr, node)
            return self.iterate(self.ctx.dep_call(self, it, "__iter__", [], {}), fr, node)
        if isinstance(it, DictView):
            return list(it.o.fields)
        if isinstance(it, (list, tuple, dict, set, frozenset, str, range, type({}.keys()), type({}.values()), type({}.items()), bytes)):
            return list(it)
        try:
            out = []
            for x in it:
                out.append(x)
                if len(out) > 10000:
                    raise Unsupported("iteration too long")
            return out
        except TypeError as e:
            raise RaiseSignal(e)

    # ------------------------------------------------------------------ attributes
    def find_member(self, cls, name, kinds=("methods",)):
        """Look `name` up along the /repo part of the MRO."""
        for c in self.repo_mro(cls):
            for k in kinds:
                if name in getattr(c, k):
                    return getattr(c, k)[name]
        return None

    def repo_mro(self, cls):
        out = [cls]
        if cls.real is not None:
            for b in cls.real.__mro__[1:]:
                w = self.repo.wrap_real(b)
                if isinstance(w, RepoClass):
                    out.append(w)
        return out

    def getattr(self, o, name):
        if isinstance(o, Sym):
            return o.sym_getattr(self.ex, name)
        if isinstance(o, Obj):
            return self.obj_getattr(o, name)
        if isinstance(o, RepoClass):
            m = self.find_member(o, name)
            if m is not None:
                if "classmethod" in m.decorators:
                    return BoundMethod(m, o)
                return m  # staticmethod or plain function accessed on the class
            for b in o.node.body:  # nested classes
                if isinstance(b, ast.ClassDef) and b.name == name:
                    return self.repo.classes[f"{o.qual}.{name}"]
            if name == "__new__" and (o.real is None or getattr(o.real, "__new__", None) is object.__new__):
                # cls.__new__(cls): a bare, uninitialised instance (no /repo __new__ in the MRO: checked by find_member above)
                def bare(c, *a, **k):
                    if not isinstance(c, RepoClass):
                        raise Unsupported("__new__ of a class outside /repo")
                    return Obj(c)
                return NativeStub(bare, f"{o.name}.__new__")
            if o.real is not None and hasattr(o.real, name):
                return self.repo.wrap_real(getattr(o.real, name))
            raise RaiseSignal(AttributeError(name))
        if isinstance(o, SuperProxy):
            return o.member(self, name)
        if isinstance(o, DictView):
            return NativeStub(lambda *a, **k: self.dictview_method(o, name, a, k), f"__dict__.{name}")
        if isinstance(o, (Closure, BoundMethod, RepoFunc)):
            if name == "__name__":
                return (o.func.node.name if isinstance(o, BoundMethod) else getattr(o.node, "name", "<lambda>"))
            raise Unsupported(f"attribute {name} of function")
        if isinstance(o, types.ModuleType):
            ov = self.ctx.global_override(o.__name__, name)
            if ov is not NotImplemented:
                return ov
        try:
            v = getattr(o, name)
        except AttributeError as e:
            raise RaiseSignal(e)
        return self.repo.wrap_real(v) if isinstance(v, (type, types.FunctionType)) else v

    def dictview_method(self, dv, name, a, k):
        f = dv.o.fields
        if name == "update":
            (other,) = a
            src = other.o.fields if isinstance(other, DictView) else other
            for kk, vv in dict(src).items():
                self.obj_setattr(dv.o, kk, vv, raw=True)
            return None
        if name in ("items", "keys", "values", "get", "copy"):
            return getattr(dict(f), name)(*a, **k)
        if name == "setdefault" and 1 <= len(a) <= 2 and not k and isinstance(a[0], str):
            if a[0] not in f:
                self.obj_setattr(dv.o, a[0], a[1] if len(a) == 2 else None, raw=True)
            return f[a[0]]
        raise Unsupported(f"__dict__.{name}")

    def obj_getattr(self, o, name):
        if name in o.fields:
            return o.fields[name]
        if name == "__dict__":
            return DictView(o)
        if name == "__class__":
            return o.cls
        hook = self.ctx.obj_getattr(self, o, name)
        if hook is not NotImplemented:
            return hook
        for c in self.repo_mro(o.cls):
            if name in c.props:
                return self.call(BoundMethod(c.props[name], o), [], {})
            if name in c.methods:
                m = c.methods[name]
                if "staticmethod" in m.decorators:
                    return m
                if "classmethod" in m.decorators:
                    return BoundMethod(m, o.cls)
                return BoundMethod(m, o)
            for b in c.node.body:
                if isinstance(b, ast.Assign) and any(isinstance(t, ast.Name) and t.id == name for t in b.targets):
                    if c.real is not None and name in vars(c.real):
                        return self.repo.wrap_real(vars(c.real)[name])
                if isinstance(b, ast.ClassDef) and b.name == name:
                    return self.repo.classes[f"{c.qual}.{name}"]
        real = o.cls.real
        if real is not None and all(b is object or isinstance(self.repo.wrap_real(b), RepoClass) for b in real.__mro__[1:]) \
                and self.find_member(o.cls, "__getattr__") is None and not hasattr(object, name):
            # every base class is /repo code (or object) and none defines __getattr__: the attribute does not exist
            raise RaiseSignal(AttributeError(f"'{o.cls.name}' object has no attribute '{name}'"))
        return self.ctx.dep_getattr(self, o, name)

    def obj_setattr(self, o, name, v, raw=False):
        if not raw:
            for c in self.repo_mro(o.cls):
                if name in c.setters:
                    return self.call(BoundMethod(c.setters[name], o), [v], {})
                if name in c.props:
                    raise RaiseSignal(AttributeError(f"can't set attribute {name}"))
            hook = self.ctx.obj_setattr(self, o, name, v)
            if hook is not NotImplemented:
                return
        self.heap_writes.append((o, name))
        o.fields[name] = v

    def setattr(self, o, name, v):
        if isinstance(o, Obj):
            return self.obj_setattr(o, name, v)
        if isinstance(o, Sym):
            return o.sym_setattr(self.ex, name, v)
        raise Unsupported(f"setattr on {type(o).__name__}")

    def make_super(self, fr):
        if fr.selfobj is None or fr.cls is None:
            raise Unsupported("super() outside a method")
        return SuperProxy(fr.selfobj, fr.cls)

    # ------------------------------------------------------------------ calls
    def native(self, f, args, kw):
        try:
            return f(*args, **kw)
        except Signal_types:
            raise
        except Exception as e:
            raise RaiseSignal(e)

    def call(self, f, args, kw, node=None, frame=None):
        self.depth += 1
        if self.depth > 60:
            raise Unsupported("call depth")
        try:
            return self._call(f, args, kw, node, frame)
        finally:
            self.depth -= 1

    def _call(self, f, args, kw, node, frame):
        ex = self.ex
        if isinstance(f, NativeStub):
            return f.f(self, *args, **kw) if f.wants_ex else f.f(*args, **kw)
        if isinstance(f, BoundMethod):
            if isinstance(f.func, RepoFunc):
                return self.call_repo(f.func, [f.selfobj] + list(args), kw, f.selfobj)
            return self._call(f.func, [f.selfobj] + list(args), kw, node, frame)
        if isinstance(f, RepoFunc):
            return self.call_repo(f, list(args), kw, None)
        if isinstance(f, Closure):
            return self.run_function(f.node, f.qual, f.frame.module, list(args), kw, parent=f.frame, is_gen=f.is_generator,
                                     selfobj=f.frame.selfobj, cls=f.frame.cls)
        if isinstance(f, RepoClass):
            return self.instantiate(f, args, kw)
        if isinstance(f, Sym):
            return f.sym_call(ex, args, kw)
        if isinstance(f, Obj):
            m = self.find_member(f.cls, "__call__")
            if m is None:
                return self.ctx.dep_call(self, f, "__call__", list(args), kw)
            return self.call(BoundMethod(m, f), args, kw)
        # ---- real Python callables
        if isinstance(f, (types.FunctionType, type)):
            w = self.repo.wrap_real(f)       # a /repo function reached through a data structure (e.g. a dispatch dict)
            if w is not f:
                return self._call(w, args, kw, node, frame)
        model = self.ctx.external(f)
        if model is not None:
            return model(self, *args, **kw)
        ov = self.ctx.native_override(self, f, args, kw)
        if ov is not NotImplemented:
            return ov
        slf = getattr(f, "__self__", None)
        if isinstance(slf, logging.Logger) or f in (print,) or getattr(f, "__module__", None) == "warnings":
            return None
        if isinstance(slf, Sym):
            raise Unsupported(f"bound native method on symbolic {f}")
        if f is isinstance and len(args) == 2 and not kw and (isinstance(args[1], RepoClass) or (isinstance(args[1], tuple) and any(isinstance(c, RepoClass) for c in args[1]))):
            return self.isinstance_(args[0], args[1])      # a native value tested against a /repo class
        sym_args = has_sym(args) or has_sym(kw) or any(isinstance(a, (Obj, Closure, BoundMethod, RepoFunc, DictView)) for a in list(args) + list(kw.values()))
        if sym_args:
            r = self.builtin_on_symbolic(f, args, kw, frame)
            if r is not NotImplemented:
                return r
            raise Unsupported(f"native call {getattr(f, '__qualname__', f)} with symbolic/heap arguments")
        if is_pure_native(f):
            return self.native(f, args, kw)
        raise Unsupported(f"impure or unknown native call: {getattr(f, '__module__', '?')}.{getattr(f, '__qualname__', f)}")

    def builtin_on_symbolic(self, f, args, kw, frame):
        ex = self.ex
        a0 = args[0] if args else None
        if f is len:
            if isinstance(a0, Sym):
                return a0.sym_len(ex)
            if isinstance(a0, Obj):
                m = self.find_member(a0.cls, "__len__")
                if m is not None:
                    return self.call(BoundMethod(m, a0), [], {})
                return self.ctx.dep_call(self, a0, "__len__", [], {})
            return len(a0)
        if f is isinstance:
            return self.isinstance_(a0, args[1])
        if f is bool:
            t = self.truth(a0)
            return t
        if f is type and len(args) == 1:
            if isinstance(a0, Obj):
                return a0.cls
            if isinstance(a0, Sym):
                return a0.sym_type(ex)
        if f is str and len(args) == 1:
            if isinstance(a0, Obj):
                m = self.find_member(a0.cls, "__str__")
                if m is not None:
                    return self.call(BoundMethod(m, a0), [], {})
                return OpaqueStr()
            if isinstance(a0, Sym):
                return a0.sym_str(ex)
        if f is repr:
            return OpaqueStr()
        if f in (list, tuple) and len(args) == 1:
            if isinstance(a0, Sym):
                r = a0.sym_iter(ex)
                if isinstance(r, CutSeq):
                    return self.ctx.listify(ex, a0, f)
                return f(r)
            return f(self.iterate(a0, frame))
        if f is set and len(args) == 1:
            if isinstance(a0, Sym) or isinstance(a0, Obj):
                return self.ctx.setify(self, a0)
            return self.ctx.make_set(ex, list(a0))
        if f is dict:
            if len(args) == 1 and isinstance(a0, (Sym, Obj, DictView)):
                if isinstance(a0, DictView):
                    return dict(a0.o.fields)
                return self.ctx.dictify(self, a0)
            return dict(*args, **kw)
        if f in (iter,) and len(args) == 1:
            if isinstance(a0, Sym):
                return self.ctx.iter_of(self, a0)
            return iter(self.iterate(a0, frame))
        if f is next:
            if isinstance(a0, Sym):
                return self.ctx.next_of(self, a0, args[1:])
            try:
                return next(*args)
            except StopIteration as e:
                raise RaiseSignal(e)
        if f is getattr:
            try:
                return self.getattr(a0, args[1])
            except RaiseSignal as r:
                if isinstance(r.exc, AttributeError) and len(args) > 2:
                    return args[2]
                raise
        if f is setattr:
            return self.setattr(a0, args[1], args[2])
        if f is hasattr:
            try:
                self.getattr(a0, args[1])
                return True
            except RaiseSignal as r:
                if isinstance(r.exc, AttributeError):
                    return False
                raise
        if f is enumerate:
            start = args[1] if len(args) > 1 else kw.get("start", 0)
            if isinstance(a0, Sym):
                return self.ctx.enumerate_of(self, a0, start)
            return list(enumerate(self.iterate(a0, frame), start))
        if f is any or f is all:
            if isinstance(a0, Sym) and hasattr(a0, "sym_any_all"):
                return a0.sym_any_all(self.ex, f is any)
            vals = self.iterate(a0, frame)
            for v in vals:
                t = self.truth(v)
                if f is any and t:
                    return True
                if f is all and not t:
                    return False
            return f is all
        if f is sorted or f is reversed or f is zip or f is map or f is filter or f is sum or f is min or f is max:
            r = self.ctx.builtin_hook(self, f, args, kw)
            if r is not NotImplemented:
                return r
        if f is callable:
            return isinstance(a0, (Closure, BoundMethod, RepoFunc, RepoClass, NativeStub)) or callable(a0)
        if f is id:
            return id(a0)
        if f is hash and isinstance(a0, Obj):
            m = self.find_member(a0.cls, "__hash__")
            if m is not None:
                return self.call(BoundMethod(m, a0), [], {})
        if isinstance(f, type) and issubclass(f, BaseException):
            try:
                return f(*args, **kw)
            except Exception as e:
                raise RaiseSignal(e)
        if isinstance(f, (types.BuiltinMethodType, types.MethodType)) or type(f).__name__ in ("builtin_function_or_method", "method_descriptor"):
            slf = getattr(f, "__self__", None)
            # methods of concrete containers receiving symbolic *elements* (append, add, update, setdefault, ...)
            if isinstance(slf, list) and f.__name__ in ("append", "extend", "insert", "remove", "index", "count", "pop"):
                if f.__name__ in ("remove", "index", "count"):
                    raise Unsupported(f"list.{f.__name__} with symbolic element")
                if f.__name__ == "extend":
                    slf.extend(self.iterate(a0, frame))
                    return None
                return f(*args)
            if isinstance(slf, dict) and f.__name__ in ("setdefault", "update", "get", "pop", "__setitem__"):
                if has_sym(args[0]) and f.__name__ != "update":
                    raise Unsupported("dict method with symbolic key")
                if f.__name__ == "update" and isinstance(a0, DictView):
                    return slf.update(a0.o.fields)
                return f(*args, **kw)
            if isinstance(slf, str) and f.__name__ == "join":
                return self.ctx.str_join(self, slf, a0)
            if isinstance(slf, str) and f.__name__ == "format":
                return OpaqueStr()
            if isinstance(slf, tuple) and f.__name__ in ("index", "count"):
                raise Unsupported("tuple.index with symbolic element")
        return self.ctx.builtin_hook(self, f, args, kw)

    def isinstance_(self, v, cls):
        if isinstance(cls, tuple):
            acc = []
            for c in cls:
                r = self.isinstance_(v, c)
                if r is True:
                    return True
                if r is not False:
                    acc.append(r.sym_truth(self.ex))
            return SBool(z3.Or(*acc)) if acc else False
        if isinstance(v, Obj):
            if isinstance(cls, RepoClass):
                return any(c is cls for c in self.repo_mro(v.cls))
            if v.cls.real is not None and isinstance(cls, type):
                return issubclass(v.cls.real, cls)
            return False
        if isinstance(cls, RepoClass):
            cls = cls.real
        if isinstance(v, Sym):
            return v.sym_isinstance(self.ex, cls)
        if isinstance(v, (Closure, BoundMethod, RepoFunc)):
            return False
        return isinstance(v, cls)

    def instantiate(self, rc, args, kw):
        hook = self.ctx.instantiate(self, rc, args, kw)
        if hook is not NotImplemented:
            return hook
        if rc.real is not None and isinstance(rc.real, type) and issubclass(rc.real, BaseException):
            if has_sym(args):
                e = rc.real.__new__(rc.real)
                e.args = tuple(args)
                e.sym_args = args
                for c in self.repo_mro(rc):
                    if "__init__" in c.methods:
                        return self.exc_init(e, c.methods["__init__"], args, kw)
                return e
            return self.native(rc.real, args, kw)
        o = Obj(rc)
        init = self.find_member(rc, "__init__")
        if init is not None:
            self.call(BoundMethod(init, o), list(args), kw)
        else:
            self.ctx.dep_init(self, o, args, kw)
        return o

    def exc_init(self, e, initf, args, kw):
        # run the real __init__ of a /repo exception class on the real exception instance (fields only)
        o = Obj(initf.cls)
        self.call_repo(initf, [o] + list(args), kw, o, force_inline=True)
        for k, v in o.fields.items():
            try:
                object.__setattr__(e, k, v)
            except Exception:
                pass
        return e

    def call_repo(self, rf, args, kw, selfobj, force_inline=False):
        mode, stub = ("inline", None) if force_inline else self.ctx.policy(rf.qual)
        if mode == "contract":
            bound = self.bind(rf.node, rf.qual, rf.module, args, kw, None)
            return stub(self, bound)
        if mode == "inline":
            return self.run_function(rf.node, rf.qual, rf.module, args, kw, parent=None, is_gen=rf.is_generator, selfobj=selfobj,
                                     cls=rf.cls, ctxmgr="contextmanager" in rf.decorators)
        raise Unsupported(f"call to /repo function without contract or inline permission: {rf.qual}")

    def bind(self, fnode, qual, module, args, kw, parent):
        """Python argument binding against the real signature; errors are the program's TypeError."""
        a = fnode.args
        params = [p.arg for p in a.posonlyargs + a.args]
        env = {}
        args = list(args)
        kw = dict(kw)
        if len(args) > len(params) and a.vararg is None:
            raise RaiseSignal(TypeError(f"{qual}() takes {len(params)} positional arguments but {len(args)} were given"))
        for p, v in zip(params, args):
            env[p] = v
        if a.vararg is not None:
            env[a.vararg.arg] = tuple(args[len(params):])
        dfr = Frame(module, parent, qual)
        ndef = len(a.defaults)
        for i, p in enumerate(params):
            if p in env:
                if p in kw:
                    raise RaiseSignal(TypeError(f"{qual}() got multiple values for argument '{p}'"))
                continue
            if p in kw:
                env[p] = kw.pop(p)
            elif i >= len(params) - ndef:
                env[p] = self.ev(a.defaults[i - (len(params) - ndef)], dfr)
            else:
                raise RaiseSignal(TypeError(f"{qual}() missing required positional argument: '{p}'"))
        for p, d in zip(a.kwonlyargs, a.kw_defaults):
            if p.arg in kw:
                env[p.arg] = kw.pop(p.arg)
            elif d is not None:
                env[p.arg] = self.ev(d, dfr)
            else:
                raise RaiseSignal(TypeError(f"{qual}() missing keyword-only argument '{p.arg}'"))
        if kw:
            if a.kwarg is None:
                raise RaiseSignal(TypeError(f"{qual}() got an unexpected keyword argument '{next(iter(kw))}'"))
        if a.kwarg is not None:
            env[a.kwarg.arg] = kw
        return env

    def run_function(self, fnode, qual, module, args, kw, parent, is_gen, selfobj=None, cls=None, ctxmgr=False, yield_hook=None):
        env = self.bind(fnode, qual, module, args, kw, parent)
        self.repo.executed.add(qual)
        fr = Frame(module, parent, qual)
        fr.vars.update(env)
        fr.selfobj, fr.cls = selfobj, cls
        if isinstance(fnode, ast.Lambda):
            return self.ev(fnode.body, fr)
        if ctxmgr and yield_hook is None:
            return CtxManagerCall(self, fnode, qual, module, args, kw, parent, selfobj, cls)
        if yield_hook is not None:
            fr.yield_hook = yield_hook
        elif is_gen:
            fr.yielded = []
        try:
            self.block(fnode.body, fr)
        except ReturnSignal as r:
            if is_gen and yield_hook is None:
                return GenResult(fr.yielded)
            return r.v
        if is_gen and yield_hook is None:
            return GenResult(fr.yielded)
        return None

    # ------------------------------------------------------------------ statements
    def block(self, stmts, fr):
        for s in stmts:
            self.stmt(s, fr)

    def stmt(self, s, fr):
        m = getattr(self, "st_" + type(s).__name__, None)
        if m is None:
            raise Unsupported(f"statement {type(s).__name__}")
        return m(s, fr)

    def st_Expr(self, s, fr):
        if isinstance(s.value, ast.Constant):
            return
        self.ev(s.value, fr)

    def st_Pass(self, s, fr):
        pass

    def st_Nonlocal(self, s, fr):
        fr.nonlocals.update(s.names)

    def st_Global(self, s, fr):
        fr.globals_.update(s.names)

    def st_Import(self, s, fr):
        for a in s.names:
            mod = importlib.import_module(a.name)
            fr.vars[(a.asname or a.name).split(".")[0]] = mod if a.asname else importlib.import_module(a.name.split(".")[0])

    def st_ImportFrom(self, s, fr):
        base = fr.module
        if s.level:
            parts = base.split(".")
            is_pkg = self.repo.modules.get(base, {}).get("path", "").endswith("__init__.py")
            up = s.level - (1 if is_pkg else 0)
            parts = parts[: len(parts) - up] if up else parts
            modname = ".".join(parts + ([s.module] if s.module else []))
        else:
            modname = s.module
        for a in s.names:
            if modname in self.repo.modules:
                fr.vars[a.asname or a.name] = self.module_global(modname, a.name)
            else:
                mod = importlib.import_module(modname)
                fr.vars[a.asname or a.name] = self.repo.wrap_real(getattr(mod, a.name))

    def st_FunctionDef(self, s, fr):
        fr.vars[s.name] = Closure(s, fr, f"{fr.func_qual}.<locals>.{s.name}")

    def st_Assign(self, s, fr):
        v = self.ev(s.value, fr)
        for t in s.targets:
            self.assign_target(t, v, fr)

    def st_AnnAssign(self, s, fr):
        if s.value is not None:
            self.assign_target(s.target, self.ev(s.value, fr), fr)

    def st_AugAssign(self, s, fr):
        t = s.target
        if isinstance(t, ast.Name):
            cur = self.lookup(fr, t.id)
            self.assign_name(fr, t.id, self.augop(type(s.op).__name__, cur, self.ev(s.value, fr)))
        elif isinstance(t, ast.Attribute):
            o = self.ev(t.value, fr)
            self.setattr(o, t.attr, self.augop(type(s.op).__name__, self.getattr(o, t.attr), self.ev(s.value, fr)))
        elif isinstance(t, ast.Subscript):
            o = self.ev(t.value, fr)
            k = self.ev_slice(t.slice, fr)
            self.setitem(o, k, self.augop(type(s.op).__name__, self.getitem(o, k), self.ev(s.value, fr)))
        else:
            raise Unsupported("augassign target")

    def augop(self, op, cur, v):
        if isinstance(cur, list) and op == "Add":
            cur.extend(self.iterate(v, None))
            return cur
        return self.binop(op, cur, v)

    def assign_target(self, t, v, fr):
        if isinstance(t, ast.Name):
            self.assign_name(fr, t.id, v)
        elif isinstance(t, ast.Attribute):
            self.setattr(self.ev(t.value, fr), t.attr, v)
        elif isinstance(t, ast.Subscript):
            self.setitem(self.ev(t.value, fr), self.ev_slice(t.slice, fr), v)
        elif isinstance(t, (ast.Tuple, ast.List)):
            if isinstance(v, Sym):
                vals = self.ctx.unpack(self.ex, v, len(t.elts))
            else:
                vals = self.iterate(v, fr)
            if any(isinstance(e, ast.Starred) for e in t.elts):
                raise Unsupported("starred unpacking")
            if len(vals) != len(t.elts):
                raise RaiseSignal(ValueError("unpack length mismatch"))
            for e, x in zip(t.elts, vals):
                self.assign_target(e, x, fr)
        else:
            raise Unsupported(f"assignment target {type(t).__name__}")

    def setitem(self, o, k, v):
        if isinstance(o, Sym):
            return o.sym_setitem(self.ex, k, v)
        if isinstance(o, Obj):
            m = self.find_member(o.cls, "__setitem__")
            if m is not None:
                return self.call(BoundMethod(m, o), [k, v], {})
            return self.ctx.dep_call(self, o, "__setitem__", [k, v], {})
        if isinstance(o, DictView):
            return self.obj_setattr(o.o, k, v, raw=True)
        if isinstance(k, Sym) and not k.sym_hashable():
            raise Unsupported("concrete container indexed by symbolic key (store)")
        try:
            o[k] = v
        except Exception as e:
            raise RaiseSignal(e)

    def st_Delete(self, s, fr):
        for t in s.targets:
            if isinstance(t, ast.Name):
                del fr.vars[t.id]
            elif isinstance(t, ast.Subscript):
                o = self.ev(t.value, fr)
                k = self.ev_slice(t.slice, fr)
                if isinstance(o, Sym):
                    o.sym_delitem(self.ex, k)
                elif isinstance(o, Obj):
                    m = self.find_member(o.cls, "__delitem__")
                    if m is not None:
                        self.call(BoundMethod(m, o), [k], {})
                    else:
                        self.ctx.dep_call(self, o, "__delitem__", [k], {})
                else:
                    if isinstance(k, Sym):
                        raise Unsupported("del with symbolic key on concrete container")
                    try:
                        del o[k]
                    except Exception as e:
                        raise RaiseSignal(e)
            elif isinstance(t, ast.Attribute):
                o = self.ev(t.value, fr)
                if isinstance(o, Obj) and t.attr in o.fields:
                    del o.fields[t.attr]
                else:
                    raise Unsupported("del attribute")
            else:
                raise Unsupported("del target")

    def st_Return(self, s, fr):
        raise ReturnSignal(None if s.value is None else self.ev(s.value, fr))

    def st_Raise(self, s, fr):
        if s.exc is None:
            f = fr
            while f is not None and f.active_exc is None:
                f = f.parent
            if f is None:
                raise RaiseSignal(RuntimeError("No active exception to reraise"))
            raise RaiseSignal(f.active_exc)
        e = self.ev(s.exc, fr)
        if isinstance(e, RepoClass):
            e = self.instantiate(e, [], {})
        elif isinstance(e, type) and issubclass(e, BaseException):
            e = e()
        cause = self.ev(s.cause, fr) if s.cause is not None else None
        raise RaiseSignal(e, cause)

    def st_Assert(self, s, fr):
        if not self.truth(self.ev(s.test, fr), s.test):
            raise RaiseSignal(AssertionError())

    def st_If(self, s, fr):
        self.block(s.body if self.truth(self.ev(s.test, fr), s.test) else s.orelse, fr)

    def st_Break(self, s, fr):
        raise BreakSignal()

    def st_Continue(self, s, fr):
        raise ContinueSignal()

    def exc_matches(self, exc, htype, fr):
        if htype is None:
            return True
        cls = self.ev(htype, fr)
        clss = cls if isinstance(cls, tuple) else (cls,)
        for c in clss:
            if isinstance(c, RepoClass):
                c = c.real
            if isinstance(exc, c):
                return True
        return False

    def st_Try(self, s, fr):
        try:
            try:
                self.block(s.body, fr)
            except RaiseSignal as rs:
                for h in s.handlers:
                    if self.exc_matches(rs.exc, h.type, fr):
                        if h.name:
                            fr.vars[h.name] = rs.exc
                        prev = fr.active_exc
                        fr.active_exc = rs.exc
                        try:
                            self.block(h.body, fr)
                        finally:
                            fr.active_exc = prev
                        break
                else:
                    raise
            else:
                self.block(s.orelse, fr)
        finally:
            if s.finalbody:
                # a signal raised inside finally replaces the pending one (Python semantics)
                self.block(s.finalbody, fr)

    def st_With(self, s, fr):
        self.with_items(s.items, s.body, fr)

    def with_items(self, items, body, fr):
        if not items:
            return self.block(body, fr)
        it = items[0]
        cm = self.ev(it.context_expr, fr)

        def inner(v=None):
            if it.optional_vars is not None:
                self.assign_target(it.optional_vars, v, fr)
            self.with_items(items[1:], body, fr)

        if isinstance(cm, CtxManagerCall):
            return cm.run(inner)
        if cm is None or type(cm).__name__ in ("RLock", "lock", "_RLock") or isinstance(cm, TransparentCM):
            return inner(cm.value if isinstance(cm, TransparentCM) else cm)
        if isinstance(cm, Sym) and hasattr(cm, "sym_with"):
            return cm.sym_with(self, inner)
        if isinstance(cm, Obj):
            enter, exit_ = self.find_member(cm.cls, "__enter__"), self.find_member(cm.cls, "__exit__")
            if enter is not None and exit_ is not None:
                v = self.call(BoundMethod(enter, cm), [], {})
                try:
                    inner(v)
                except RaiseSignal as rs:
                    sup = self.call(BoundMethod(exit_, cm), [type(rs.exc), rs.exc, None], {})
                    if not self.truth(sup):
                        raise
                    return
                except (ReturnSignal, BreakSignal, ContinueSignal):
                    self.call(BoundMethod(exit_, cm), [None, None, None], {})
                    raise
                self.call(BoundMethod(exit_, cm), [None, None, None], {})
                return
        raise Unsupported(f"context manager {type(cm).__name__}")

    def st_While(self, s, fr):
        spec = self.ctx.loop_spec(fr.func_qual, s, fr)
        if spec is not None:
            return self.cut_while(s, fr, spec)
        n = 0
        while self.truth(self.ev(s.test, fr), s.test):
            n += 1
            if n > self.MAX_UNROLL:
                raise Unsupported("while loop without invariant exceeds unroll bound")
            try:
                self.block(s.body, fr)
            except BreakSignal:
                return
            except ContinueSignal:
                continue
        self.block(s.orelse, fr)

    def st_For(self, s, fr):
        it = self.ev(s.iter, fr)
        seq = None
        if isinstance(it, Sym):
            seq = it.sym_iter(self.ex)
        elif isinstance(it, GenResult):
            seq = it.items
        elif isinstance(it, Obj):
            seq = self.iterate(it, fr, s.iter)
        if isinstance(seq, CutSeq):
            return self.cut_for(s, fr, seq)
        if seq is None:
            seq = self.iterate(it, fr, s.iter)
        if len(seq) > self.MAX_UNROLL:
            raise Unsupported("concrete loop too long to unroll")
        for x in seq:
            self.assign_target(s.target, x, fr)
            try:
                self.block(s.body, fr)
            except BreakSignal:
                return
            except ContinueSignal:
                continue
        self.block(s.orelse, fr)

    def loop_label(self, s, fr):
        return ast.unparse(s.iter) if isinstance(s, ast.For) else "while " + ast.unparse(s.test)

    def check_havoc_covers(self, s, fr, spec):
        names = assigned_names(s.body)
        if isinstance(s, ast.For):
            names |= assigned_names([ast.Assign(targets=[s.target], value=ast.Constant(None))])
        # nonlocal writes by local closures called in the loop body
        for cn in called_names(s.body):
            f = fr
            while f is not None:
                if cn in f.vars and isinstance(f.vars[cn], Closure) and not isinstance(f.vars[cn].node, ast.Lambda):
                    for st in _walk_same_scope(f.vars[cn].node):
                        if isinstance(st, ast.Nonlocal):
                            names |= set(st.names)
                    break
                f = f.parent
        targets = assigned_names([ast.Assign(targets=[s.target], value=ast.Constant(None))]) if isinstance(s, ast.For) else set()
        # loop-local temporaries: names never read outside the loop need no havoc (a harmless refactor may introduce them)
        fn_node = self.ctx.ghost.get("__fn_node__")
        read_outside = set()
        if fn_node is not None:
            inside = {id(n) for n in ast.walk(s)}
            for n in ast.walk(fn_node):
                if isinstance(n, ast.Name) and isinstance(n.ctx, ast.Load) and id(n) not in inside:
                    read_outside.add(n.id)
        else:
            read_outside = names
        missing = {n for n in names if n not in spec.havoc and n not in targets and n not in spec.scratch and n in read_outside}
        if missing:
            raise Unsupported(f"loop `{self.loop_label(s, fr)}` assigns {sorted(missing)} which the sidecar invariant does not havoc")
        # native containers mutated in place by the body (x.append(..), x[k] = .., del x[k]): the body is executed once, at an arbitrary
        # iteration, so a concrete container carried in from before the loop would be a wrong pre-state -- it must be havocked as well
        mutated = set()
        for st in s.body:
            for n in ast.walk(st):
                if isinstance(n, ast.Call) and isinstance(n.func, ast.Attribute) and isinstance(n.func.value, ast.Name) and n.func.attr in _MUTATORS:
                    mutated.add(n.func.value.id)
                elif isinstance(n, (ast.Assign, ast.AugAssign, ast.Delete)):
                    tg = n.targets if isinstance(n, (ast.Assign, ast.Delete)) else [n.target]
                    for t in tg:
                        if isinstance(t, ast.Subscript) and isinstance(t.value, ast.Name):
                            mutated.add(t.value.id)
        for n in sorted(mutated):
            if n in spec.havoc or n in spec.scratch or n in targets or (n in names and n not in read_outside):
                continue
            try:
                v = self.lookup(fr, n)
            except Exception:
                continue
            if isinstance(v, (list, dict, set, bytearray)):
                raise Unsupported(f"loop `{self.loop_label(s, fr)}` mutates the container `{n}` in place, which the sidecar invariant does not havoc")

    def cut_for(self, s, fr, seq):
        ex = self.ex
        label = seq.label or self.loop_label(s, fr)
        spec = self.ctx.loop_spec(fr.func_qual, s, fr, label)
        if spec is None:
            raise Unsupported(f"loop over symbolic sequence without sidecar invariant: {fr.func_qual} `{label}`")
        self.check_havoc_covers(s, fr, spec)
        k = fr.loop_ord
        fr.loop_ord += 1
        oname = f"{self.ctx.target}#loop[{spec.name}]"
        n = seq.n
        if z3.is_expr(n):
            ex.lengths.append(n)
        ex.oblige(oname + ":init", spec.inv(self, fr, z3.IntVal(0), seq))
        body_mode = ex.decide(None, f"loop[{spec.name}]:body")
        for name, mk in spec.havoc.items():
            v = mk(self, fr, f"{name}@{spec.name}{'b' if body_mode else 'x'}")
            if not name.startswith("$"):   # "$..." entries havoc ghost state (e.g. the FS) by side effect
                self.assign_name(fr, name, v)
        hw0 = len(self.heap_writes)
        if body_mode:
            i = z3.Int(ex.fresh_name(f"i@{spec.name}"))
            ex.assume(z3.And(i >= 0, i < n))
            ex.assume(spec.inv(self, fr, i, seq))
            for nm in spec.scratch:
                if nm in fr.vars and nm not in spec.havoc:
                    fr.vars[nm] = ScratchPoison(label)
            self.assign_target(s.target, seq.at(self, i), fr)
            try:
                self.block(s.body, fr)
            except ContinueSignal:
                pass
            except BreakSignal:
                if spec.on_break is None:
                    raise Unsupported(f"break inside cut loop `{label}`")
                if spec.on_break == "continue":
                    # the loop is left at an arbitrary iteration i (state: invariant at i, then the body up to the break): execution goes on
                    # behind the loop on this path; the exit mode below covers the runs in which no break happens
                    return
                ex.oblige(oname + ":break", spec.on_break(self, fr, i, seq))
                raise PathEnd()
            if spec.heap_frame is not None:
                spec.heap_frame(self, fr, self.heap_writes[hw0:])
            elif len(self.heap_writes) > hw0:
                raise Unsupported(f"heap writes inside cut loop `{label}` without a heap frame in the invariant")
            ex.oblige(oname + ":preserve", spec.inv(self, fr, i + 1, seq))
            raise PathEnd()
        ex.assume(spec.inv(self, fr, n if z3.is_expr(n) else z3.IntVal(n), seq))
        if spec.after is not None:
            spec.after(self, fr, seq)
        self.block(s.orelse, fr)

    def cut_while(self, s, fr, spec):
        ex = self.ex
        self.check_havoc_covers(s, fr, spec)
        oname = f"{self.ctx.target}#loop[{spec.name}]"
        ex.oblige(oname + ":init", spec.inv(self, fr, None, None))
        body_mode = ex.decide(None, f"loop[{spec.name}]:body")
        for name, mk in spec.havoc.items():
            self.assign_name(fr, name, mk(self, fr, f"{name}@{spec.name}{'b' if body_mode else 'x'}"))
        ex.assume(spec.inv(self, fr, None, None))
        if body_mode:
            if not self.truth(self.ev(s.test, fr), s.test):
                raise PathEnd()
            v0 = spec.variant(self, fr) if spec.variant else None
            try:
                self.block(s.body, fr)
            except ContinueSignal:
                pass
            except BreakSignal:
                # a break leaves the loop: continue with the code after it on this path
                return
            ex.oblige(oname + ":preserve", spec.inv(self, fr, None, None))
            if v0 is not None:
                v1 = spec.variant(self, fr)
                ex.oblige(oname + ":variant", z3.And(v0 >= 0, v1 < v0))
            raise PathEnd()
        if self.truth(self.ev(s.test, fr), s.test):
            raise PathEnd()  # exit mode: the guard is false
        self.block(s.orelse, fr)


class ScratchPoison:
    def __init__(self, loop):
        self.loop = loop


_MUTATORS = {"append", "extend", "insert", "pop", "remove", "clear", "add", "update", "discard", "setdefault", "popitem", "sort", "reverse",
             "intersection_update", "difference_update", "symmetric_difference_update", "appendleft"}


class LoopSpec:
    """Sidecar loop contract. inv(interp, frame, i, seq) -> z3 Bool; havoc: name -> maker(interp, frame, tag)."""

    def __init__(self, name, inv, havoc=None, scratch=(), heap_frame=None, on_break=None, after=None, variant=None):
        self.name, self.inv, self.havoc = name, inv, havoc or {}
        self.scratch, self.heap_frame, self.on_break, self.after, self.variant = set(scratch), heap_frame, on_break, after, variant


class GenResult:
    """Eagerly collected result of a generator call."""

    def __init__(self, items):
        self.items = items

    def __iter__(self):
        return iter(self.items)


class TransparentCM:
    def __init__(self, value=None):
        self.value = value


class CtxManagerCall:
    """Call of a @contextmanager generator function of /repo: the with-body runs at the yield point."""

    def __init__(self, interp, fnode, qual, module, args, kw, parent, selfobj, cls):
        self.a = (fnode, qual, module, args, kw, parent, selfobj, cls)
        self.interp = interp

    def run(self, body):
        fnode, qual, module, args, kw, parent, selfobj, cls = self.a
        state = {"yielded": 0}

        def hook(v):
            state["yielded"] += 1
            if state["yielded"] > 1:
                raise RaiseSignal(RuntimeError("generator didn't stop"))
            body(v)
            return None

        self.interp.run_function(fnode, qual, module, args, kw, parent, True, selfobj, cls, ctxmgr=False, yield_hook=hook)
        if state["yielded"] == 0:
            raise RaiseSignal(RuntimeError("generator didn't yield"))


class SuperProxy:
    def __init__(self, obj, cls):
        self.obj, self.cls = obj, cls

    def member(self, interp, name):
        mro = interp.repo_mro(self.obj.cls)
        idx = next((i for i, c in enumerate(mro) if c is self.cls), 0)
        for c in mro[idx + 1:]:
            if name in c.methods:
                return BoundMethod(c.methods[name], self.obj)
        return NativeStub(lambda *a, **k: interp.ctx.dep_call(interp, self.obj, name, list(a), k, via_super=True), f"super().{name}")


Signal_types = (RaiseSignal, ReturnSignal, BreakSignal, ContinueSignal, PathEnd, Unsupported)
