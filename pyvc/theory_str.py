"""Theory Str: symbolic Python strings as z3 strings (used only where the property is about strings: namespaces, prefixes)."""
import z3

from .core import NativeStub, RaiseSignal, SBool, SInt, Sym, Unsupported


def lit(s):
    return z3.StringVal(s)


_REPLACE_ALL = None


def replace_all(e, old, new):
    """SMT-LIB str.replace_all (not exported by the z3 Python API: the declaration is taken from a parsed term); Python's str.replace for a
    non-empty `old`.  z3 rarely decides it, cvc5 --strings-exp does (contracts using it set prefer_cvc5)"""
    global _REPLACE_ALL
    if _REPLACE_ALL is None:
        f = z3.parse_smt2_string('(declare-const s String)(assert (= (str.replace_all s "a" "b") s))')
        _REPLACE_ALL = f[0].arg(0).decl()
    return _REPLACE_ALL(e, old, new)


class SStr(Sym):
    def __init__(self, e):
        self.e = e if z3.is_expr(e) else z3.StringVal(e)

    @staticmethod
    def of(v):
        if isinstance(v, SStr):
            return v.e
        if isinstance(v, str):
            return z3.StringVal(v)
        return None

    def sym_eq(self, ex, other):
        o = SStr.of(other)
        if o is None:
            if isinstance(other, Sym):
                raise Unsupported(f"str == {type(other).__name__}")
            return False
        return SBool(self.e == o)

    def sym_truth(self, ex):
        return z3.Length(self.e) > 0

    def sym_isinstance(self, ex, cls):
        return cls in (str, object)

    def sym_hashable(self):
        return True

    def sym_len(self, ex):
        return SInt(z3.Length(self.e))

    def sym_contains(self, ex, x):
        o = SStr.of(x)
        if o is None:
            raise Unsupported("substring test with a non-string")
        return SBool(z3.Contains(self.e, o))

    def sym_compare(self, ex, op, other, reflected=False):
        if op == "InStr":      # self in <concrete str other>
            return SBool(z3.Contains(z3.StringVal(other), self.e))
        raise Unsupported(f"string comparison {op}")

    def sym_binop(self, ex, op, other, reflected=False):
        o = SStr.of(other)
        if op == "Add" and o is not None:
            return SStr(z3.Concat(o, self.e) if reflected else z3.Concat(self.e, o))
        raise Unsupported(f"string {op}")

    def sym_getitem(self, ex, k):
        e = self.e
        n = z3.Length(e)
        if isinstance(k, int):
            # s[k] / s[-k]: IndexError outside the string
            idx = z3.IntVal(k) if k >= 0 else n + k
            if not ex.decide(z3.And(idx >= 0, idx < n), "str-index-in-range"):
                raise RaiseSignal(IndexError("string index out of range"))
            return SStr(z3.SubString(e, idx, 1))
        if isinstance(k, slice) and k.step is None and all(x is None or isinstance(x, int) for x in (k.start, k.stop)):
            def clamp(x, default):
                if x is None:
                    return default
                v = z3.IntVal(x) if x >= 0 else n + x
                return z3.If(v < 0, 0, z3.If(v > n, n, v))
            lo, hi = clamp(k.start, z3.IntVal(0)), clamp(k.stop, n)
            return SStr(z3.SubString(e, lo, z3.If(hi > lo, hi - lo, 0)))
        raise Unsupported("string subscript")

    def sym_getattr(self, ex, name):
        e = self.e
        if name == "startswith":
            def startswith(p):
                ps = p if isinstance(p, tuple) else (p,)
                return SBool(z3.Or(*[z3.PrefixOf(SStr.of(x), e) for x in ps]))
            return NativeStub(startswith, "str.startswith")
        if name == "endswith":
            def endswith(p):
                ps = p if isinstance(p, tuple) else (p,)
                return SBool(z3.Or(*[z3.SuffixOf(SStr.of(x), e) for x in ps]))
            return NativeStub(endswith, "str.endswith")
        if name == "split":
            def split(sep=None, maxsplit=-1):
                if not isinstance(sep, str) or len(sep) != 1:
                    raise Unsupported("str.split separator")
                if maxsplit == 1:
                    return SSplit1(e, sep)
                raise Unsupported("str.split without maxsplit=1 on a symbolic string")
            return NativeStub(split, "str.split")
        if name == "replace":
            def replace(old, new, count=-1):
                o, nw = SStr.of(old), SStr.of(new)
                if o is None or nw is None or not isinstance(count, int):
                    raise Unsupported("str.replace arguments")
                if count == 1:
                    return SStr(z3.Replace(e, o, nw))
                if count != -1:
                    raise Unsupported("str.replace with a count other than 1")
                return SStr(replace_all(e, o, nw))
            return NativeStub(replace, "str.replace")
        if name == "count":
            raise Unsupported("str.count on a symbolic string")
        raise Unsupported(f"str.{name}")

    def __repr__(self):
        return f"SStr({self.e})"


class SSplit1(Sym):
    """key.split(sep, 1): [head] or [head, tail]"""

    def __init__(self, e, sep):
        self.e, self.sep = e, sep

    def sym_getitem(self, ex, k):
        i = z3.IndexOf(self.e, z3.StringVal(self.sep), 0)
        has = i >= 0
        if k == 0:
            return SStr(z3.If(has, z3.SubString(self.e, 0, i), self.e))
        if k in (1, -1):
            if k == 1 and not ex.decide(has, "split:has-separator"):
                raise RaiseSignal(IndexError("list index out of range"))
            return SStr(z3.If(has, z3.SubString(self.e, i + 1, z3.Length(self.e) - i - 1), self.e))
        raise Unsupported("split index")
