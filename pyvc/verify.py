"""pyvc driver: contracts, verification contexts, path exploration and obligation discharge."""
import ast
import os
import time
import traceback

import z3

from . import core
from .core import Ex, NativeStub, PathEnd, RaiseSignal, ReturnSignal, Sym, Unsupported
from .interp import Interp, LoopSpec, Repo  # noqa: F401

_REPO = None


def repo():
    global _REPO
    if _REPO is None:
        _REPO = Repo()
    return _REPO


class Ctx:
    """Verification context: everything the interpreter asks the *contract side* about.

    Subclasses (theories) override hooks; a Contract instantiates one per path."""

    def __init__(self, contract, case):
        self.contract, self.case = contract, case
        self.target = contract.target
        self.inline = set(contract.inline)
        self.callee_contracts = dict(contract.callees)
        self.externals = {}
        self.overrides = {}
        self.ghost = {}
        self.loops = dict(contract.loops(case)) if callable(getattr(contract, "loops", None)) else dict(contract.loops or {})

    # ---- policy for calls into /repo
    def policy(self, qual):
        if qual in self.callee_contracts:
            return "contract", self.callee_contracts[qual]
        if qual == self.target and self.contract.recursive_stub is not None:
            return "contract", self.contract.recursive_stub
        if qual == self.target or qual in self.inline or any(qual.startswith(p) for p in self.contract.inline_prefixes):
            return "inline", None
        return "none", None

    def global_override(self, modname, name):
        return self.overrides.get((modname, name), NotImplemented)

    def external(self, f):
        try:
            return self.externals.get(f)
        except TypeError:
            return None

    def loop_spec(self, func_qual, node, frame, label=None):
        if label is None:
            label = ast.unparse(node.iter) if isinstance(node, ast.For) else "while " + ast.unparse(node.test)
        return self.loops.get((func_qual, label)) or self.loops.get(label)

    def native_override(self, interp, f, args, kw):
        return NotImplemented

    # ---- default hooks: everything unsupported unless a theory provides it
    def make_set(self, ex, vals):
        raise Unsupported("set with symbolic elements (no set theory in this context)")

    def make_dict(self, ex, items):
        raise Unsupported("dict with symbolic keys")

    def comprehension(self, interp, node, frame):
        return NotImplemented

    def kwargs_of(self, ex, d):
        raise Unsupported("** of symbolic mapping")

    def sym_index(self, ex, o, k):
        raise Unsupported("symbolic index into concrete container")

    def listify(self, ex, v, f):
        raise Unsupported("list() of symbolic-length sequence")

    def setify(self, interp, v):
        raise Unsupported("set() of symbolic value")

    def dictify(self, interp, v):
        raise Unsupported("dict() of symbolic value")

    def iter_of(self, interp, v):
        raise Unsupported("iter() of symbolic value")

    def next_of(self, interp, v, rest):
        raise Unsupported("next() of symbolic value")

    def enumerate_of(self, interp, v, start):
        raise Unsupported("enumerate() of symbolic value")

    def builtin_hook(self, interp, f, args, kw):
        return NotImplemented

    def str_join(self, interp, sep, parts):
        raise Unsupported("str.join with symbolic parts")

    def unpack(self, ex, v, n):
        raise Unsupported(f"unpacking symbolic {type(v).__name__}")

    def instantiate(self, interp, rc, args, kw):
        return NotImplemented

    def obj_getattr(self, interp, o, name):
        return NotImplemented

    def obj_setattr(self, interp, o, name, v):
        return NotImplemented

    def dep_getattr(self, interp, o, name):
        raise Unsupported(f"attribute {name} of {o} comes from a dependency base class without a contract")

    def dep_call(self, interp, o, name, args, kw, via_super=False):
        raise Unsupported(f"dependency method {o.cls.name}.{name} without a contract")

    def dep_truth(self, interp, o):
        return NotImplemented

    def dep_init(self, interp, o, args, kw):
        if args or kw:
            raise Unsupported(f"constructor of {o.cls.name} inherited from a dependency")


class Contract:
    """Sidecar contract of one /repo function.

    target:   qualified name
    cases():  list of case dicts (one VC family each)
    setup(interp, case) -> (args, kwargs, pre) ; adds `requires` to interp.ex.pc
    post(interp, case, pre, outcome): emits obligations; outcome = ("return", v) | ("raise", exc)
    """

    target = None
    properties = ()
    inline = ()
    inline_prefixes = ()
    callees = {}
    loops = None
    recursive_stub = None
    ctx_class = Ctx
    assumptions = ()
    solver_timeout_ms = 8000
    shard_bits = 0
    max_paths = 4000

    def cases(self):
        return [{}]

    def case_name(self, case):
        return ",".join(f"{k}={v}" for k, v in case.items() if not k.startswith("_")) if case else ""

    def make_ctx(self, case):
        return self.ctx_class(self, case)

    def oname(self, kind):
        return f"{self.target}#{kind}"


class Result:
    def __init__(self, name):
        self.name = name
        self.instances = 0
        self.discharged = 0
        self.vacuous = 0
        self.failed = []  # (case, path, verdict, model_text)
        self.unknown = []
        self.time = 0.0
        self.kind = "prove"
        self.sample_smt = None
        self.pc_unknown = 0
        self.skipped = 0
        self.tmax = 0.0
        self.by_cvc5 = 0

    @property
    def status(self):
        if self.failed:
            return "sat"
        if self.unknown:
            return "unknown"
        if self.discharged == 0:
            return "vacuous"
        return "discharged"

    def to_json(self):
        return {"name": self.name, "status": self.status, "instances": self.instances, "discharged": self.discharged,
                "vacuous": self.vacuous, "failed": self.failed[:3], "unknown": self.unknown[:3], "solver_s": round(self.time, 3), "solver_max_s": round(self.tmax, 3),
                "backend": "z3-" + z3.get_version_string() + (f" (+{self.by_cvc5} by cvc5 --finite-model-find)" if self.by_cvc5 else "")}


def model_text(m, limit=40):
    if m is None:
        return ""
    if isinstance(m, core.TextModel):
        import re as _re
        return _re.sub(r"\s+", " ", _re.sub(r";;[^\n]*", "", m.text))[:3000]
    out = []
    for d in m.decls()[:limit]:
        try:
            out.append(f"{d.name()} = {m[d]}")
        except Exception:
            pass
    return "; ".join(out)[:3000]


def verify_contract(contract, want_smt_sample=True, log=None, shard=()):
    """Run all cases / paths of one contract. Returns dict(results: name->Result, paths, undecided: [msg], ...)."""
    rp = repo()
    t0 = time.time()
    out = {"target": contract.target, "results": {}, "paths": 0, "undecided": [], "errors": [], "assumptions": set(contract.assumptions),
           "covers": 0, "source_hash": rp.source_hash(contract.target), "models": {}}
    rf = rp.func(contract.target)
    if rf is None:
        out["undecided"].append(f"function {contract.target} not found in the working tree (renamed or removed)")
        return out
    for case in contract.cases():
        cname = contract.case_name(case)
        work = [list(shard)]
        npaths = 0
        nfull = 0
        k_sh = len(shard)
        while work:
            prefix = work.pop()
            npaths += 1
            if npaths > contract.max_paths:
                out["undecided"].append(f"{contract.target}[{cname}]: more than {contract.max_paths} paths")
                break
            ex = Ex(prefix)
            ctx = contract.make_ctx(case)
            ctx.ghost["__fn_node__"] = rf.node
            interp = Interp(rp, ex, ctx)
            outcome = None
            try:
                args, kw, pre = contract.setup(interp, case)
                if npaths == 1 and core.full_pc_unsat(ex.pc, 2000):
                    # vacuity guard on the FULL precondition (quantified hypotheses included): z3 refutes a contradictory set of
                    # assumptions quickly, a consistent one gives sat/unknown -- only `unsat` matters
                    out["errors"].append(f"{contract.target}[{cname}]: the contract's assumptions (requires) are contradictory: every obligation would be vacuous")
                try:
                    selfobj = args[0] if rf.cls is not None and "staticmethod" not in rf.decorators else None
                    v = interp.run_function(rf.node, rf.qual, rf.module, list(args), dict(kw), None, rf.is_generator, selfobj=selfobj, cls=rf.cls,
                                            ctxmgr=False, yield_hook=getattr(contract, "yield_hook", None) and contract.yield_hook(interp, case, pre))
                    outcome = ("return", v)
                except ReturnSignal as r:
                    outcome = ("return", r.v)
                except RaiseSignal as r:
                    outcome = ("raise", r.exc)
                if outcome is not None:
                    out["covers"] += 1
                    contract.post(interp, case, pre, outcome)
            except PathEnd:
                pass
            except Unsupported as u:
                out["undecided"].append(f"{contract.target}[{cname}] path `{ex.path_tag()[:200]}`: unsupported: {u.msg}")
                work.extend(pp for pp in ex.pending if len(pp) > k_sh)
                continue
            except RaiseSignal as r:  # raised by setup/post machinery itself
                out["errors"].append(f"{contract.target}[{cname}]: contract machinery raised {r.exc!r}")
            except RecursionError:
                out["undecided"].append(f"{contract.target}[{cname}]: recursion limit")
            except Exception:
                out["errors"].append(f"{contract.target}[{cname}] path `{ex.path_tag()[:200]}`: {traceback.format_exc()[-1500:]}")
            out["assumptions"] |= ex.assumptions_used
            if len(ex.trace) < k_sh and not all(shard[len(ex.trace):]):
                continue  # this short path is reported by the shard whose remaining bits are all True
            path_sat = None  # satisfiability of the final path condition, checked lazily once per path
            for ob in ex.obl:
                res = out["results"].setdefault(ob.name, Result(ob.name))
                res.instances += 1
                res.kind = ob.kind
                if ob.kind == "refute":  # must-fail twin: the goal must NOT be provable
                    verdict, m, dt = core.solve(ob.pc, ob.goal, 5000)
                    res.time += dt
                    if verdict == "sat":
                        res.discharged += 1
                    elif verdict == "unsat":
                        res.vacuous += 1
                    else:
                        res.unknown.append((cname, ob.path[:300], verdict, ""))
                    continue
                if res.failed or len(res.unknown) >= 2:
                    res.skipped += 1      # this obligation already has a counter-model / is already undecided: one witness is enough
                    continue
                if getattr(contract, "prefer_cvc5", False):
                    # string-theory obligations: z3 5.1's sequence solver is erratic on them (same query: milliseconds or a time-out, depending on
                    # unrelated declarations), cvc5 --strings-exp is steady; z3 remains the fallback
                    verdict, m, dt = core.solve_cvc5(ob.pc, ob.goal, 4000)
                    if verdict == "sat":
                        # a z3 model object feeds the contract's witness builder (replay on the real code); cvc5's answer stands if z3 stalls
                        v2, m2, dt2 = core.solve(ob.pc, ob.goal, contract.solver_timeout_ms)
                        dt += dt2
                        if v2 == "sat":
                            m = m2
                    if verdict != "unknown":
                        res.by_cvc5 += 1
                    else:
                        verdict, m, dt2 = core.solve(ob.pc, ob.goal, contract.solver_timeout_ms)
                        dt += dt2
                else:
                    verdict, m, dt = core.solve(ob.pc, ob.goal, contract.solver_timeout_ms)
                if os.environ.get("PYVC_DUMP_SLOW") and (dt > 2.0 or verdict == "unknown"):
                    try:
                        with open(os.path.join(os.environ["PYVC_DUMP_SLOW"], f"slow_{os.getpid()}_{res.instances}.smt2"), "w") as fh:
                            fh.write(f"; {ob.name} {verdict} {dt:.1f}s\n" + core.smt2_of(ob.pc, ob.goal))
                    except Exception:
                        pass
                if verdict == "unknown":
                    # second solver first: cvc5 answers within milliseconds where z3's string / quantifier engines stall (and the other way round)
                    verdict, m, dt2 = core.solve_cvc5(ob.pc, ob.goal, contract.solver_timeout_ms)
                    dt += dt2
                    if verdict != "unknown":
                        res.by_cvc5 += 1
                if verdict == "unknown":
                    verdict, m, dt2 = core.solve_frontend(ob.pc, ob.goal, contract.solver_timeout_ms)
                    dt += dt2
                if verdict == "unknown":
                    verdict, m, dt2 = core.refute_small(ob.pc, ob.goal, ex.lengths)
                    dt += dt2
                if verdict == "unknown":
                    verdict, m, dt2 = core.refute_constant_world(ob.pc, ob.goal)
                    dt += dt2
                if verdict == "unknown":
                    verdict, m, dt2 = core.solve(ob.pc, ob.goal, contract.solver_timeout_ms, seed=7)
                    dt += dt2
                res.time += dt
                res.tmax = max(res.tmax, dt)
                if verdict == "unsat":
                    # vacuity: a contradictory path condition proves everything
                    if path_sat is None:
                        path_sat = core.pc_status(ex.pc)
                    st = path_sat if path_sat != "unsat" else core.pc_status(ob.pc)
                    if st == "unsat":
                        res.vacuous += 1
                    else:
                        res.discharged += 1
                        if st == "unknown":
                            res.pc_unknown += 1
                        if want_smt_sample and res.sample_smt is None:
                            try:
                                res.sample_smt = core.smt2_of(ob.pc, ob.goal)[-1200:]
                            except Exception:
                                pass
                elif verdict == "sat":
                    res.failed.append((cname, ob.path[:300], "sat", model_text(m)))
                    out["models"].setdefault(ob.name, (case, m, ob))
                else:
                    res.unknown.append((cname, ob.path[:300], "unknown", ""))
            work.extend(pp for pp in ex.pending if len(pp) > k_sh)
        out["paths"] += npaths
    out["wall_s"] = time.time() - t0
    out["exec_hash"] = rp.executed_hash()
    return out
