"""Theory J: JSON-like values under Python semantics, sets of ids, quantifier combinators.

J ::= Null | B(bool) | I(int) | F(real) | S(string) | T(tup) | Ph
  T(tup): hashable tuple (lists after _to_hashable) with an uninterpreted equivalence teq / order tlt,
  Ph:     the _DictPlaceholder class object (a value that is only equal to itself).
Floats are mathematical reals (NaN, inf and |x| >= 2**53 excluded by the properties' quantifiers).
"""
import itertools

import z3

from .core import QCOUNT, CutSeq, NativeStub, RaiseSignal, SBool, SInt, Sym, Unsupported

Id = z3.DeclareSort("Id")
Tup = z3.DeclareSort("Tup")

J = z3.Datatype("J")
J.declare("Null")
J.declare("B", ("b", z3.BoolSort()))
J.declare("I", ("i", z3.IntSort()))
J.declare("F", ("r", z3.RealSort()))
J.declare("S", ("s", z3.StringSort()))
J.declare("T", ("t", Tup))
J.declare("Ph")
J = J.create()

teq = z3.Function("teq", Tup, Tup, z3.BoolSort())
tlt = z3.Function("tlt", Tup, Tup, z3.BoolSort())
tcontains = z3.Function("tcontains", Tup, J, z3.BoolSort())  # `x in tuple_value` (element membership under pyeq)
re_search = z3.Function("re_search", J, z3.StringSort(), z3.BoolSort())  # re.search(pattern, string) is not None
isclose_f = z3.Function("isclose", z3.RealSort(), z3.RealSort(), z3.RealSort(), z3.RealSort(), z3.BoolSort())

_q = QCOUNT

# scope for refute mode (finite expansion of quantifiers); None = prove mode (real quantifiers)
SCOPE = {"ids": None, "idx": None}


def FA_id(f):
    if SCOPE["ids"] is not None:
        return z3.And(*[f(x) for x in SCOPE["ids"]])
    x = z3.Const(f"x!{next(_q)}", Id)
    return z3.ForAll([x], f(x))


def EX_id(f):
    if SCOPE["ids"] is not None:
        return z3.Or(*[f(x) for x in SCOPE["ids"]])
    x = z3.Const(f"x!{next(_q)}", Id)
    return z3.Exists([x], f(x))


def FA_idx(lo, hi, f):
    if SCOPE["idx"] is not None:
        return z3.And(*[z3.Implies(z3.And(lo <= k, k < hi), f(z3.IntVal(k))) for k in range(SCOPE["idx"])])
    j = z3.Int(f"j!{next(_q)}")
    return z3.ForAll([j], z3.Implies(z3.And(lo <= j, j < hi), f(j)))


def EX_idx(lo, hi, f):
    if SCOPE["idx"] is not None:
        return z3.Or(*[z3.And(lo <= k, k < hi, f(z3.IntVal(k))) for k in range(SCOPE["idx"])])
    j = z3.Int(f"j!{next(_q)}")
    return z3.Exists([j], z3.And(lo <= j, j < hi, f(j)))


def FA_J(f):
    v = z3.Const(f"v!{next(_q)}", J)
    return z3.ForAll([v], f(v))


# ----------------------------------------------------------------------------- spec functions on J (macro-expanded)


def is_num(a):
    return z3.Or(J.is_B(a), J.is_I(a), J.is_F(a))


def num(a):
    return z3.If(J.is_B(a), z3.If(J.b(a), z3.RealVal(1), z3.RealVal(0)), z3.If(J.is_I(a), z3.ToReal(J.i(a)), J.r(a)))


def pyeq(a, b):
    """Python `a == b` for hashable JSON-ish values."""
    return z3.If(z3.And(is_num(a), is_num(b)), num(a) == num(b),
                 z3.If(z3.And(J.is_S(a), J.is_S(b)), J.s(a) == J.s(b),
                       z3.If(z3.And(J.is_T(a), J.is_T(b)), teq(J.t(a), J.t(b)),
                             z3.Or(z3.And(J.is_Null(a), J.is_Null(b)), z3.And(J.is_Ph(a), J.is_Ph(b))))))


def comparable(a, b):
    """Python can order a and b (`<` does not raise TypeError)."""
    return z3.Or(z3.And(is_num(a), is_num(b)), z3.And(J.is_S(a), J.is_S(b)), z3.And(J.is_T(a), J.is_T(b)))


def pylt(a, b):
    return z3.If(z3.And(is_num(a), is_num(b)), num(a) < num(b),
                 z3.If(z3.And(J.is_S(a), J.is_S(b)), J.s(a) < J.s(b), z3.And(J.is_T(a), J.is_T(b), tlt(J.t(a), J.t(b)))))


def pyle(a, b):
    return z3.Or(pylt(a, b), pyeq(a, b))


def keyeq(a, b):
    """Key equivalence of _TypedSetDefaultDict: dict key equality with floats kept apart from non-floats."""
    return z3.And(pyeq(a, b), J.is_F(a) == J.is_F(b))


def isinst(a, cls):
    """isinstance(value, cls) for the classes of _search_indexer._TYPES (note isinstance(True, int))."""
    from numbers import Number
    if cls is int:
        return z3.Or(J.is_I(a), J.is_B(a))
    if cls is float:
        return J.is_F(a)
    if cls is bool:
        return J.is_B(a)
    if cls is str:
        return J.is_S(a)
    if cls is tuple:
        return J.is_T(a)
    if cls is type(None):
        return J.is_Null(a)
    if cls is Number:
        return is_num(a)
    if cls is object:
        return z3.BoolVal(True)
    if cls in (list, dict, set, bytes):
        return z3.BoolVal(False)
    raise Unsupported(f"isinstance(J, {cls})")


def tup_axioms():
    a, b, c = z3.Consts("ta tb tc", Tup)
    v, w = z3.Consts("tv tw", J)
    return [z3.ForAll([a], teq(a, a)),
            z3.ForAll([a, b], teq(a, b) == teq(b, a)),
            z3.ForAll([a, b, c], z3.Implies(z3.And(teq(a, b), teq(b, c)), teq(a, c))),
            z3.ForAll([a, b, c], z3.Implies(teq(a, b), z3.And(tlt(a, c) == tlt(b, c), tlt(c, a) == tlt(c, b)))),
            z3.ForAll([a, b, v], z3.Implies(teq(a, b), tcontains(a, v) == tcontains(b, v))),
            z3.ForAll([a, v, w], z3.Implies(pyeq(v, w), tcontains(a, v) == tcontains(a, w)))]


def to_J(v):
    """Concrete python value -> J term (None if not representable)."""
    if v is None:
        return J.Null
    if isinstance(v, bool):
        return J.B(z3.BoolVal(v))
    if isinstance(v, int):
        return J.I(z3.IntVal(v))
    if isinstance(v, float):
        if v != v or v in (float("inf"), float("-inf")):
            return None
        return J.F(z3.RealVal(repr(v)))
    if isinstance(v, str):
        return J.S(z3.StringVal(v))
    return None


class SJ(Sym):
    """A symbolic JSON-ish scalar value."""

    def __init__(self, e):
        self.e = e

    def _other(self, o):
        if isinstance(o, SJ):
            return o.e
        if isinstance(o, SBool):
            return J.B(o.e)
        if isinstance(o, SInt):
            return J.I(o.e)
        if isinstance(o, SReal):
            return J.F(o.e)
        if isinstance(o, Sym):
            return None
        return to_J(o)

    def sym_eq(self, ex, other):
        o = self._other(other)
        if o is None:
            if isinstance(other, Sym):
                raise Unsupported(f"J == {type(other).__name__}")
            return False
        return SBool(pyeq(self.e, o))

    def sym_compare(self, ex, op, other, reflected=False):
        if op == "InStr":
            raise Unsupported("substring test on J")
        o = self._other(other)
        if o is None:
            raise Unsupported(f"J {op} {type(other).__name__}")
        a, b = (o, self.e) if reflected else (self.e, o)
        if not ex.decide(comparable(a, b), "comparable"):
            raise RaiseSignal(TypeError("'<' not supported between these instances"))
        return SBool({"Lt": pylt(a, b), "LtE": pyle(a, b), "Gt": pylt(b, a), "GtE": pyle(b, a)}[op])

    def sym_isinstance(self, ex, cls):
        return SBool(isinst(self.e, cls))

    def sym_type(self, ex):
        return STypeOfJ(self.e)

    def sym_truth(self, ex):
        a = self.e
        return z3.If(is_num(a), num(a) != 0, z3.If(J.is_S(a), z3.Length(J.s(a)) > 0, z3.If(J.is_T(a), tnonempty(J.t(a)), J.is_Ph(a))))

    def sym_is(self, ex, other):
        if other is None:
            return SBool(J.is_Null(self.e))
        if other is True or other is False:
            return SBool(z3.And(J.is_B(self.e), J.b(self.e) == other))
        raise Unsupported("`is` on J")

    def sym_hashable(self):
        return True

    def __repr__(self):
        return f"SJ({self.e})"


tnonempty = z3.Function("tnonempty", Tup, z3.BoolSort())


class STypeOfJ(Sym):
    """type(v) of a J value: the exact class (type(True) is bool, not int)"""

    def __init__(self, e):
        self.e = e

    def exact(self, cls):
        a = self.e
        table = {int: J.is_I(a), bool: J.is_B(a), float: J.is_F(a), str: J.is_S(a), tuple: J.is_T(a), type(None): J.is_Null(a)}
        if cls in table:
            return table[cls]
        if isinstance(cls, type):
            return z3.BoolVal(False)
        raise Unsupported("type(value) compared with something that is not a class")

    def sym_eq(self, ex, other):
        return SBool(self.exact(other))

    def sym_is(self, ex, other):
        return SBool(self.exact(other))

    def sym_hashable(self):
        return True


class SReal(Sym):
    def __init__(self, e):
        self.e = e

    def sym_isinstance(self, ex, cls):
        from numbers import Number
        return cls in (float, Number, object)

    def sym_eq(self, ex, other):
        if isinstance(other, SReal):
            return SBool(self.e == other.e)
        if isinstance(other, (int, float)) and not isinstance(other, bool):
            return SBool(self.e == z3.RealVal(repr(other)))
        raise Unsupported("SReal ==")


# ----------------------------------------------------------------------------- sets of ids


class SymSet(Sym):
    """Finite set of ids as a characteristic function (python side). Mutable like a Python set."""

    def __init__(self, member, sort=Id, arr=None):
        self.member = member
        self.sort = sort
        self.arr = arr      # optional z3 array view (then equality is array equality: quantifier-free)

    @staticmethod
    def of_array(arr, sort=Id):
        return SymSet(lambda x: arr[x], sort, arr)

    @staticmethod
    def fresh(ex, base, sort=Id):
        f = z3.Function(ex.fresh_name(base), sort, z3.BoolSort())
        return SymSet(lambda x, f=f: f(x), sort)

    @staticmethod
    def empty(sort=Id):
        return SymSet(lambda x: z3.BoolVal(False), sort)

    def copy(self):
        return SymSet(self.member, self.sort, self.arr)

    def _m(self, other):
        if isinstance(other, SymSet):
            return other.member
        if isinstance(other, (set, frozenset, list, tuple)) and not other:
            return lambda x: z3.BoolVal(False)
        if isinstance(other, (set, frozenset, list, tuple)) and all(isinstance(o, SId) for o in other):
            es = [o.e for o in other]
            return lambda x: z3.Or(*[x == e for e in es])
        raise Unsupported(f"set operation with {type(other).__name__}")

    def nonempty(self):
        return EX_id(lambda x: self.member(x)) if self.sort is Id else self._ex(lambda x: self.member(x))

    def _ex(self, f):
        x = z3.Const(f"e!{next(_q)}", self.sort)
        return z3.Exists([x], f(x))

    def _fa(self, f):
        if self.sort is Id:
            return FA_id(f)
        x = z3.Const(f"e!{next(_q)}", self.sort)
        return z3.ForAll([x], f(x))

    def sym_truth(self, ex):
        return self.nonempty()

    def sym_len(self, ex):
        """a non-negative integer that is 0 exactly for the empty set (the only facts about cardinality used anywhere)"""
        n = z3.Int(ex.fresh_name("card"))
        ex.lengths.append(n)
        ex.assume(z3.And(n >= 0, (n == 0) == z3.Not(self.nonempty())))
        return SInt(n)

    def sym_iter(self, ex):
        """iteration over a set of ids: every member exactly once, in an unspecified order (enumeration axioms)"""
        if self.sort is not Id:
            raise Unsupported("iteration over a set of this sort")
        n = z3.Int(ex.fresh_name("n_set"))
        ex.lengths.append(n)
        en = z3.Function(ex.fresh_name("ENUM"), z3.IntSort(), Id)
        a, b = z3.Ints("ea eb")
        ex.assume(n >= 0)
        ex.assume(FA_id(lambda x: self.member(x) == z3.Exists([a], z3.And(0 <= a, a < n, en(a) == x))))
        ex.assume(z3.ForAll([a, b], z3.Implies(z3.And(0 <= a, a < b, b < n), en(a) != en(b))))
        cs = CutSeq(n, lambda interp, i: SId(en(i)))
        cs.en = en
        return cs

    def sym_contains(self, ex, x):
        if isinstance(x, SId):
            return SBool(self.member(x.e))
        raise Unsupported("membership of non-id in id set")

    def sym_eq(self, ex, other):
        if self.arr is not None and isinstance(other, SymSet) and other.arr is not None:
            return SBool(self.arr == other.arr)
        o = self._m(other)
        return SBool(self._fa(lambda x: self.member(x) == o(x)))

    def sym_isinstance(self, ex, cls):
        return cls in (set, object)

    def sym_getattr(self, ex, name):
        a = self.member
        if name == "update":
            def update(*others):
                for other in others:
                    o, cur = self._m(other), self.member
                    self.arr = None
                    self.member = lambda x, cur=cur, o=o: z3.Or(cur(x), o(x))
            return NativeStub(update, "set.update")
        if name == "add":
            def add(x):
                if not (isinstance(x, Sym) and hasattr(x, "e") and z3.is_expr(x.e) and x.e.sort() == self.sort):
                    raise Unsupported("set.add of a value of another sort")
                cur = self.member
                self.arr = None
                self.member = lambda y, cur=cur, e=x.e: z3.Or(cur(y), y == e)
            return NativeStub(add, "set.add")
        if name == "union":
            def union(*others):
                ms = [self._m(o) for o in others]
                return SymSet(lambda x: z3.Or(a(x), *[m(x) for m in ms]), self.sort)
            return NativeStub(union, "set.union")
        if name == "intersection":
            def inter(*others):
                ms = [self._m(o) for o in others]
                return SymSet(lambda x: z3.And(a(x), *[m(x) for m in ms]), self.sort)
            return NativeStub(inter, "set.intersection")
        if name == "difference":
            def diff(*others):
                ms = [self._m(o) for o in others]
                return SymSet(lambda x: z3.And(a(x), *[z3.Not(m(x)) for m in ms]), self.sort)
            return NativeStub(diff, "set.difference")
        if name == "copy":
            return NativeStub(lambda: SymSet(a, self.sort, self.arr), "set.copy")
        if name == "clear":
            def clear():
                self.arr = None
                self.member = lambda x: z3.BoolVal(False)
            return NativeStub(clear, "set.clear")
        if name == "discard":
            def discard(x):
                cur = self.member
                self.arr = None
                self.member = lambda y, cur=cur, e=x.e: z3.And(cur(y), y != e)
            return NativeStub(discard, "set.discard")
        raise Unsupported(f"set.{name}")

    def sym_binop(self, ex, op, other, reflected=False):
        o = self._m(other)
        a = self.member
        if op == "BitOr":
            return SymSet(lambda x: z3.Or(a(x), o(x)), self.sort)
        if op == "BitAnd":
            return SymSet(lambda x: z3.And(a(x), o(x)), self.sort)
        if op == "Sub":
            if reflected:
                return SymSet(lambda x: z3.And(o(x), z3.Not(a(x))), self.sort)
            return SymSet(lambda x: z3.And(a(x), z3.Not(o(x))), self.sort)
        raise Unsupported(f"set binop {op}")

    def eq_spec(self, f):
        """z3: this set == {x | f(x)}"""
        return self._fa(lambda x: self.member(x) == f(x))


def as_symset(v, sort=Id):
    """View a concrete (empty or id-only) Python set, or None-less SymSet, as a SymSet."""
    if isinstance(v, SymSet):
        return v
    if isinstance(v, (set, frozenset, list, tuple)):
        es = []
        for o in v:
            if not isinstance(o, SId):
                raise Unsupported("concrete set with non-id elements viewed as id set")
            es.append(o.e)
        return SymSet(lambda x: z3.Or(*[x == e for e in es]) if es else z3.BoolVal(False), sort)
    raise Unsupported(f"{type(v).__name__} viewed as id set")


class SId(Sym):
    """A job id (uninterpreted sort: only identity matters)."""

    def __init__(self, e):
        self.e = e

    def sym_eq(self, ex, other):
        if isinstance(other, SId):
            return SBool(self.e == other.e)
        if other is None:
            return False
        raise Unsupported(f"SId == {type(other).__name__}")

    def sym_is(self, ex, other):
        if other is None:
            return False
        if isinstance(other, SId):
            return SBool(self.e == other.e)
        raise Unsupported("`is` on SId")

    def sym_hashable(self):
        return True

    def sym_isinstance(self, ex, cls):
        return cls in (str, object)

    def sym_str(self, ex):
        return self

    def sym_truth(self, ex):
        return True  # ids are non-empty strings

    def __repr__(self):
        return f"SId({self.e})"


class SJList(Sym):
    """A list/tuple of J values of symbolic length (e.g. the argument of $in)."""

    def __init__(self, n, at, is_list=True):
        self.n, self.at, self.is_list = n, at, is_list

    @staticmethod
    def fresh(ex, base):
        f = z3.Function(ex.fresh_name(base), z3.IntSort(), J)
        n = z3.Int(ex.fresh_name(base + "_len"))
        ex.assume(n >= 0)
        return SJList(n, lambda k: f(k))

    def sym_contains(self, ex, x):
        if isinstance(x, SJ):
            return SBool(EX_idx(0, self.n, lambda k: pyeq(x.e, self.at(k))))
        raise Unsupported("`in` list of J with non-J")

    def sym_isinstance(self, ex, cls):
        return cls in ((list,) if self.is_list else (tuple,)) + (object,)

    def sym_len(self, ex):
        return SInt(self.n)

    def sym_truth(self, ex):
        return self.n > 0

    def sym_getitem(self, ex, k):
        if isinstance(k, int) and k >= 0:
            if not ex.decide(self.n > k, f"len>{k}"):
                raise RaiseSignal(IndexError("list index out of range"))
            return SJ(self.at(z3.IntVal(k)))
        raise Unsupported("symbolic list index")
