"""Theory FS: structured file-system ghost state, location algebra, trusted contracts of os/shutil/open externals.

FS = { ws    : Proj -> Bool                         workspace directory exists
       dirs  : (Proj, Id) -> Bool                   job directory exists
       ent   : (Proj, Id) -> (Name -> Node)         entries of a job directory
       pf    : (Proj, PName) -> Node                project-level files (config, cache, cache~, project document, ...)
     }
Node ::= Absent | File(Data) | Sub(Tree)            (Sub: a sub-directory with opaque content)
Name ::= SP | SPBAK | DOC | DOCBAK | Oth(k)         (state point file, its '~' backup, job document, its '~' backup, any other name)

Paths are *terms* (LWs, LJob, LIn, LPF, ...), never strings: the code's string-building idioms have contracts on this algebra
(os.sep.join((ws, id)) -> LJob, os.path.join(jobdir, FN) -> LIn, fn + "~" -> backup name).  The string view is assumed injective.
"""
import errno as _errno

import z3

from .core import NativeStub, OpaqueStr, RaiseSignal, SBool, SInt, Sym, Unsupported
from .theory_j import Id, SId

Proj = z3.DeclareSort("Proj")
Data = z3.DeclareSort("Data")
SPv = z3.DeclareSort("SPv")      # a state point value (JSON mapping), abstract
Tree = z3.DeclareSort("Tree")

Name = z3.Datatype("Name")
for c in ("SP", "SPBAK", "DOC", "DOCBAK"):
    Name.declare(c)
Name.declare("Oth", ("k", z3.IntSort()))
Name = Name.create()

Node = z3.Datatype("Node")
Node.declare("Absent")
Node.declare("File", ("data", Data))
Node.declare("Sub", ("tree", Tree))
Node = Node.create()

JD = z3.Datatype("JD")
JD.declare("mk", ("p", Proj), ("i", Id))
JD = JD.create()

PName = z3.Datatype("PName")
for c in ("CONFIG", "CACHE", "CACHETMP", "PDOC", "SIGNACDIR"):
    PName.declare(c)
PName = PName.create()
PF = z3.Datatype("PF")
PF.declare("mk", ("p", Proj), ("n", PName))
PF = PF.create()

Entries = z3.ArraySort(Name, Node)
EMPTY = z3.K(Name, Node.Absent)

CALC = z3.Function("CALC", SPv, Id)                       # calc_id on state point values (assumed: function of the JSON value)
parsed = z3.Function("parsed", Data, SPv)                  # json.loads of a file content
jsonok = z3.Function("jsonok", Data, z3.BoolSort())        # the content parses as JSON
NONEV = z3.Const("NONEV", SPv)                             # the value None (what a missing file loads as)
canon = z3.Function("canon", SPv, Data)                    # what the dependency's writer produces for a value


def theory_axioms():
    v = z3.Const("ax_v", SPv)
    return [z3.ForAll([v], z3.And(jsonok(canon(v)), parsed(canon(v)) == v))]


FN_OF = {"signac_statepoint.json": Name.SP, "signac_statepoint.json~": Name.SPBAK, "signac_job_document.json": Name.DOC,
         "signac_job_document.json~": Name.DOCBAK}


class FS:
    """Immutable value; every effect builds a new FS."""

    def __init__(self, ws, dirs, ent, pf):
        self.ws, self.dirs, self.ent, self.pf = ws, dirs, ent, pf

    @staticmethod
    def fresh(tag):
        return FS(z3.Array(f"ws!{tag}", Proj, z3.BoolSort()), z3.Array(f"dirs!{tag}", JD, z3.BoolSort()),
                  z3.Array(f"ent!{tag}", JD, Entries), z3.Array(f"pf!{tag}", PF, Node))

    def wf(self):
        j = z3.Const("wf_j", JD)
        return [z3.ForAll([j], z3.Implies(z3.Not(self.dirs[j]), self.ent[j] == EMPTY)),
                z3.ForAll([j], z3.Implies(self.dirs[j], self.ws[JD.p(j)]))]

    def eq(self, o):
        return z3.And(self.ws == o.ws, self.dirs == o.dirs, self.ent == o.ent, self.pf == o.pf)

    def jd(self, p, i):
        return JD.mk(p, i)

    def node(self, loc):
        return self.ent[JD.mk(loc.p, loc.i)][loc.name]

    def with_node(self, loc, node):
        k = JD.mk(loc.p, loc.i)
        return FS(self.ws, self.dirs, z3.Store(self.ent, k, z3.Store(self.ent[k], loc.name, node)), self.pf)

    def with_dir(self, p, i, exists, entries=None):
        k = JD.mk(p, i)
        return FS(self.ws, z3.Store(self.dirs, k, exists), self.ent if entries is None else z3.Store(self.ent, k, entries), self.pf)

    def with_ws(self, p, exists=True):
        return FS(z3.Store(self.ws, p, exists), self.dirs, self.ent, self.pf)

    def with_pf(self, p, n, node):
        return FS(self.ws, self.dirs, self.ent, z3.Store(self.pf, PF.mk(p, n), node))

    def valid(self, p, i):
        """job directory (p,i) exists and its state point file parses to a value whose id is i  (what check() accepts)"""
        n = self.ent[JD.mk(p, i)][Name.SP]
        return z3.And(self.dirs[JD.mk(p, i)], Node.is_File(n), jsonok(Node.data(n)), CALC(parsed(Node.data(n))) == i)


# ----------------------------------------------------------------------------- locations


class Loc(Sym):
    def sym_isinstance(self, ex, cls):
        return cls in (str, object)

    def sym_truth(self, ex):
        return True

    def sym_str(self, ex):
        return self

    def sym_is(self, ex, other):
        if other is None:
            return False
        return self.sym_eq(ex, other)

    def sym_eq(self, ex, other):
        if other is None or isinstance(other, str):
            return False
        if isinstance(other, Loc):
            return same_loc(self, other)
        raise Unsupported("location == non-location")

    def sym_hashable(self):
        return False


class LProj(Loc):
    def __init__(self, p):
        self.p = p

    def __repr__(self):
        return f"Proj({self.p})"


class LWs(Loc):
    def __init__(self, p):
        self.p = p

    def __repr__(self):
        return f"Ws({self.p})"


class LJob(Loc):
    def __init__(self, p, i):
        self.p, self.i = p, i

    def __repr__(self):
        return f"JobDir({self.p},{self.i})"


class LIn(Loc):
    def __init__(self, p, i, name):
        self.p, self.i, self.name = p, i, name

    def sym_binop(self, ex, op, other, reflected=False):
        if op == "Add" and other == "~" and not reflected:
            return LIn(self.p, self.i, bak_name(ex, self.name))
        raise Unsupported(f"path {op} {other!r}")

    def __repr__(self):
        return f"InJob({self.p},{self.i},{self.name})"


class LPF(Loc):
    def __init__(self, p, n):
        self.p, self.n = p, n

    def sym_binop(self, ex, op, other, reflected=False):
        if op == "Add" and other == "~" and not reflected and z3.eq(self.n, PName.CACHE):
            return LPF(self.p, PName.CACHETMP)
        raise Unsupported(f"project file path {op} {other!r}")

    def __repr__(self):
        return f"ProjFile({self.p},{self.n})"


def bak_name(ex, name):
    if z3.eq(name, Name.SP):
        return Name.SPBAK
    if z3.eq(name, Name.DOC):
        return Name.DOCBAK
    raise Unsupported(f"backup name of {name}")


def same_loc(a, b):
    if type(a) is not type(b):
        return False
    if isinstance(a, (LProj, LWs)):
        return SBool(a.p == b.p)
    if isinstance(a, LJob):
        return SBool(z3.And(a.p == b.p, a.i == b.i))
    if isinstance(a, LIn):
        return SBool(z3.And(a.p == b.p, a.i == b.i, a.name == b.name))
    if isinstance(a, LPF):
        return SBool(z3.And(a.p == b.p, a.n == b.n))
    raise Unsupported("location comparison")


def name_of(part):
    """file-name part joined onto a job directory -> Name term"""
    if isinstance(part, str):
        if part in FN_OF:
            return FN_OF[part]
        raise Unsupported(f"file name {part!r} is not part of the location algebra")
    if isinstance(part, SName):
        return part.e
    raise Unsupported(f"path component {type(part).__name__}")


class SName(Sym):
    """A directory entry name (from os.listdir of a job directory)."""

    def __init__(self, e):
        self.e = e

    def sym_eq(self, ex, other):
        if isinstance(other, str):
            return SBool(self.e == FN_OF[other]) if other in FN_OF else False
        if isinstance(other, SName):
            return SBool(self.e == other.e)
        raise Unsupported("name ==")

    def sym_hashable(self):
        return True

    def sym_isinstance(self, ex, cls):
        return cls in (str, object)


def join_path(interp, parts):
    """os.path.join / os.sep.join on locations."""
    parts = list(parts)
    a = parts[0]
    for b in parts[1:]:
        if isinstance(a, LWs) and isinstance(b, SId):
            a = LJob(a.p, b.e)
        elif isinstance(a, LJob):
            a = LIn(a.p, a.i, name_of(b))
        elif isinstance(a, LProj) and isinstance(b, str):
            pn = PF_OF.get(b)
            if b == "workspace":
                a = LWs(a.p)
            elif pn is not None:
                a = LPF(a.p, pn)
            else:
                raise Unsupported(f"project path component {b!r}")
        else:
            raise Unsupported(f"join {type(a).__name__} / {type(b).__name__ if not isinstance(b, str) else b!r}")
    return a


PF_OF = {"signac_project_document.json": PName.PDOC, ".signac/statepoint_cache.json.gz": PName.CACHE, ".signac/config": PName.CONFIG, ".signac": PName.SIGNACDIR}


class SymOSError(OSError):
    """OSError with a symbolic errno."""

    def __init__(self, e):
        OSError.__init__(self)
        self.sym_errno = e if z3.is_expr(e) else z3.IntVal(e)

    @property
    def errno(self):
        return SInt(self.sym_errno)

    def __repr__(self):
        return f"OSError(errno={self.sym_errno})"


# ----------------------------------------------------------------------------- externals over FS (TRUSTED contracts)


class FSModel:
    """Mixin for a Ctx: ghost FS state, effect trace, fault injection, externals."""

    faults = True          # every effectful / reading external may fail with OSError(e), e != ENOENT, without effect
    fault_reads = False

    def fs_init(self, ex, tag="0", keys=None):
        """keys: list of (p, i) pairs.  When given, the well-formedness hypotheses are instantiated at exactly these job directories
        (they are local -- each instance constrains only its own directory -- so this loses nothing and keeps the path condition
        quantifier-free, which lets the solver also REFUTE); otherwise they are stated with quantifiers."""
        self.fs0 = FS.fresh(tag)
        self.fs = self.fs0
        if keys is None:
            for a in self.fs0.wf() + theory_axioms():
                ex.assume(a)
        else:
            for (p_, i_) in keys:
                k = JD.mk(p_, i_)
                ex.assume(z3.And(z3.Implies(z3.Not(self.fs0.dirs[k]), self.fs0.ent[k] == EMPTY), z3.Implies(self.fs0.dirs[k], self.fs0.ws[p_])))
        import os
        import shutil
        self.externals.update({
            os.path.isfile: self.x_isfile, os.path.isdir: self.x_isdir, os.path.exists: self.x_exists, os.makedirs: self.x_makedirs,
            os.mkdir: self.x_mkdir, os.replace: self.x_replace, os.remove: self.x_remove, os.path.join: self.x_join,
            shutil.rmtree: self.x_rmtree, shutil.copytree: self.x_copytree, os.listdir: self.x_listdir,
        })
        self.assume_tag = "FS externals: POSIX contracts of os.replace/remove/makedirs/listdir/isfile/isdir, shutil.rmtree/copytree (multi-step, may stop after any part)"

    rg = False

    def interfere(self, interp):
        """rely/guarantee mode: between any two of my file-system steps the OTHER actors (Project(), open_job(sp).init(), document
        writes of other jobs, listings) may have run.  The rely is stated per directory and instantiated at the (project, id) pairs this
        path mentions -- a weaker hypothesis than the quantified form, hence sound for proving."""
        if not self.rg:
            return
        ex = interp.ex
        F = self.fs
        G = FS.fresh(ex.fresh_name("rely"))
        for (p, i, sp) in self.ghost.get("rg_ids", []):
            k = JD.mk(p, i)
            n0, n1 = F.ent[k][Name.SP], G.ent[k][Name.SP]
            ex.assume(z3.And(
                z3.Implies(F.ws[p], G.ws[p]), z3.Implies(F.dirs[k], G.dirs[k]), z3.Implies(G.dirs[k], G.ws[p]),
                z3.Implies(Node.is_File(n0), Node.is_File(n1)),
                z3.Or(n1 == n0, z3.And(Node.is_File(n1), jsonok(Node.data(n1)), CALC(parsed(Node.data(n1))) == i)),   # others only ever write a VALID state point
                z3.Implies(n1 != Node.Absent, G.dirs[k]),
                G.ent[k] == z3.Store(F.ent[k], Name.SP, n1)))
        for p in self.ghost.get("rg_projects", []):
            ex.assume(z3.And(z3.Implies(F.ws[p], G.ws[p]), G.pf == F.pf))
        ex.assumptions_used.add("rely: other actors only create the workspace / job directories, write state point files atomically and only with a valid content for that id, "
                                "never remove anything (actors limited to the property's script set); each file-system call is atomic")
        self.fs = G

    def effect(self, interp, label, fs):
        if self.rg:
            hook_g = getattr(self.contract, "guarantee", None)
            if hook_g is not None:
                hook_g(interp, self, label, self.fs, fs)
        self.fs = fs
        interp.ex.effect(label, fs)
        interp.ex.assumptions_used.add(self.assume_tag)
        hook = getattr(self.contract, "crash_invariant", None)
        if hook is not None:
            hook(interp, self, label, fs)

    def fault(self, interp, what):
        if not self.faults:
            return
        ex = interp.ex
        if ex.decide(None, f"fault:{what}"):
            e = z3.Int(ex.fresh_name("errno"))
            ex.assume(z3.And(e != _errno.ENOENT, e > 0))
            raise RaiseSignal(SymOSError(e))

    def enoent(self):
        return RaiseSignal(SymOSError(_errno.ENOENT))

    # ---- queries
    def present(self, loc):
        fs = self.fs
        if isinstance(loc, LIn):
            return z3.And(fs.dirs[JD.mk(loc.p, loc.i)], fs.node(loc) != Node.Absent)
        if isinstance(loc, LJob):
            return fs.dirs[JD.mk(loc.p, loc.i)]
        if isinstance(loc, LWs):
            return fs.ws[loc.p]
        if isinstance(loc, LPF):
            return fs.pf[PF.mk(loc.p, loc.n)] != Node.Absent
        if isinstance(loc, LProj):
            return z3.BoolVal(True)
        raise Unsupported(f"presence of {loc!r}")

    stat_faults = False      # contexts that set this model os.path.isfile answering False for an existing file whose stat() fails (EIO, EACCES, ...)

    def x_isfile(self, interp, loc):
        self.interfere(interp)
        fs = self.fs
        if isinstance(loc, LIn):
            if self.stat_faults and self.faults and interp.ex.decide(None, "fault:isfile-stat-fails"):
                return False       # os.path.isfile swallows every OSError of stat(): "not a file" although it is there
            return SBool(z3.And(fs.dirs[JD.mk(loc.p, loc.i)], Node.is_File(fs.node(loc))))
        if isinstance(loc, LPF):
            return SBool(Node.is_File(fs.pf[PF.mk(loc.p, loc.n)]))
        if isinstance(loc, (LJob, LWs, LProj)):
            return False
        raise Unsupported(f"isfile({loc!r})")

    def x_isdir(self, interp, loc):
        self.interfere(interp)
        fs = self.fs
        if isinstance(loc, LIn):
            return SBool(z3.And(fs.dirs[JD.mk(loc.p, loc.i)], Node.is_Sub(fs.node(loc))))
        if isinstance(loc, (LJob, LWs)):
            return SBool(self.present(loc))
        if isinstance(loc, LProj):
            return True
        raise Unsupported(f"isdir({loc!r})")

    def x_exists(self, interp, loc):
        self.interfere(interp)
        return SBool(self.present(loc))

    def x_join(self, interp, *parts):
        if not any(isinstance(p, Sym) for p in parts):
            import os
            return os.path.join(*parts)
        return join_path(interp, parts)

    # ---- effects
    def x_makedirs(self, interp, loc, mode=0o777, exist_ok=False):
        self.interfere(interp)
        ex, fs = interp.ex, self.fs
        if ex.decide(self.present(loc), "makedirs:exists"):
            if not exist_ok:
                raise RaiseSignal(SymOSError(_errno.EEXIST))
            return None
        self.fault(interp, "makedirs")
        if isinstance(loc, LJob):
            # creates missing parents (the workspace) too
            self.effect(interp, "makedirs jobdir", fs.with_ws(loc.p).with_dir(loc.p, loc.i, True, EMPTY))
        elif isinstance(loc, LWs):
            self.effect(interp, "makedirs workspace", fs.with_ws(loc.p))
        else:
            raise Unsupported(f"makedirs({loc!r})")
        return None

    def x_mkdir(self, interp, loc, mode=0o777):
        self.interfere(interp)
        ex, fs = interp.ex, self.fs
        if ex.decide(self.present(loc), "mkdir:exists"):
            raise RaiseSignal(SymOSError(_errno.EEXIST))
        if isinstance(loc, LJob) and not ex.decide(fs.ws[loc.p], "mkdir:parent-exists"):
            raise self.enoent()
        self.fault(interp, "mkdir")
        if isinstance(loc, LJob):
            self.effect(interp, "mkdir jobdir", fs.with_dir(loc.p, loc.i, True, EMPTY))
        elif isinstance(loc, LWs):
            self.effect(interp, "mkdir workspace", fs.with_ws(loc.p))
        else:
            raise Unsupported(f"mkdir({loc!r})")

    def x_replace(self, interp, src, dst):
        ex, fs = interp.ex, self.fs
        if isinstance(src, LIn) and isinstance(dst, LIn):
            if not ex.decide(z3.And(self.present(src)), "replace:src-present"):
                raise self.enoent()
            if not ex.decide(fs.dirs[JD.mk(dst.p, dst.i)], "replace:dst-dir-present"):
                raise self.enoent()
            self.fault(interp, "replace-file")
            n = fs.node(src)
            self.effect(interp, f"replace {src.name}->{dst.name}", fs.with_node(src, Node.Absent).with_node(dst, n)
                        if not (z3.eq(src.p, dst.p) and z3.eq(src.i, dst.i) and z3.eq(src.name, dst.name)) else fs)
            return None
        if isinstance(src, LJob) and isinstance(dst, LJob):
            ks, kd = JD.mk(src.p, src.i), JD.mk(dst.p, dst.i)
            if not ex.decide(fs.dirs[ks], "replace:srcdir-present"):
                raise self.enoent()
            if not ex.decide(fs.ws[dst.p], "replace:dst-parent-present"):
                raise self.enoent()
            if ex.decide(z3.And(ks == kd), "replace:same-dir"):
                return None
            if ex.decide(z3.And(fs.dirs[kd], fs.ent[kd] != EMPTY), "replace:dst-nonempty"):
                e = z3.Int(ex.fresh_name("errno"))
                ex.assume(z3.Or(e == _errno.ENOTEMPTY, e == _errno.EEXIST))
                raise RaiseSignal(SymOSError(e))
            self.fault(interp, "replace-dir")
            ent = z3.Store(z3.Store(fs.ent, kd, fs.ent[ks]), ks, EMPTY)
            dirs = z3.Store(z3.Store(fs.dirs, ks, False), kd, True)
            self.effect(interp, "rename jobdir", FS(fs.ws, dirs, ent, fs.pf))
            return None
        if isinstance(src, LPF) and isinstance(dst, LPF):
            if not ex.decide(self.present(src), "replace:src-present"):
                raise self.enoent()
            self.fault(interp, "replace-projfile")
            n = fs.pf[PF.mk(src.p, src.n)]
            self.effect(interp, f"replace {src.n}->{dst.n}", fs.with_pf(src.p, src.n, Node.Absent).with_pf(dst.p, dst.n, n))
            return None
        raise Unsupported(f"os.replace({src!r}, {dst!r})")

    def x_remove(self, interp, loc):
        ex, fs = interp.ex, self.fs
        if not ex.decide(self.present(loc), "remove:present"):
            raise self.enoent()
        self.fault(interp, "remove")
        if isinstance(loc, LIn):
            if ex.decide(Node.is_Sub(fs.node(loc)), "remove:is-directory"):
                raise RaiseSignal(SymOSError(_errno.EISDIR))
            self.effect(interp, f"remove {loc.name}", fs.with_node(loc, Node.Absent))
        elif isinstance(loc, LPF):
            self.effect(interp, f"remove {loc.n}", fs.with_pf(loc.p, loc.n, Node.Absent))
        else:
            raise Unsupported(f"os.remove({loc!r})")

    def x_rmtree(self, interp, loc, ignore_errors=False, onerror=None, **kw):
        """shutil.rmtree; with ignore_errors=True every OSError is swallowed: the call returns normally, whatever was (not) removed"""
        if onerror is not None or kw:
            raise Unsupported("rmtree with an error handler")
        if isinstance(ignore_errors, Sym):
            raise Unsupported("rmtree with a symbolic ignore_errors")
        if not ignore_errors:
            return self._rmtree(interp, loc)
        try:
            return self._rmtree(interp, loc)
        except RaiseSignal as r:
            if isinstance(r.exc, OSError):
                return None
            raise

    def _rmtree(self, interp, loc):
        """multi-step: removes entries one by one; may fail after having removed any subset"""
        ex, fs = interp.ex, self.fs
        if isinstance(loc, LJob):
            k = JD.mk(loc.p, loc.i)
            if not ex.decide(fs.dirs[k], "rmtree:present"):
                raise self.enoent()
            if self.faults and ex.decide(None, "fault:rmtree-partial"):
                part = z3.Array(ex.fresh_name("partial_ent"), Name, Node)
                nm = z3.Const(ex.fresh_name("nm"), Name)
                ex.assume(z3.ForAll([nm], z3.Or(part[nm] == fs.ent[k][nm], part[nm] == Node.Absent)))
                self.effect(interp, "rmtree (partial)", FS(fs.ws, fs.dirs, z3.Store(fs.ent, k, part), fs.pf))
                e = z3.Int(ex.fresh_name("errno"))
                ex.assume(z3.And(e != _errno.ENOENT, e > 0))
                raise RaiseSignal(SymOSError(e))
            self.effect(interp, "rmtree jobdir", FS(fs.ws, z3.Store(fs.dirs, k, False), z3.Store(fs.ent, k, EMPTY), fs.pf))
            return None
        if isinstance(loc, LIn):
            if not ex.decide(self.present(loc), "rmtree:present"):
                raise self.enoent()
            self.fault(interp, "rmtree-sub")
            self.effect(interp, f"rmtree {loc.name}", fs.with_node(loc, Node.Absent))
            return None
        raise Unsupported(f"rmtree({loc!r})")

    def x_copytree(self, interp, src, dst, **kw):
        """multi-step: creates dst (EEXIST if it exists), then copies entries; may fail after any subset"""
        ex, fs = interp.ex, self.fs
        if kw:
            raise Unsupported("copytree keyword arguments")
        if isinstance(src, LJob) and isinstance(dst, LJob):
            ks, kd = JD.mk(src.p, src.i), JD.mk(dst.p, dst.i)
            if not ex.decide(fs.dirs[ks], "copytree:src-present"):
                raise self.enoent()
            if ex.decide(fs.dirs[kd], "copytree:dst-exists"):
                raise RaiseSignal(SymOSError(_errno.EEXIST))
            self.fault(interp, "copytree-mkdir")
            if self.faults and ex.decide(None, "fault:copytree-partial"):
                part = z3.Array(ex.fresh_name("partial_ent"), Name, Node)
                nm = z3.Const(ex.fresh_name("nm"), Name)
                ex.assume(z3.ForAll([nm], z3.Or(part[nm] == fs.ent[ks][nm], part[nm] == Node.Absent)))
                self.effect(interp, "copytree (partial)", FS(fs.ws.__class__ and z3.Store(fs.ws, dst.p, True), z3.Store(fs.dirs, kd, True), z3.Store(fs.ent, kd, part), fs.pf))
                e = z3.Int(ex.fresh_name("errno"))
                ex.assume(z3.And(e != _errno.ENOENT, e != _errno.EEXIST, e > 0))
                raise RaiseSignal(SymOSError(e))
            self.effect(interp, "copytree jobdir", FS(z3.Store(fs.ws, dst.p, True), z3.Store(fs.dirs, kd, True), z3.Store(fs.ent, kd, fs.ent[ks]), fs.pf))
            return None
        raise Unsupported(f"copytree({src!r}, {dst!r})")

    def x_listdir(self, interp, loc):
        raise Unsupported("os.listdir (needs a listing abstraction in this context)")
