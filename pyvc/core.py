"""pyvc core: path exploration by re-execution, decisions, obligations, symbolic value protocol.

The executor (interp.py) runs the *real* AST of /repo functions over a mixed domain of concrete CPython
values and symbolic values (subclasses of Sym).  Every symbolic branch is a *decision*; a function is
re-executed once per feasible decision prefix.  Obligations are (name, path-condition, goal) triples that
are discharged by z3 (cvc5 as second opinion) after the path ends.
"""
import itertools
import os
import threading
import time

import z3

# ----------------------------------------------------------------------------- signals (never caught by modelled `except`)


class Signal(BaseException):
    pass


class RaiseSignal(Signal):
    """The modelled program raises `exc` (a real exception instance, possibly with symbolic payload)."""

    def __init__(self, exc, cause=None):
        self.exc = exc
        self.cause = cause


class ReturnSignal(Signal):
    def __init__(self, v):
        self.v = v


class BreakSignal(Signal):
    pass


class ContinueSignal(Signal):
    pass


class PathEnd(Signal):
    """This path ends here without an outcome (infeasible, or end of a loop-body check)."""


class Unsupported(Signal):
    """Construct outside the supported subset: the function is out of reach (undecided, never a pass)."""

    def __init__(self, msg):
        self.msg = msg

    def __str__(self):
        return self.msg


# ----------------------------------------------------------------------------- symbolic values


class Sym:
    """Base of all symbolic values.  The interpreter dispatches Python operations to these hooks."""

    def sym_truth(self, ex):
        raise Unsupported(f"truthiness of {type(self).__name__}")

    def sym_eq(self, ex, other):
        """Python `==`; returns a concrete bool, or SBool."""
        raise Unsupported(f"== on {type(self).__name__} vs {type(other).__name__}")

    def sym_compare(self, ex, op, other, reflected=False):
        raise Unsupported(f"compare {op} on {type(self).__name__}")

    def sym_binop(self, ex, op, other, reflected=False):
        raise Unsupported(f"binop {op} on {type(self).__name__}")

    def sym_getattr(self, ex, name):
        raise Unsupported(f"attribute .{name} of {type(self).__name__}")

    def sym_setattr(self, ex, name, v):
        raise Unsupported(f"set attribute .{name} of {type(self).__name__}")

    def sym_call(self, ex, args, kw):
        raise Unsupported(f"call of {type(self).__name__}")

    def sym_getitem(self, ex, k):
        raise Unsupported(f"[{k!r}] on {type(self).__name__}")

    def sym_setitem(self, ex, k, v):
        raise Unsupported(f"[{k!r}]= on {type(self).__name__}")

    def sym_delitem(self, ex, k):
        raise Unsupported(f"del [..] on {type(self).__name__}")

    def sym_contains(self, ex, x):
        raise Unsupported(f"`in` on {type(self).__name__}")

    def sym_iter(self, ex):
        """Return a concrete list (unrolled) or a CutSeq (loop is cut with an invariant)."""
        raise Unsupported(f"iteration over {type(self).__name__}")

    def sym_len(self, ex):
        raise Unsupported(f"len() of {type(self).__name__}")

    def sym_isinstance(self, ex, cls):
        """cls is a single real class. Return bool or SBool."""
        raise Unsupported(f"isinstance({type(self).__name__}, {getattr(cls, '__name__', cls)})")

    def sym_type(self, ex):
        raise Unsupported(f"type() of {type(self).__name__}")

    def sym_str(self, ex):
        return OpaqueStr()

    def sym_hashable(self):
        return False


class SBool(Sym):
    def __init__(self, e):
        self.e = e if z3.is_expr(e) else z3.BoolVal(bool(e))

    def sym_truth(self, ex):
        return self.e

    def sym_eq(self, ex, other):
        if isinstance(other, SBool):
            return SBool(self.e == other.e)
        if isinstance(other, bool):
            return SBool(self.e if other else z3.Not(self.e))
        raise Unsupported("SBool == non-bool")

    def sym_isinstance(self, ex, cls):
        return cls in (bool, int, object)

    def __repr__(self):
        return f"SBool({self.e})"


class SInt(Sym):
    def __init__(self, e):
        self.e = e if z3.is_expr(e) else z3.IntVal(int(e))

    def sym_truth(self, ex):
        return self.e != 0

    @staticmethod
    def _lift(o):
        if isinstance(o, SInt):
            return o.e
        if isinstance(o, bool):
            return z3.IntVal(int(o))
        if isinstance(o, int):
            return z3.IntVal(o)
        return None

    def sym_eq(self, ex, other):
        o = self._lift(other)
        if o is None:
            if isinstance(other, Sym):
                raise Unsupported(f"SInt == {type(other).__name__}")
            return False
        return SBool(self.e == o)

    def sym_compare(self, ex, op, other, reflected=False):
        o = self._lift(other)
        if o is None:
            raise Unsupported(f"SInt {op} {type(other).__name__}")
        a, b = (o, self.e) if reflected else (self.e, o)
        return SBool({"Lt": a < b, "LtE": a <= b, "Gt": a > b, "GtE": a >= b}[op])

    def sym_binop(self, ex, op, other, reflected=False):
        o = self._lift(other)
        if o is None:
            raise Unsupported(f"SInt {op} {type(other).__name__}")
        a, b = (o, self.e) if reflected else (self.e, o)
        if op == "Add":
            return SInt(a + b)
        if op == "Sub":
            return SInt(a - b)
        if op == "Mult":
            return SInt(a * b)
        if op == "Div":
            return SQuot(a, b)
        raise Unsupported(f"SInt binop {op}")

    def sym_isinstance(self, ex, cls):
        return cls in (int, object)

    def __repr__(self):
        return f"SInt({self.e})"


class SQuot(Sym):
    """true division a / b of two integers: only int() of it is given a meaning (by the contract's context), formatting is opaque"""

    def __init__(self, a, b):
        self.a, self.b = a, b


class OpaqueStr(Sym):
    """A string whose content is irrelevant (log / error messages, f-strings)."""

    def sym_binop(self, ex, op, other, reflected=False):
        return self

    def sym_getattr(self, ex, name):
        if name in ("format", "join", "strip", "lower", "upper"):
            return NativeStub(lambda *a, **k: OpaqueStr())
        raise Unsupported(f"OpaqueStr.{name}")

    def sym_isinstance(self, ex, cls):
        return cls in (str, object)

    def sym_truth(self, ex):
        raise Unsupported("truthiness of an opaque message string")

    def __repr__(self):
        return "<msg>"


class NativeStub:
    """A callable provided by the framework (models, contract stubs). Called as f(*args, **kw)."""

    def __init__(self, f, name=None, wants_ex=False):
        self.f, self.name, self.wants_ex = f, name or getattr(f, "__name__", "stub"), wants_ex

    def __repr__(self):
        return f"<stub {self.name}>"

    def __call__(self, *a, **k):        # so that the builtin callable() sees a callable; the interpreter dispatches on the type before this
        if self.wants_ex:
            raise Unsupported("direct call of a stub that needs the interpreter")
        return self.f(*a, **k)


class CutSeq:
    """Abstract finite sequence for a loop that is cut by an invariant: length n (z3 Int or int), element
    factory at(ex, i) producing the loop target value for index i (z3 Int)."""

    def __init__(self, n, at, label=None):
        self.n, self.at, self.label = n, at, label


def has_sym(v, depth=0):
    if isinstance(v, Sym):
        return True
    if depth > 6:
        return False
    if isinstance(v, (list, tuple, set, frozenset)):
        return any(has_sym(x, depth + 1) for x in v)
    if isinstance(v, dict):
        return any(has_sym(k, depth + 1) or has_sym(x, depth + 1) for k, x in v.items())
    return False


# ----------------------------------------------------------------------------- obligations


class Obligation:
    __slots__ = ("name", "pc", "goal", "path", "kind", "note")

    def __init__(self, name, pc, goal, path, kind="prove", note=""):
        self.name, self.pc, self.goal, self.path, self.kind, self.note = name, pc, goal, path, kind, note


_fresh = itertools.count()


class _Counter:
    """bound-variable name counter, reset at the start of every path so that queries are identical across runs / workers"""

    def __init__(self):
        self.n = 0

    def __next__(self):
        self.n += 1
        return self.n


QCOUNT = _Counter()
_qcache = {}


def _has_quantifier(e):
    k = e.get_id()
    r = _qcache.get(k)
    if r is None:
        r = False
        todo, seen = [e], set()
        while todo:
            x = todo.pop()
            if x.get_id() in seen:
                continue
            seen.add(x.get_id())
            if z3.is_quantifier(x):
                r = True
                break
            todo.extend(x.children())
        _qcache[k] = r
    return r


class Ex:
    """One execution of the function under a decision prefix."""

    FEAS_TIMEOUT_MS = 1000
    FEAS_RLIMIT = 400000

    def __init__(self, prefix=()):
        QCOUNT.n = 0
        self.prefix = list(prefix)
        self.trace, self.labels, self.pending = [], [], []
        self.pc = []
        self.obl = []
        self.counter = itertools.count()
        self.assumptions_used = set()
        self.lengths = []          # symbolic lengths of sequences cut by loop invariants (used to look for small counter-models)
        self.effects = []  # FS effect trace: (label, state, pc-snapshot)
        self.ghost = {}  # free-form ghost state for theories (fs, heap, ...)
        self.cover = []  # labels of reached postcondition points
        self.stats = {"feas_checks": 0}

    # ---- fresh names (deterministic per path)
    def fresh_name(self, base):
        return f"{base}!{next(self.counter)}"

    def fresh(self, base, sort):
        return z3.Const(self.fresh_name(base), sort)

    # ---- decisions
    def feasible(self, cond):
        """Over-approximate feasibility (used only to prune): quantified hypotheses are dropped, so `unsat`
        really means infeasible, and anything else is explored."""
        self.stats["feas_checks"] += 1
        s = z3.Solver()
        s.set(timeout=self.FEAS_TIMEOUT_MS * 5, rlimit=self.FEAS_RLIMIT)  # rlimit: deterministic budget (verdicts do not depend on load)
        for c in self.pc:
            if not _has_quantifier(c):
                s.add(c)
        s.add(cond)
        return guarded_check(s, self.FEAS_TIMEOUT_MS * 5) != z3.unsat

    def decide(self, cond, label=""):
        """Branch on cond (z3 Bool) or, with cond None, on a free choice. Returns the branch taken."""
        k = len(self.trace)
        if k < len(self.prefix):
            d = self.prefix[k]
            if cond is not None and not self.feasible(cond if d else z3.Not(cond)):
                raise PathEnd()
        elif cond is None:
            d = True
            self.pending.append(self.trace + [False])
        else:
            cond = z3.simplify(cond)
            if z3.is_true(cond):
                return True
            if z3.is_false(cond):
                return False
            ok_t, ok_f = self.feasible(cond), self.feasible(z3.Not(cond))
            if not ok_t and not ok_f:
                raise PathEnd()
            d = ok_t
            if ok_t and ok_f:
                self.pending.append(self.trace + [False])
        self.trace.append(d)
        self.labels.append(label)
        if cond is not None:
            self.pc.append(cond if d else z3.Not(cond))
        return d

    def choose(self, n, label=""):
        """Free n-way choice, encoded as a chain of binary decisions. Returns index 0..n-1."""
        for i in range(n - 1):
            if self.decide(None, f"{label}={i}"):
                return i
        return n - 1

    def assume(self, cond, why=None):
        self.pc.append(cond)
        if why:
            self.assumptions_used.add(why)

    def oblige(self, name, goal, kind="prove", note=""):
        if isinstance(goal, bool):
            goal = z3.BoolVal(goal)
        if kind == "prove" and z3.is_false(goal):
            kind = "forbidden"     # reaching this point at all is the violation (e.g. an exception that must not escape)
        self.obl.append(Obligation(name, list(self.pc), goal, self.path_tag(), kind, note))

    def path_tag(self):
        return " ".join(f"{l}={'T' if d else 'F'}" for l, d in zip(self.labels, self.trace))

    def truth(self, v, label=""):
        """Python truthiness of a mixed value, forking when symbolic."""
        if isinstance(v, Sym):
            t = v.sym_truth(self)
            if isinstance(t, bool):
                return t
            t = z3.simplify(t)
            if z3.is_true(t):
                return True
            if z3.is_false(t):
                return False
            return self.decide(t, label)
        return bool(v)

    def effect(self, label, state):
        self.effects.append((label, state, list(self.pc)))


# ----------------------------------------------------------------------------- solving


def guarded_check(s, budget_ms):
    """s.check() with a watchdog: z3 does not always honour its own timeout (array / quantifier tactics); the timer interrupts the context"""
    timer = threading.Timer(budget_ms / 1000.0 + 2.0, lambda: z3.main_ctx().interrupt())
    timer.daemon = True
    timer.start()
    try:
        return s.check()
    except z3.Z3Exception:
        return z3.unknown
    finally:
        timer.cancel()


def solve(pc, goal, timeout_ms=10000, seed=0):
    """Check pc |= goal. Returns (verdict, model_or_None, seconds); verdict in unsat/sat/unknown."""
    s = z3.Solver()
    s.set(timeout=timeout_ms)
    if seed:
        s.set("random_seed", seed)
    s.add(*pc)
    s.add(z3.Not(goal))
    t = time.time()
    # z3 does not always honour its own timeout (array/quantifier tactics): interrupt it from a timer thread
    timer = threading.Timer(timeout_ms / 1000.0 + 2.0, lambda: z3.main_ctx().interrupt())
    timer.daemon = True
    timer.start()
    try:
        r = s.check()
    except z3.Z3Exception:
        r = z3.unknown
    finally:
        timer.cancel()
    dt = time.time() - t
    if r == z3.sat:
        return "sat", s.model(), dt
    if r == z3.unsat:
        return "unsat", None, dt
    return "unknown", None, dt


class TextModel:
    """a counter-model obtained through z3's SMT-LIB front end (text of (get-model)); no term evaluation"""

    def __init__(self, text):
        self.text = text

    def __str__(self):
        return self.text

    def sexpr(self):
        return self.text


def solve_frontend(pc, goal, timeout_ms=5000, extra=()):
    """Same query through z3's SMT-LIB2 front end in a fresh context.  Observed on this image (z3 5.1.0): the front end's solver set-up
    finds finite models of quantified queries that the API solver object leaves `unknown`; verdicts have the same standing."""
    src = smt2_of(list(pc) + list(extra), goal).replace("(check-sat)", "")
    src = f"(set-option :timeout {int(timeout_ms)})\n" + src + "\n(check-sat)\n"
    t = time.time()
    ctx = z3.Context()
    timer = threading.Timer(timeout_ms / 1000.0 + 2.0, lambda: ctx.interrupt())
    timer.daemon = True
    timer.start()
    try:
        out = z3.Z3_eval_smtlib2_string(ctx.ref(), src).strip()
        if out.startswith("sat"):
            mt = z3.Z3_eval_smtlib2_string(ctx.ref(), "(get-model)")
            return "sat", TextModel(mt), time.time() - t
        if out.startswith("unsat"):
            return "unsat", None, time.time() - t
    except z3.Z3Exception:
        pass
    finally:
        timer.cancel()
    return "unknown", None, time.time() - t


CVC5 = "/usr/bin/cvc5"


def solve_cvc5(pc, goal, timeout_ms=5000, extra=()):
    """Second solver: cvc5 with finite model finding on the same SMT-LIB text (z3's MBQI leaves many satisfiable quantified queries
    `unknown` that have small finite models).  sat / unsat have the same standing as z3's; parse errors and timeouts are `unknown`."""
    import subprocess
    import tempfile
    if not os.path.exists(CVC5):
        return "unknown", None, 0.0
    t = time.time()
    try:
        src = smt2_of(list(pc) + list(extra), goal)
    except Exception:
        return "unknown", None, 0.0
    src = "(set-option :produce-models true)\n(set-logic ALL)\n" + src.replace("(check-sat)", "(check-sat)\n(get-model)")
    fd, path = tempfile.mkstemp(suffix=".smt2", prefix="pyvc_")
    try:
        with os.fdopen(fd, "w") as f:
            f.write(src)
        p = subprocess.run([CVC5, "--finite-model-find", "--strings-exp", f"--tlimit={int(timeout_ms)}", path], capture_output=True, text=True, timeout=timeout_ms / 1000.0 + 5)
        out = p.stdout.strip()
        if out.startswith("sat"):
            return "sat", TextModel("cvc5 --finite-model-find: " + out[3:].strip()), time.time() - t
        if out.startswith("unsat"):
            return "unsat", None, time.time() - t
    except Exception:
        pass
    finally:
        try:
            os.unlink(path)
        except OSError:
            pass
    return "unknown", None, time.time() - t


def refute_small(pc, goal, lengths, timeout_ms=3000):
    """Counter-model search in a strengthened path condition: every cut sequence is given length 0, then 1, then 2.
    Strengthening the hypotheses can only lose counter-models, so a `sat` here is a genuine counter-model of pc |= goal;
    anything else leaves the verdict unknown."""
    dt = 0.0
    if not lengths:
        return "unknown", None, dt
    for k in (0, 1, 2):
        v, m, t = solve_frontend(pc, goal, timeout_ms, extra=[n == k for n in lengths])
        dt += t
        if v == "sat":
            return v, m, dt
    # mixed small lengths
    v, m, t = solve_frontend(pc, goal, timeout_ms, extra=[z3.And(n >= 0, n <= 2) for n in lengths])
    dt += t
    if v == "sat":
        return v, m, dt
    return "unknown", None, dt


def _uninterpreted_functions(fmls):
    seen, out = set(), {}

    def walk(e):
        if e.get_id() in seen:
            return
        seen.add(e.get_id())
        if z3.is_quantifier(e):
            walk(e.body())
            return
        if z3.is_app(e):
            d = e.decl()
            if d.kind() == z3.Z3_OP_UNINTERPRETED and d.arity() > 0:
                out[d.name()] = d
            for c in e.children():
                walk(c)
    for f in fmls:
        walk(f)
    return out


def refute_constant_world(pc, goal, timeout_ms=3000):
    """Counter-model search among the interpretations in which every uninterpreted function is a constant function: each f is replaced
    by a fresh constant f!const (z3.substitute_funs), which removes the function symbols the model-based quantifier instantiation
    stumbles over.  A model of the substituted query is a model of the original one (read f as the constant function), so `sat` is a
    genuine counter-model of pc |= goal; anything else leaves the verdict unknown."""
    t = time.time()
    try:
        fmls = list(pc) + [z3.Not(goal)]
        fs = _uninterpreted_functions(fmls)
        if not fs:
            return "unknown", None, 0.0
        subs = [(d, z3.Const(name + "!const", d.range())) for name, d in fs.items()]
        s = z3.Solver()
        s.set("timeout", timeout_ms)
        for f in fmls:
            s.add(z3.substitute_funs(f, *subs))
        timer = threading.Timer(timeout_ms / 1000.0 + 2.0, lambda: z3.main_ctx().interrupt())
        timer.daemon = True
        timer.start()
        try:
            r = s.check()
        finally:
            timer.cancel()
        if r == z3.sat:
            return "sat", s.model(), time.time() - t
    except Exception:
        pass
    return "unknown", None, time.time() - t


def smt2_of(pc, goal):
    s = z3.Solver()
    s.add(*pc)
    s.add(z3.Not(goal))
    return s.to_smt2()


def pc_status(pc, timeout_ms=1500):
    """Is the path condition satisfiable?  sat / unsat / unknown (quantified hypotheses often give unknown)."""
    s = z3.Solver()
    s.set(timeout=timeout_ms * 4, rlimit=3000000)     # deterministic budget
    nq = 0
    for c in pc:
        if _has_quantifier(c):
            nq += 1
        else:
            s.add(c)
    r = guarded_check(s, timeout_ms * 4)
    if r == z3.unsat:
        return "unsat"
    if r == z3.sat and nq == 0:
        return "sat"
    return "unknown"  # quantifier-free part satisfiable; the quantified hypotheses are covered by the finite-scope guard


def full_pc_unsat(pc, timeout_ms=700):
    s = z3.Solver()
    s.set(timeout=timeout_ms)
    s.add(*pc)
    return guarded_check(s, timeout_ms) == z3.unsat
