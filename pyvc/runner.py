"""Property-level runner: contracts -> obligations -> verdict, evidence, replay files."""
import hashlib
import importlib
import json
import multiprocessing as mp
import os
import pkgutil
import re
import sys
import time
import traceback

ROOT = os.path.dirname(os.path.dirname(os.path.abspath(__file__)))
LOCK = os.path.join(ROOT, "obligations.lock.json")
FINDINGS = os.path.join(ROOT, "known_findings.json")


def all_contracts():
    import contracts
    out = []
    for m in pkgutil.iter_modules(contracts.__path__):
        mod = importlib.import_module(f"contracts.{m.name}")
        for i, c in enumerate(getattr(mod, "CONTRACTS", [])):
            out.append((mod.__name__, i, c))
    return out


def _task(t):
    modname, idx, case_i, shard = t
    sys.setrecursionlimit(10000)
    from pyvc.verify import verify_contract
    mod = importlib.import_module(modname)
    c = mod.CONTRACTS[idx]
    cases = c.cases()
    case = cases[case_i]
    orig = c.cases
    c.cases = lambda: [case]
    t0 = time.time()
    try:
        out = verify_contract(c, shard=shard)
    except BaseException:
        c.cases = orig
        return {"target": c.target, "contract": type(c).__name__, "case": c.case_name(case), "crash": traceback.format_exc()[-2000:],
                "results": {}, "undecided": [], "errors": [], "paths": 0, "assumptions": [], "wall_s": time.time() - t0}
    c.cases = orig
    res = {}
    for name, r in out["results"].items():
        j = r.to_json()
        j["kind"] = r.kind
        j["sample_smt"] = r.sample_smt
        res[name] = j
    witness = {}
    for name, (case_, m, ob) in out["models"].items():
        wb = getattr(c, "witness", None)
        from . import core as _core
        if wb is not None and not isinstance(m, _core.TextModel):
            try:
                w = wb(case_, m, ob)
                if w:
                    witness[name] = w
            except Exception:
                witness[name] = {"error": traceback.format_exc()[-800:]}
    return {"target": c.target, "contract": type(c).__name__, "case": c.case_name(case), "results": res, "undecided": out["undecided"],
            "errors": out["errors"], "paths": out["paths"], "assumptions": sorted(out["assumptions"]), "wall_s": out.get("wall_s", 0.0),
            "source_hash": out.get("source_hash"), "exec_hash": out.get("exec_hash"), "covers": out.get("covers", 0), "witness": witness,
            "properties": list(c.properties), "level": getattr(c, "level", "proof")}


def run_property(pid, tier="quick", seed=0, jobs=None, only=None):
    """Verify every contract that serves property pid. Returns aggregate dict."""
    sys.path.insert(0, ROOT)
    tasks = []
    for modname, idx, c in all_contracts():
        if pid in c.properties and (only is None or only in c.target or only == type(c).__name__):
            if getattr(c, "thorough_only", False) and tier != "thorough":
                continue
            import itertools
            for ci, _ in enumerate(c.cases()):
                for shard in itertools.product((True, False), repeat=getattr(c, "shard_bits", 0)):
                    tasks.append((modname, idx, ci, shard))
    t0 = time.time()
    if not tasks:
        return {"tasks": [], "wall_s": 0.0}
    jobs = jobs or min(16, max(2, len(tasks)))
    if jobs == 1:
        outs = [_task(t) for t in tasks]
    else:
        limit = float(os.environ.get("PYVC_TASK_TIMEOUT", 600 if tier == "quick" else 1800))
        # two rounds: tasks that have not finished within the first budget are started again in fresh processes (a task that hangs -- seen
        # twice in a day of runs, in a forked z3 process that never returned -- passes on the second start; a task that is merely slow gets
        # the full limit then)
        first = float(os.environ.get("PYVC_TASK_FIRST_ROUND", 240 if tier == "quick" else 900))
        done, pending = {}, list(tasks)
        for budget in (min(first, limit), limit):
            pool = mp.get_context("fork").Pool(jobs, maxtasksperchild=1)
            still = []
            try:
                asyncs = [(t, pool.apply_async(_task, (t,))) for t in pending]
                deadline = time.time() + budget
                for t, a in asyncs:
                    try:
                        done[t] = a.get(timeout=max(1.0, deadline - time.time()))
                    except mp.TimeoutError:
                        still.append(t)
            finally:
                pool.terminate()
            pending = still
            if not pending:
                break
        for t in pending:
            mod = importlib.import_module(t[0])
            c = mod.CONTRACTS[t[1]]
            done[t] = {"target": c.target, "contract": type(c).__name__, "case": c.case_name(c.cases()[t[2]]), "results": {},
                       "undecided": [f"{c.target}[{c.case_name(c.cases()[t[2]])}]: verification task exceeded the time limit of {limit:.0f}s (started twice)"],
                       "errors": [], "paths": 0, "assumptions": [], "wall_s": limit}
        outs = [done[t] for t in tasks]
    return {"tasks": outs, "wall_s": time.time() - t0}


def load_json(path, default):
    try:
        with open(path) as f:
            return json.load(f)
    except FileNotFoundError:
        return default


def aggregate(outs):
    """name -> {status, instances, discharged, failed:[(case, path, model)], unknown:[...], solver_s}"""
    agg = {}
    for o in outs:
        for name, r in o["results"].items():
            a = agg.setdefault(name, {"name": name, "instances": 0, "discharged": 0, "vacuous": 0, "failed": [], "unknown": [], "solver_s": 0.0, "solver_max_s": 0.0,
                                      "target": o["target"], "kind": r.get("kind", "prove"), "sample_smt": None, "backend": r.get("backend")})
            if r.get("kind") == "forbidden":
                a["kind"] = "forbidden"
            a["instances"] += r["instances"]
            a["discharged"] += r["discharged"]
            a["vacuous"] += r["vacuous"]
            a["solver_s"] += r["solver_s"]
            a["solver_max_s"] = max(a["solver_max_s"], r.get("solver_max_s", 0.0))
            if "cvc5" in (r.get("backend") or ""):
                a["backend"] = r["backend"]
            for f in r["failed"]:
                a["failed"].append({"case": f[0], "path": f[1], "model": f[3], "witness": o.get("witness", {}).get(name)})
            for f in r["unknown"]:
                a["unknown"].append({"case": f[0], "path": f[1]})
            if a["sample_smt"] is None and r.get("sample_smt"):
                a["sample_smt"] = r["sample_smt"]
    for a in agg.values():
        a["status"] = "sat" if a["failed"] else "unknown" if a["unknown"] else "discharged" if a["discharged"] > 0 else "vacuous"
    return agg


def slug(s):
    return re.sub(r"[^A-Za-z0-9_.-]+", "_", s)[:150]
