"""Verdict protocol, evidence writer, replay files (DESIGN 2.6 / 2.7 / 2.11)."""
import importlib
import json
import os
import subprocess
import sys
import time
import traceback

from . import runner

ROOT = runner.ROOT
EVID = os.path.join(ROOT, "evidence")
REPLAYS = os.path.join(ROOT, "replays")

GLOBAL_TRUSTED = [
    "pyvc's encoding of CPython 3.12 semantics for the supported subset (cross-checked by the concrete-mode conformance guard, not proved)",
    "z3 %s as the deciding back end",
    "Python ints are mathematical; floats treated as reals (NaN / inf / |x|>=2**53 excluded as in the properties' quantifiers)",
    "generators consumed eagerly; `with <RLock>` blocks transparent (no second thread)",
]


def manifest_entry(pid):
    m = runner.load_json(os.path.join(ROOT, "MANIFEST.json"), {})
    for c in m.get("checks", []):
        if c.get("property_id") == pid:
            return c
    return {}


def finding_matches(f, pid, name, case):
    return f.get("property") == pid and f.get("status", "open") == "open" and f.get("obligation") == name and (f.get("case") in (None, "*", case))


BOUNDED_REPLAYS_THIS_RUN = []


def write_replay(pid, name, fail, extra=None):
    os.makedirs(os.path.join(REPLAYS, pid), exist_ok=True)
    path = os.path.join(REPLAYS, pid, runner.slug(name + "__" + (fail.get("case") or "")) + ".json")
    doc = {"property": pid, "obligation": name, "case": fail.get("case"), "path": fail.get("path"), "solver_model": fail.get("model"),
           "witness": fail.get("witness"), "how_to_replay": f"./check {pid} --replay {os.path.relpath(path, ROOT)}"}
    if extra:
        doc.update(extra)
    if BOUNDED_REPLAYS_THIS_RUN:
        # the bounded layer of the same run found concrete failing inputs on the real code of this tree: their replay files carry scripts
        doc["failing_inputs_found_by_the_bounded_layer_in_this_run"] = list(BOUNDED_REPLAYS_THIS_RUN)
    with open(path, "w") as f:
        json.dump(doc, f, indent=1, default=str)
    return os.path.relpath(path, ROOT)


def try_native_replay(witness):
    """Run a witness script against the real code. Returns (reproduced: bool|None, output)."""
    if not witness or "script" not in witness:
        return None, ""
    try:
        p = subprocess.run([sys.executable, "-c", witness["script"]], capture_output=True, text=True, timeout=120, cwd="/")
        return p.returncode != 0, (p.stdout + p.stderr)[-1500:]
    except Exception as e:
        return None, repr(e)


def run_bounded(pid, tier, seed):
    """Bounded stand-in layer (pybound): run-time contract checking over enumerated small scopes. Labelled bounded."""
    try:
        mod = importlib.import_module(f"pybound.{pid.lower()}")
    except ModuleNotFoundError:
        return None
    try:
        return mod.run(tier=tier, seed=seed)
    except BaseException:
        return {"crash": traceback.format_exc()[-2000:], "failures": [], "evaluations": 0, "distinct_nontrivial": 0, "samples": [], "scope": "crashed"}


LEAN_LEMMAS = {"C03": ["inv_after_history", "inv_after_history_partial"], "C08": ["inv_after_history", "tiling_prefix"], "C07": ["nodup_same_set_length", "pointwise_map"],
               "C06": ["pointwise_map"], "C15": ["pointwise_map"], "C16": ["values_card_eq_iff_injective"]}


def run_lean(pid, tier):
    """thorough tier: the meta-lemmas the property's contracts lean on (stated as assumptions in the quick tier) are re-checked by Lean"""
    if tier != "thorough" or pid not in LEAN_LEMMAS:
        return None
    import shutil
    import subprocess
    src = os.path.join(ROOT, "lean", "Meta.lean")
    exe = shutil.which("lean")
    if exe is None or not os.path.exists(src):
        return {"status": "unavailable", "lemmas": LEAN_LEMMAS[pid]}
    t = time.time()
    try:
        p = subprocess.run([exe, src], capture_output=True, text=True, timeout=1500, cwd=os.path.join(ROOT, "lean"))
        out = (p.stdout + p.stderr).strip()
        ok = p.returncode == 0 and "error" not in out and "sorry" not in out
        return {"status": "checked" if ok else "failed", "lemmas": LEAN_LEMMAS[pid], "checker": "lean (Lean 4 + Mathlib, /verif/lean/Meta.lean)", "seconds": round(time.time() - t, 1), "output": out[-600:]}
    except Exception as e:
        return {"status": "unavailable", "lemmas": LEAN_LEMMAS[pid], "output": repr(e)[:200]}


def check_property(pid, tier, seed, relock=False, only=None, jobs=None, verbose=False):
    import z3
    t0 = time.time()
    if only is None:
        import shutil
        shutil.rmtree(os.path.join(REPLAYS, pid), ignore_errors=True)
    entry = manifest_entry(pid)
    level = entry.get("level_claimed", {}).get("category", "other")
    run = runner.run_property(pid, tier, seed, jobs=jobs, only=only)
    outs = run["tasks"]
    agg = runner.aggregate(outs)
    lock = runner.load_json(runner.LOCK, {})
    findings = runner.load_json(runner.FINDINGS, {"findings": []})["findings"]
    locked = lock.get(pid, {})

    crashes = [o for o in outs if o.get("crash")]
    errors = [e for o in outs for e in o["errors"]]
    undecided = [u for o in outs for u in o["undecided"]]
    violations, known, unknowns = [], [], []
    for name, a in sorted(agg.items()):
        if a["kind"] == "refute":
            continue
        for f in a["failed"]:
            kf = next((k for k in findings if finding_matches(k, pid, name, f["case"])), None)
            if kf is not None:
                if kf["id"] not in [k["id"] for k in known]:
                    known.append(kf)
            else:
                violations.append((name, f))
        for u in a["unknown"]:
            unknowns.append((name, u))
    missing = [n for n in locked if n not in agg] if only is None else []
    for n in missing:
        undecided.append(f"locked obligation {n} was not generated on this tree")
    # vacuity guards
    guard_fail = []
    for name, a in agg.items():
        if a["kind"] == "refute" and a["status"] != "discharged":
            guard_fail.append(f"must-fail twin {name} was not refuted ({a['status']}): contract may be vacuous")
        if a["kind"] != "refute" and a["status"] == "vacuous" and locked.get(name) == "discharged":
            guard_fail.append(f"obligation {name} became vacuous (no feasible path reaches it)")
    if not agg and not only:
        guard_fail.append("zero obligations generated")

    lean = run_lean(pid, tier) if only is None else None
    if lean and lean["status"] == "failed":
        guard_fail.append("a Lean meta-lemma no longer checks: " + lean.get("output", "")[-300:])
    # bounded layer
    bounded = None
    if only is None:
        bounded = run_bounded(pid, tier, seed)
    b_viol = []
    if bounded:
        seen_keys = set()
        for f in bounded.get("failures", []):
            if f.get("key") in seen_keys:
                continue
            seen_keys.add(f.get("key"))
            kf = next((k for k in findings if k.get("property") == pid and k.get("status", "open") == "open" and k.get("bounded_key") and k["bounded_key"] == f.get("key")), None)
            if kf is not None:
                if kf["id"] not in [k["id"] for k in known]:
                    known.append(kf)
            else:
                b_viol.append(f)

    # ---- report
    n_inst = sum(a["instances"] for a in agg.values() if a["kind"] != "refute")
    n_dis = sum(a["discharged"] for a in agg.values() if a["kind"] != "refute")
    n_vac = sum(a["vacuous"] for a in agg.values() if a["kind"] != "refute")
    n_known_inst = sum(1 for name, a in agg.items() for f in a["failed"] if any(finding_matches(k, pid, name, f["case"]) for k in findings))
    lines = []
    exit_code = 0
    for k in known:
        lines.append(f"KNOWN-FINDING: property={pid} {k['id']} {k['summary']}")
    del BOUNDED_REPLAYS_THIS_RUN[:]
    BOUNDED_REPLAYS_THIS_RUN.extend(os.path.join("replays", pid, runner.slug("bounded__" + str(f.get("key"))) + ".json") for f in b_viol)
    seen_v = set()
    for name, f in violations:
        if (name, f["case"]) in seen_v:
            continue
        seen_v.add((name, f["case"]))
        reproduced, outp = try_native_replay(f.get("witness"))
        was_locked = locked.get(name) == "discharged"
        rp = write_replay(pid, name, f, {"native_replay": {"reproduced": reproduced, "output": outp}, "was_discharged_on_locked_tree": was_locked})
        forbidden = agg[name]["kind"] == "forbidden"
        if reproduced:
            lines.append(f"VIOLATION property={pid} replay={rp}")
            exit_code = 1
        elif was_locked or not locked or forbidden:
            lines.append(f"VIOLATION property={pid} replay={rp} obligation={name} no-failing-input-found")
            exit_code = 1
        else:
            undecided.append(f"obligation {name} [{f['case']}] has a counter-model but was never discharged before and does not replay")
    # a locked (discharged on the unchanged tree) obligation that no solver can discharge any more, in a function whose executed source text
    # differs from the locked tree: the obligation fails -- reported as the violation, without an input (the solvers' verdict is `unknown`).
    # With an unchanged source text the same situation is solver trouble, not a change of the code: undecided.
    import hashlib as _hl
    cur_exec = {}
    for o in outs:
        if o.get("exec_hash"):
            cur_exec.setdefault(o["target"], set()).add(o["exec_hash"])
    cur_exec = {t: _hl.sha256("|".join(sorted(v)).encode()).hexdigest()[:16] for t, v in cur_exec.items()}
    locked_exec = lock.get("__exec__", {}).get(pid, {})
    still_unknown = []
    seen_u = set()
    for name, u in unknowns:
        target = agg[name].get("target")
        changed = target in locked_exec and cur_exec.get(target) is not None and locked_exec[target] != cur_exec[target]
        if locked.get(name) == "discharged" and changed and not relock:
            if name in seen_u:
                continue
            seen_u.add(name)
            rp = write_replay(pid, name, {"case": u.get("case"), "path": u.get("path"), "model": "", "witness": None},
                              {"verifier_output": "unknown: z3 " + z3.get_version_string() + " (API solver, SMT-LIB front end, reseeded), cvc5 --finite-model-find --strings-exp and the small-model "
                                                  "search all failed to discharge or refute this obligation within their budgets",
                               "was_discharged_on_locked_tree": True, "function_source_changed_since_lock": True})
            lines.append(f"VIOLATION property={pid} replay={rp} obligation={name} no-failing-input-found")
            exit_code = 1
        else:
            still_unknown.append((name, u))
    unknowns = still_unknown
    for f in b_viol:
        os.makedirs(os.path.join(REPLAYS, pid), exist_ok=True)
        path = os.path.join(REPLAYS, pid, runner.slug("bounded__" + str(f.get("key"))) + ".json")
        with open(path, "w") as fh:
            json.dump({"property": pid, "bounded": True, **f}, fh, indent=1, default=str)
        lines.append(f"VIOLATION property={pid} replay={os.path.relpath(path, ROOT)}")
        exit_code = 1
    if exit_code == 0:
        if crashes or errors or (bounded and bounded.get("crash")):
            exit_code = 3
        elif undecided or unknowns or guard_fail:
            exit_code = 2

    if relock:
        lock[pid] = {name: ("discharged" if a["status"] == "discharged" else "known-finding" if a["status"] == "sat" else a["status"])
                     for name, a in sorted(agg.items()) if a["kind"] != "refute"}
        lock.setdefault("__exec__", {})[pid] = cur_exec
        with open(runner.LOCK, "w") as f:
            json.dump(lock, f, indent=1, sort_keys=True)

    # ---- evidence
    funcs = {}
    for o in outs:
        fn = funcs.setdefault(o["target"], {"function": o["target"], "source_sha256_16": o.get("source_hash"), "cases": 0, "paths": 0, "contract": o.get("contract")})
        fn["cases"] += 1
        fn["paths"] += o["paths"]
    assumptions = sorted({a for o in outs for a in o["assumptions"]})
    samples = []
    for name, a in list(sorted(agg.items()))[:400]:
        if a["sample_smt"] and len(samples) < 3:
            samples.append({"obligation": name, "verdict": a["status"], "smt2_tail": a["sample_smt"][-600:]})
    oblist = [{"name": n, "status": a["status"], "instances": a["instances"], "discharged": a["discharged"], "vacuous": a["vacuous"],
               "solver_s": round(a["solver_s"], 3), "slowest_query_s": round(a.get("solver_max_s", 0.0), 3), "backend": a["backend"]} for n, a in sorted(agg.items())]
    trusted = [t % z3.get_version_string() if "%s" in t else t for t in GLOBAL_TRUSTED] + assumptions
    cov = {
        "obligations": n_inst - n_known_inst,
        "discharged": n_dis,
        "vacuous_instances": n_vac,
        "known_finding_instances": n_known_inst,
        "obligation_names": len([a for a in agg.values() if a["kind"] != "refute"]),
        "checker_cmd": f"./check {pid} --tier {tier}",
        "trusted_base": trusted,
        "functions_under_contract": sorted(funcs.values(), key=lambda x: x["function"]),
        "obligation_list": oblist,
        "samples": samples or [{"note": "no discharged obligation sample available"}],
        "solver_time_s": round(sum(a["solver_s"] for a in agg.values()), 2),
        "slowest_query_s": round(max([a.get("solver_max_s", 0.0) for a in agg.values()] or [0.0]), 3),
        "solver_budget_per_query_s": 8.0,
        "undecided": undecided[:30],
        "lean_meta_lemmas": lean or {"status": "not run in this tier" if pid in LEAN_LEMMAS else "none used", "lemmas": LEAN_LEMMAS.get(pid, [])},
        "guards": {"must_fail_twins_refuted": sum(1 for a in agg.values() if a["kind"] == "refute" and a["status"] == "discharged"),
                   "guard_failures": guard_fail, "postcondition_points_covered": sum(o.get("covers", 0) for o in outs)},
        "explanation": "pyvc: verification conditions generated by symbolically executing the real /repo function bodies (re-parsed on this run) "
                       "against sidecar contracts; one z3 query per (path, obligation). `obligations`/`discharged` count path-level VCs of the deductive "
                       "layer only; the bounded layer is reported separately under `bounded` and never counted as proved.",
        "extraction_drops": "docstrings, comments, type annotations; logger/warnings/print calls are evaluated for their arguments and otherwise ignored",
    }
    if bounded:
        cov["bounded"] = {k: bounded.get(k) for k in ("scope", "evaluations", "distinct_nontrivial", "rule", "samples", "crosshair") if k in bounded}
        cov["bounded"]["label"] = "bounded stand-in (run-time contract checking over an enumerated small scope); not counted as proved"
        cov["evaluations"] = int(bounded.get("evaluations", 0))
        cov["distinct_nontrivial"] = int(bounded.get("distinct_nontrivial", 0))
        cov["rule"] = bounded.get("rule", "")
    ev = {"property_id": pid, "tier": tier, "seed": seed, "level": level, "coverage": cov, "assumptions": trusted,
          "wall_s": round(time.time() - t0, 2), "violations": len([l for l in lines if l.startswith("VIOLATION")]),
          "known_findings": [k["id"] for k in known], "exit_code": exit_code}
    if only is None:
        os.makedirs(EVID, exist_ok=True)
        with open(os.path.join(EVID, f"{pid}.json"), "w") as f:
            json.dump(ev, f, indent=1, default=str)

    for l in lines:
        print(l)
    print(f"[{pid}] tier={tier} functions={len(funcs)} paths={sum(o['paths'] for o in outs)} obligations={n_inst} discharged={n_dis} vacuous={n_vac} "
          f"known-finding-instances={n_known_inst} unknown={len(unknowns)} undecided={len(undecided)} wall={time.time()-t0:.1f}s exit={exit_code}")
    if exit_code in (2, 3) or verbose:
        for u in undecided[:12]:
            print("  UNDECIDED:", u[:400])
        for n, u in unknowns[:8]:
            print("  UNKNOWN:", n, u["case"], u["path"][:120])
        for g in guard_fail[:8]:
            print("  GUARD:", g)
        for e in errors[:4]:
            print("  ERROR:", e[-800:])
        for c in crashes[:3]:
            print("  CRASH:", c["target"], c["crash"][-800:])
        if bounded and bounded.get("crash"):
            print("  BOUNDED-CRASH:", bounded["crash"][-800:])
    if verbose:
        for name, f in violations[:10]:
            print("  SAT:", name, "|", f["case"], "|", f["path"][:200], "|", (f["model"] or "")[:300])
    return exit_code


def replay(pid, path):
    p = path if os.path.isabs(path) else os.path.join(ROOT, path)
    doc = json.load(open(p))
    if doc.get("bounded"):
        w = {"script": doc.get("script")}
    else:
        w = doc.get("witness")
    reproduced, outp = try_native_replay(w)
    print(json.dumps({k: doc.get(k) for k in ("property", "obligation", "case", "path", "key", "description")}, indent=1))
    if reproduced:
        print("replay: the witness fails on the real code of this tree:\n" + outp)
        print(f"VIOLATION property={pid} replay={path}")
        return 1
    if reproduced is False:
        print("replay: witness passes on this tree")
        return 0
    # no concrete witness: re-verify the named obligation
    tgt = (doc.get("obligation") or "").split("#")[0]
    return check_property(pid, "quick", 0, only=tgt)
