"""Sidecar contracts for the small cursor / iteration functions of signac/project.py (C07): JobsCursor.__init__, _ids, _id_set, __iter__,
_JobsCursorIterator.__next__/__iter__, Project.find_jobs, Project.__iter__, Project.groupby.  Pure wiring: opaque tokens for the project,
the filter and the id list; callee views record their arguments."""
import z3

from pyvc.core import NativeStub, RaiseSignal, SBool, Sym, Unsupported
from pyvc.interp import Obj
from pyvc.verify import Contract, Ctx

PRJ = "signac.project"


class Tk(Sym):
    def __init__(self, name):
        self.name = name

    def __repr__(self):
        return f"<{self.name}>"


class W(Sym):
    """a wrapped value: kind + payload (structural comparison with `same`)"""

    def __init__(self, kind, *payload):
        self.kind, self.payload = kind, payload

    def __repr__(self):
        return f"{self.kind}{self.payload!r}"


def same(a, b):
    if isinstance(a, W) and isinstance(b, W):
        return a.kind == b.kind and len(a.payload) == len(b.payload) and all(same(x, y) for x, y in zip(a.payload, b.payload))
    if isinstance(a, (Sym, Obj)) or isinstance(b, (Sym, Obj)):
        return a is b
    return a == b


class SFilterArg(Sym):
    """a filter mapping: symbolic emptiness"""

    def __init__(self):
        self.empty = z3.Bool("filter_is_empty")

    def sym_truth(self, ex):
        return z3.Not(self.empty)

    def sym_eq(self, ex, other):
        if isinstance(other, dict) and not other:
            return SBool(self.empty)
        raise Unsupported("filter ==")

    def sym_is(self, ex, other):
        if other is None:
            return False
        raise Unsupported("filter is")


class SmallCtx(Ctx):
    def dictify(self, interp, v):
        if isinstance(v, W) and v.kind == "parsed":
            return W("dict-of", v)
        raise Unsupported("dict() of this value")

    def iter_of(self, interp, v):
        return W("iter-of", v)

    def next_of(self, interp, v, rest):
        if isinstance(v, W) and v.kind == "iter-of" and not rest:
            self.ghost["nexts"] = self.ghost.get("nexts", 0) + 1
            if interp.ex.decide(None, "iterator:exhausted"):
                raise RaiseSignal(StopIteration())
            return W("next-id-of", v.payload[0])
        raise Unsupported("next() of this value")

    def setify(self, interp, v):
        return W("set-of", v)

    def instantiate(self, interp, rc, args, kw):
        if rc.name in ("JobsCursor", "_JobsCursorIterator", "Job"):
            self.ghost.setdefault("made", []).append((rc.name, tuple(args), dict(kw)))
            return ("instance", rc.name, tuple(args), dict(kw))
        return NotImplemented


def mk(interp, cls):
    rp = interp.repo
    rp.load(PRJ)
    return Obj(rp.classes[f"{PRJ}.{cls}"])


class CursorInit(Contract):
    target = f"{PRJ}.JobsCursor.__init__"
    properties = ("C07",)
    ctx_class = SmallCtx

    def cases(self):
        return [{"filter": f} for f in ("None", "mapping")]

    def setup(self, interp, case):
        o, p = mk(interp, "JobsCursor"), Tk("project")
        f = None if case["filter"] == "None" else SFilterArg()
        return [o, p], {"filter": f}, {"o": o, "p": p, "f": f}

    def post(self, interp, case, pre, outcome):
        ex, o, f = interp.ex, pre["o"], pre["f"]
        fl = o.fields
        ok = outcome[0] == "return" and fl.get("_project") is pre["p"] and fl.get("_id_cache") is None and fl.get("_id_set_cache") is None
        ex.oblige(self.oname("ensures:bound_to_the_project_with_empty_id_caches"), z3.BoolVal(bool(ok)))
        if f is None:
            ex.oblige(self.oname("ensures:no_filter_stays_no_filter"), z3.BoolVal(fl.get("_filter") is None))
        else:
            ex.oblige(self.oname("ensures:an_empty_filter_is_no_filter,_any_other_filter_is_kept"), z3.BoolVal(fl.get("_filter") is None) == f.empty if fl.get("_filter") is None or fl.get("_filter") is f else z3.BoolVal(False))


class CursorIds(Contract):
    """_ids: the id list is obtained once, from Project._find_job_ids with the cursor's own filter, and cached"""
    target = f"{PRJ}.JobsCursor._ids"
    properties = ("C07",)
    ctx_class = SmallCtx

    def cases(self):
        return [{"cached": c} for c in (False, True)]

    def setup(self, interp, case):
        g = interp.ctx.ghost
        o, f = mk(interp, "JobsCursor"), Tk("filter")
        g["calls"] = []

        class SProj(Sym):
            def sym_getattr(self, ex, name):
                if name == "_find_job_ids":
                    return NativeStub(lambda flt=None: (g["calls"].append(flt), Tk("found-ids"))[1], "project._find_job_ids")
                raise Unsupported(f"project.{name}")
        cached = Tk("cached-ids") if case["cached"] else None
        o.fields.update(_project=SProj(), _filter=f, _id_cache=cached, _id_set_cache=None)
        return [o], {}, {"o": o, "f": f, "cached": cached}

    def post(self, interp, case, pre, outcome):
        ex, g, o = interp.ex, interp.ctx.ghost, pre["o"]
        if pre["cached"] is not None:
            ok = outcome == ("return", pre["cached"]) and g["calls"] == []
            ex.oblige(self.oname("ensures:a_cached_id_list_is_returned_without_a_new_query"), z3.BoolVal(bool(ok)))
        else:
            ok = outcome[0] == "return" and len(g["calls"]) == 1 and g["calls"][0] is pre["f"] and isinstance(outcome[1], Tk) and outcome[1].name == "found-ids" and o.fields["_id_cache"] is outcome[1]
            ex.oblige(self.oname("ensures:the_ids_come_from_one_query_with_the_cursor's_own_filter_and_are_cached"), z3.BoolVal(bool(ok)), note=repr(g["calls"]))


class CursorIter(Contract):
    target = f"{PRJ}.JobsCursor.__iter__"
    properties = ("C07",)
    ctx_class = SmallCtx

    def make_ctx(self, case):
        ctx = super().make_ctx(case)
        ctx.callee_contracts[f"{PRJ}.JobsCursor._ids"] = lambda interp, b: ctx.ghost["ids"]
        ctx.ghost["ids"] = Tk("ids")
        return ctx

    def setup(self, interp, case):
        o, p = mk(interp, "JobsCursor"), Tk("project")
        o.fields.update(_project=p, _filter=Tk("filter"), _id_cache=None, _id_set_cache=None)
        return [o], {}, {"p": p}

    def post(self, interp, case, pre, outcome):
        g = interp.ctx.ghost
        r = outcome[1] if outcome[0] == "return" else None
        ok = isinstance(r, tuple) and r[:2] == ("instance", "_JobsCursorIterator") and len(r[2]) == 2 and r[2][0] is pre["p"] and r[2][1] is g["ids"] and not r[3]
        interp.ex.oblige(self.oname("ensures:iterates_over_the_cursor's_id_list_in_this_project"), z3.BoolVal(bool(ok)), note=repr(r))


class IteratorNext(Contract):
    target = f"{PRJ}._JobsCursorIterator.__next__"
    properties = ("C07",)
    ctx_class = SmallCtx

    def setup(self, interp, case):
        o, p, ids = mk(interp, "_JobsCursorIterator"), Tk("project"), Tk("ids")
        o.fields.update(_project=p, _ids=ids, _ids_iterator=W("iter-of", ids))
        return [o], {}, {"p": p, "ids": ids}

    def post(self, interp, case, pre, outcome):
        ex, g = interp.ex, interp.ctx.ghost
        ex.oblige(self.oname("ensures:advances_the_id_iterator_exactly_once"), z3.BoolVal(g.get("nexts") == 1))
        if outcome[0] == "raise":
            ex.oblige(self.oname("raises:StopIteration_when_the_ids_are_exhausted"), z3.BoolVal(isinstance(outcome[1], StopIteration)), note=repr(outcome[1]))
            return
        r = outcome[1]
        ok = isinstance(r, tuple) and r[:2] == ("instance", "Job") and not r[2] and set(r[3]) == {"project", "id_", "directory_known"} and r[3]["project"] is pre["p"] \
            and same(r[3]["id_"], W("next-id-of", pre["ids"])) and r[3]["directory_known"] is True
        ex.oblige(self.oname("ensures:yields_the_job_of_this_project_with_the_next_id"), z3.BoolVal(bool(ok)), note=repr(r))


class IteratorIter(Contract):
    target = f"{PRJ}._JobsCursorIterator.__iter__"
    properties = ("C07",)
    ctx_class = SmallCtx

    def setup(self, interp, case):
        o, p, ids = mk(interp, "_JobsCursorIterator"), Tk("project"), Tk("ids")
        o.fields.update(_project=p, _ids=ids, _ids_iterator=W("iter-of", ids))
        return [o], {}, {"p": p, "ids": ids}

    def post(self, interp, case, pre, outcome):
        r = outcome[1] if outcome[0] == "return" else None
        ok = isinstance(r, tuple) and r[:2] == ("instance", "_JobsCursorIterator") and len(r[2]) == 2 and r[2][0] is pre["p"] and r[2][1] is pre["ids"]
        interp.ex.oblige(self.oname("ensures:a_fresh_iterator_over_the_same_ids_(restartable)"), z3.BoolVal(bool(ok)), note=repr(r))


class FindJobs(Contract):
    target = f"{PRJ}.Project.find_jobs"
    properties = ("C06", "C07", "C08")
    ctx_class = SmallCtx

    def cases(self):
        return [{"filter": f} for f in ("None", "mapping")]

    def make_ctx(self, case):
        ctx = super().make_ctx(case)
        ctx.callee_contracts["signac.filterparse.parse_filter"] = lambda interp, b: W("parsed", b["filter"])
        return ctx

    def setup(self, interp, case):
        o = mk(interp, "Project")
        f = None if case["filter"] == "None" else SFilterArg()
        return [o], {"filter": f}, {"o": o, "f": f}

    def post(self, interp, case, pre, outcome):
        ex, f = interp.ex, pre["f"]
        r = outcome[1] if outcome[0] == "return" else None
        ok = isinstance(r, tuple) and r[:2] == ("instance", "JobsCursor") and len(r[2]) == 2 and r[2][0] is pre["o"] and not r[3] and isinstance(r[2][1], W) and r[2][1].kind == "dict-of"
        ex.oblige(self.oname("ensures:returns_a_cursor_of_this_project_over_the_parsed_filter"), z3.BoolVal(bool(ok)), note=repr(r))
        if ok:
            src = r[2][1].payload[0].payload[0]
            if f is None:
                ex.oblige(self.oname("ensures:no_filter_means_the_empty_filter"), z3.BoolVal(src == {}))
            else:
                ex.oblige(self.oname("ensures:a_non-empty_filter_is_passed_on_unchanged,_an_empty_one_as_the_empty_filter"),
                          z3.If(f.empty, z3.BoolVal(src == {} or src is f), z3.BoolVal(src is f)))


class ProjectIter(Contract):
    target = f"{PRJ}.Project.__iter__"
    properties = ("C02", "C03", "C07", "C08")
    ctx_class = SmallCtx

    def make_ctx(self, case):
        ctx = super().make_ctx(case)
        ctx.callee_contracts[f"{PRJ}.Project.find_jobs"] = lambda interp, b: W("cursor", b["self"], b.get("filter"))
        return ctx

    def setup(self, interp, case):
        o = mk(interp, "Project")
        return [o], {}, {"o": o}

    def post(self, interp, case, pre, outcome):
        interp.ex.oblige(self.oname("ensures:iterating_a_project_iterates_the_unfiltered_cursor"), z3.BoolVal(outcome[0] == "return" and same(outcome[1], W("iter-of", W("cursor", pre["o"], None)))), note=repr(outcome))


class ProjectGroupby(Contract):
    target = f"{PRJ}.Project.groupby"
    properties = ("C07",)
    ctx_class = SmallCtx

    def make_ctx(self, case):
        ctx = super().make_ctx(case)
        g = ctx.ghost

        class SCur(Sym):
            def sym_getattr(self, ex, name):
                if name == "groupby":
                    return NativeStub(lambda *a, **k: (g.__setitem__("gb", (a, k)), g["groups"])[1], "cursor.groupby")
                raise Unsupported(f"cursor.{name}")
        ctx.callee_contracts[f"{PRJ}.Project.find_jobs"] = lambda interp, b: (g.__setitem__("fj", b.get("filter")), SCur())[1]
        g["groups"] = [Tk("group-1"), Tk("group-2")]
        g["out"] = []
        return ctx

    def setup(self, interp, case):
        o, k, d = mk(interp, "Project"), Tk("key"), Tk("default")
        return [o], {"key": k, "default": d}, {"k": k, "d": d}

    def yield_hook(self, interp, case, pre):
        return lambda v: interp.ctx.ghost["out"].append(v)

    def post(self, interp, case, pre, outcome):
        g = interp.ctx.ghost
        a, k = g.get("gb", ((), {}))
        args = dict(zip(("key", "default"), a))
        args.update(k)
        ok = outcome[0] == "return" and len(g["out"]) == 2 and all(a_ is b_ for a_, b_ in zip(g["out"], g["groups"])) and g.get("fj", "unset") is None and args.get("key") is pre["k"] and args.get("default") is pre["d"] and set(args) == {"key", "default"}
        interp.ex.oblige(self.oname("ensures:groups_the_unfiltered_cursor_by_the_given_key_and_default"), z3.BoolVal(bool(ok)), note=repr((g.get("fj", "unset"), a, k)))


CONTRACTS = [CursorInit(), CursorIds(), CursorIter(), IteratorNext(), IteratorIter(), FindJobs(), ProjectIter(), ProjectGroupby()]
