"""Sidecar contracts for signac/job.py and signac/_utility._mkdir_p (C02, C03, C04, C09, C11)."""
import errno

import z3

from pyvc.core import NativeStub, RaiseSignal, SBool, Sym, Unsupported
from pyvc.interp import Obj
from pyvc.theory_fs import CALC, EMPTY, FS, JD, NONEV, Data, LIn, LJob, LWs, Name, Node, SPv, SymOSError, canon, jsonok, parsed
from pyvc.theory_j import Id, SId
from pyvc.verify import Contract

from .jobfs import HAS_NESTED_MUTABLE, JOB, PRJ, JobCtx, SSP, inv_job, mk_job, mk_project, mk_spdict, spv_of

GETTERS = (f"{JOB}.Job.id", f"{JOB}.Job.path", f"{JOB}.Job._statepoint_filename", f"{PRJ}.Project.workspace", f"{PRJ}.Project.path",
           f"{JOB}.Job._initialize_lazy_properties", f"{JOB}.Job.project", f"{JOB}.Job.__str__", f"{JOB}.Job.fn", f"{PRJ}.Project.fn")


def jd_frame(fs0, fs, p, me):
    """every job directory other than (p, me), every workspace flag other than p's and every project file is unchanged"""
    j = z3.Const("fr_j", JD)
    return z3.And(z3.ForAll([j], z3.Implies(j != JD.mk(p, me), z3.And(fs.dirs[j] == fs0.dirs[j], fs.ent[j] == fs0.ent[j]))), fs.pf == fs0.pf)


def only_sp_changed(fs0, fs, p, me):
    k = JD.mk(p, me)
    return fs.ent[k] == z3.Store(fs0.ent[k], Name.SP, fs.ent[k][Name.SP])


class FSContract(Contract):
    ctx_class = JobCtx
    inline = GETTERS
    faults = True
    assumptions = ("string view of locations injective: ids are 32 hex chars, file-name constants pairwise distinct (checked concretely)",)

    def callees_common(self):
        return {f"{JOB}.calc_id": lambda interp, b: interp.ctx.stub_calc_id(interp, b)}

    def make_ctx(self, case):
        ctx = super().make_ctx(case)
        for k, v in self.callees_common().items():
            ctx.callee_contracts.setdefault(k, v)
        return ctx


# ============================================================================= _utility._mkdir_p


class MkdirP(FSContract):
    target = "signac._utility._mkdir_p"
    properties = ("C02", "C11", "C12")

    def setup(self, interp, case):
        ex, ctx = interp.ex, interp.ctx
        ctx.fs_init(ex)
        proj = mk_project(ex)
        me = z3.Const("id_me", Id)
        which = ex.choose(2, "arg")
        loc = LJob(proj.p, me) if which == 0 else LWs(proj.p)
        return [loc], {}, {"loc": loc, "p": proj.p, "me": me}

    def post(self, interp, case, pre, outcome):
        ex, ctx = interp.ex, interp.ctx
        fs0, fs, loc = ctx.fs0, ctx.fs, pre["loc"]
        present0 = fs0.dirs[JD.mk(loc.p, loc.i)] if isinstance(loc, LJob) else fs0.ws[loc.p]
        present1 = fs.dirs[JD.mk(loc.p, loc.i)] if isinstance(loc, LJob) else fs.ws[loc.p]
        if outcome[0] == "return":
            ex.oblige(self.oname("ensures:directory_exists"), present1)
            ex.oblige(self.oname("ensures:noop_if_it_existed"), z3.Implies(present0, fs.eq(fs0)))
            if isinstance(loc, LJob):
                ex.oblige(self.oname("ensures:new_directory_is_empty_and_nothing_else_changes"),
                          z3.Implies(z3.Not(present0), z3.And(fs.ent[JD.mk(loc.p, loc.i)] == EMPTY, jd_frame(fs0, fs, loc.p, loc.i))))
        else:
            exc = outcome[1]
            ex.oblige(self.oname("raises:only_OSError_and_no_effect"), z3.And(z3.BoolVal(isinstance(exc, OSError)), fs.eq(fs0)))


def stub_mkdir_p(interp, b):
    """callee view of _mkdir_p (same clauses as MkdirP.post)"""
    ex, ctx = interp.ex, interp.ctx
    loc = b["path"]
    ctx.interfere(interp)
    if isinstance(loc, LJob):
        present = ctx.fs.dirs[JD.mk(loc.p, loc.i)]
    elif isinstance(loc, LWs):
        present = ctx.fs.ws[loc.p]
    else:
        raise Unsupported("_mkdir_p of this location")
    if ex.decide(present, "mkdir_p:exists"):
        return None
    ctx.fault(interp, "mkdir_p")
    fs = ctx.fs
    if isinstance(loc, LJob):
        ctx.effect(interp, "mkdir_p jobdir", fs.with_ws(loc.p).with_dir(loc.p, loc.i, True, EMPTY))
    else:
        ctx.effect(interp, "mkdir_p workspace", fs.with_ws(loc.p))
    return None


# ============================================================================= _StatePointDict.save / load


def setup_spdict(interp, case, self_contract):
    """a _StatePointDict bound to the state point file of a (symbolic) job; its data hashes to anything (symbolic)"""
    ex, ctx = interp.ex, interp.ctx
    ctx.fs_init(ex)
    proj = mk_project(ex)
    job = mk_job(interp, proj, "me", lazy=False, cached=True, path_known=True)
    sd = job.fields["_statepoint"]
    data = z3.Const("data", SPv)      # the in-memory content need not hash to the job id (init(force) repairs, re-key in progress)
    sd.fields["_data"] = SSP(data)
    return proj, job, sd, data


class SPSave(FSContract):
    target = f"{JOB}._StatePointDict.save"
    properties = ("C02", "C03", "C09", "C11")

    def cases(self):
        return [{"force": False}, {"force": True}]

    def setup(self, interp, case):
        proj, job, sd, data = setup_spdict(interp, case, self)
        return [sd], {"force": case["force"]}, {"p": proj.p, "me": job.me, "data": data, "sd": sd}

    def post(self, interp, case, pre, outcome):
        ex, ctx = interp.ex, interp.ctx
        fs0, fs, p, me, data = ctx.fs0, ctx.fs, pre["p"], pre["me"], pre["data"]
        k = JD.mk(p, me)
        sp0, sp1 = fs0.ent[k][Name.SP], fs.ent[k][Name.SP]
        written = z3.And(Node.is_File(sp1), jsonok(Node.data(sp1)), parsed(Node.data(sp1)) == data)
        frame = z3.And(jd_frame(fs0, fs, p, me), only_sp_changed(fs0, fs, p, me), fs.dirs == fs0.dirs, fs.ws == fs0.ws)
        ex.oblige(self.oname("frame:only_the_state_point_entry_of_this_job"), frame)
        if outcome[0] == "return":
            ex.oblige(self.oname("ensures:returns_None"), z3.BoolVal(outcome[1] is None))   # callers are verified against a None result
            ex.oblige(self.oname("ensures:file_is_old_content_or_exactly_the_data"), z3.Or(sp1 == sp0, written))
            if not case["force"]:
                ex.oblige(self.oname("ensures:never_overwrites_an_existing_file_without_force"), z3.Implies(Node.is_File(sp0), fs.eq(fs0)))
        else:
            exc = outcome[1]
            ex.oblige(self.oname("raises:half_written_file_is_removed_or_state_unchanged"),
                      z3.Or(sp1 == sp0, sp1 == Node.Absent, z3.And(Node.is_File(sp1), z3.Not(jsonok(Node.data(sp1))))))
            if not case["force"]:
                ex.oblige(self.oname("raises:existing_file_untouched_without_force"), z3.Implies(Node.is_File(sp0), fs.eq(fs0)))


class SPLoad(FSContract):
    target = f"{JOB}._StatePointDict.load"
    properties = ("C01", "C02", "C03", "C04", "C09", "C11")
    faults = True

    def setup(self, interp, case):
        proj, job, sd, data = setup_spdict(interp, case, self)
        interp.ctx.fault_reads = True
        jid = z3.Const("job_id_arg", Id)
        interp.ex.assume(CALC(NONEV) != jid)   # ids are hashes of mappings; None hashes to md5('null'), never a job's id (assumed)
        return [sd, SId(jid)], {}, {"p": proj.p, "me": job.me, "jid": jid, "sd": sd, "data0": data}

    def post(self, interp, case, pre, outcome):
        from signac.errors import JobsCorruptedError
        ex, ctx = interp.ex, interp.ctx
        fs0, fs, p, me, jid, sd = ctx.fs0, ctx.fs, pre["p"], pre["me"], pre["jid"], pre["sd"]
        n = fs0.ent[JD.mk(p, me)][Name.SP]
        ok = z3.And(fs0.dirs[JD.mk(p, me)], Node.is_File(n), jsonok(Node.data(n)), CALC(parsed(Node.data(n))) == jid)
        ex.oblige(self.oname("frame:reads_only"), fs.eq(fs0))
        if outcome[0] == "return":
            v = outcome[1]
            ex.oblige(self.oname("ensures:returns_only_validated_data"), z3.And(ok, z3.BoolVal(isinstance(v, SSP))))
            if isinstance(v, SSP):
                ex.oblige(self.oname("ensures:result_is_the_file_content_and_hashes_to_the_id"),
                          z3.And(v.e == parsed(Node.data(n)), CALC(v.e) == jid, spv_of(sd) == v.e))
        else:
            exc = outcome[1]
            # a rejected file must not leak into the in-memory state point (init(force=True) / repair write that back to disk)
            ex.oblige(self.oname("raises:in_memory_state_point_unchanged_when_the_file_is_rejected"), spv_of(sd) == pre["data0"])
            if isinstance(exc, JobsCorruptedError):
                ex.oblige(self.oname("raises:JobsCorruptedError_only_if_file_missing_unparsable_or_hash_mismatch"), z3.Not(ok))
                ids = getattr(exc, "job_ids", None)
                ex.oblige(self.oname("raises:JobsCorruptedError_names_the_job"),
                          z3.BoolVal(isinstance(ids, list) and len(ids) == 1 and isinstance(ids[0], SId)) if not (isinstance(ids, list) and len(ids) == 1 and isinstance(ids[0], SId)) else ids[0].e == jid)
            else:
                # bytes that are not UTF-8 surface as UnicodeDecodeError (only JSONDecodeError is translated): still a rejection of an invalid file
                ex.oblige(self.oname("raises:otherwise_only_an_injected_OSError_or_the_decode_error_of_an_invalid_file"),
                          z3.Or(z3.BoolVal(isinstance(exc, SymOSError)), z3.And(z3.BoolVal(isinstance(exc, UnicodeDecodeError)), z3.Not(ok))), note=repr(exc))


def stub_sp_load(interp, b):
    """callee view of _StatePointDict.load(job_id): (same clauses as SPLoad.post)"""
    from signac.errors import JobsCorruptedError
    ex, ctx = interp.ex, interp.ctx
    sd, jid = b["self"], b["job_id"]
    loc = sd.fields["_filename"]
    ctx.interfere(interp)
    fs = ctx.fs
    n = fs.node(loc)
    ok = z3.And(fs.dirs[JD.mk(loc.p, loc.i)], Node.is_File(n), jsonok(Node.data(n)), CALC(parsed(Node.data(n))) == jid.e)
    if ex.decide(ok, "load:valid"):
        if ctx.faults and ex.decide(None, "fault:load"):
            e = z3.Int(ex.fresh_name("errno"))
            ex.assume(z3.And(e != errno.ENOENT, e > 0))
            raise RaiseSignal(SymOSError(e))
        v = SSP(parsed(Node.data(n)))
        sd.fields["_data"] = v
        return v
    if ctx.faults and ex.decide(None, "fault:load"):
        e = z3.Int(ex.fresh_name("errno"))
        ex.assume(z3.And(e != errno.ENOENT, e > 0))
        raise RaiseSignal(SymOSError(e))
    if ex.decide(z3.And(fs.dirs[JD.mk(loc.p, loc.i)], Node.is_File(n), z3.Not(jsonok(Node.data(n)))), "load:file-is-not-json") and ex.decide(None, "load:bytes-not-utf8"):
        raise RaiseSignal(UnicodeDecodeError("utf-8", b"\xff", 0, 1, "invalid start byte"))
    raise RaiseSignal(JobsCorruptedError([jid]))


def stub_sp_save(interp, b):
    """callee view of _StatePointDict.save(force) (same clauses as SPSave.post)"""
    ex, ctx = interp.ex, interp.ctx
    sd, force = b["self"], b["force"]
    loc = sd.fields["_filename"]
    ctx.interfere(interp)
    fs = ctx.fs
    k = JD.mk(loc.p, loc.i)
    sp0 = fs.node(loc)
    if not isinstance(force, bool):
        raise Unsupported("symbolic force")
    if not force and ex.decide(Node.is_File(sp0), "save:file-exists"):
        return None
    # without injected I/O errors a forced save writes; EEXIST / EACCES (swallowed by save) are errors of open() and only arise as faults or,
    # for an unforced save, when another process created the file in between
    outcome = ex.choose(4 if ctx.faults else (1 if force else 2), "save-outcome")
    if outcome == 0:      # wrote exactly the data
        if not ex.decide(fs.dirs[k], "save:dir-exists"):
            raise ctx.enoent()
        ctx.effect(interp, "save: write SP", fs.with_node(loc, Node.File(canon(spv_of(sd)))))
        ctx.interfere(interp)
        return None
    if outcome == 1:      # EEXIST / EACCES swallowed: nothing written, normal return
        return None
    e = z3.Int(ex.fresh_name("errno"))
    ex.assume(e > 0)
    if outcome == 2:      # error, file removed (or never there)
        ctx.effect(interp, "save: failed, SP removed", fs.with_node(loc, Node.Absent))
    else:                 # error, torn file left (removal failed too) or state unchanged
        if ex.decide(None, "save-failed:torn-left"):
            torn = ex.fresh("torn", Data)
            ex.assume(z3.Not(jsonok(torn)))
            ctx.effect(interp, "save: failed, torn SP left", fs.with_node(loc, Node.File(torn)))
    raise RaiseSignal(SymOSError(e))


# ============================================================================= Job.init


class JobInit(FSContract):
    target = f"{JOB}.Job.init"
    properties = ("C02", "C03", "C08", "C09", "C11")
    shard_bits = 3
    inline = GETTERS + (f"{JOB}.Job.statepoint", f"{JOB}._StatePointDict.__init__", f"{PRJ}.Project._register")
    callees = {"signac._utility._mkdir_p": stub_mkdir_p, f"{JOB}._StatePointDict.load": stub_sp_load, f"{JOB}._StatePointDict.save": stub_sp_save}

    def cases(self):
        return [{"force": f, "validate": v} for f in (False, True) for v in (True, False)] + [{"force": True, "validate": True, "faults": False}]

    def setup(self, interp, case):
        ex, ctx = interp.ex, interp.ctx
        ctx.fs_init(ex)
        proj = mk_project(ex)
        job = mk_job(interp, proj, "me")
        p, me = proj.p, job.me
        ctx.ghost["stale_cached"] = False
        if job.fields["_statepoint_requires_init"] is False and ex.decide(None, "pre:the read-only cached state point is stale (the handle was re-keyed)"):
            # reachable: a state point change through a materialised handle does not refresh _cached_statepoint (design note F4)
            stale = z3.Const("sp_stale_cached", SPv)
            ex.assume(stale != NONEV)
            job.fields["_cached_statepoint"] = SSP(stale)
            ctx.ghost["stale_cached"] = True
        ctx.ghost["knows_sp"] = job.fields["_cached_statepoint"] is not None or job.fields["_statepoint_requires_init"] is False
        if job.fields["_cached_statepoint"] is None:
            # a handle opened by id without cache entry: creating the job is only possible once the state point is known
            pass
        ex.assume(z3.Implies(job.fields["_directory_known"].e, ctx.fs0.dirs[JD.mk(p, me)]))
        ex.assume(proj.fields["_sp_cache"].valid())
        kw = {}
        if case["force"]:
            kw["force"] = True
        if not case["validate"]:
            kw["validate_statepoint"] = False
        return [job], kw, {"job": job, "proj": proj, "p": p, "me": me, "sp": job.sp}

    def crash_invariant(self, interp, ctx, label, fs):
        """after every file-system effect: other jobs untouched; this job's non-state-point entries untouched; the directory never
        validates with a state point the job does not have"""
        ex = interp.ex
        pre = ctx.ghost.get("pre")
        if pre is None:
            return
        p, me, sp = pre["p"], pre["me"], pre["sp"]
        fs0 = ctx.fs0
        ex.oblige(self.oname("crash:other_jobs_and_own_data_files_untouched"), z3.And(jd_frame(fs0, fs, p, me), only_sp_changed(fs0, fs, p, me)))
        n = fs.ent[JD.mk(p, me)][Name.SP]
        ex.oblige(self.oname("crash:never_validates_with_a_foreign_state_point"),
                  z3.Implies(fs.valid(p, me), z3.Or(n == fs0.ent[JD.mk(p, me)][Name.SP], parsed(Node.data(n)) == sp)))

    def post(self, interp, case, pre, outcome):
        from signac.errors import JobsCorruptedError
        ex, ctx = interp.ex, interp.ctx
        fs0, fs, p, me, job, proj = ctx.fs0, ctx.fs, pre["p"], pre["me"], pre["job"], pre["proj"]
        k = JD.mk(p, me)
        ex.oblige(self.oname("frame:other_jobs_and_own_data_files_untouched"), z3.And(jd_frame(fs0, fs, p, me), only_sp_changed(fs0, fs, p, me)))
        ex.oblige(self.oname("frame:existing_state_point_file_never_rewritten_without_force"),
                  z3.Implies(z3.And(z3.BoolVal(not case["force"]), Node.is_File(fs0.ent[k][Name.SP])), fs.ent[k][Name.SP] == fs0.ent[k][Name.SP]))
        ex.oblige(self.oname("inv:cache_entries_hash_to_their_key"), proj.fields["_sp_cache"].valid())
        if outcome[0] == "return":
            ex.oblige(self.oname("ensures:returns_self"), z3.BoolVal(outcome[1] is job))
            if case["validate"]:
                ex.oblige(self.oname("ensures:job_directory_with_valid_state_point"), fs.valid(p, me))
                if not case["force"]:
                    ex.oblige(self.oname("ensures:idempotent_on_a_valid_job"), z3.Implies(fs0.valid(p, me), fs.eq(fs0)))
                elif case.get("faults") is False:
                    # "never rewrites a valid file": with force too, as long as nothing goes wrong while the file is read (a transient read
                    # fault under force legitimately ends in a rewrite: that case is left to the clause without force)
                    ex.oblige(self.oname("ensures:a_valid_state_point_file_is_not_rewritten,_with_force_either_(no_I/O_fault)"), z3.Implies(fs0.valid(p, me), fs.eq(fs0)))
            else:
                ex.oblige(self.oname("ensures:job_directory_exists"), fs.dirs[k])
                ex.oblige(self.oname("ensures:noop_if_directory_exists"), z3.Implies(fs0.dirs[k], fs.eq(fs0)))
            for lab, c in inv_job(ctx, job, require_cached_fresh=not ctx.ghost["stale_cached"]):
                ex.oblige(self.oname("inv:" + lab), c)
        else:
            exc = outcome[1]
            if case.get("faults") is False and case["force"] and ctx.ghost["knows_sp"]:
                # totality (what repair() relies on): a handle that knows its state point re-creates the job whatever the file on disk holds
                ex.oblige(self.oname("total:with_force_a_known_state_point_and_no_IO_error_the_job_is_initialised_whatever_the_file_on_disk_holds"), False, note=repr(exc))
            if isinstance(exc, JobsCorruptedError):
                ex.oblige(self.oname("raises:JobsCorruptedError_means_no_valid_state_point_on_disk"), z3.Not(fs.valid(p, me)))
            elif isinstance(exc, UnicodeDecodeError):
                ex.oblige(self.oname("raises:a_decode_error_means_no_valid_state_point_on_disk"), z3.Not(fs.valid(p, me)))
            elif isinstance(exc, OSError):
                # pre-state or check()-detectable: every state is valid-or-detectable by definition of check(); what is demanded beyond the
                # frame obligations above is that an I/O error never *creates* a valid-looking job out of nothing but this handle's state point
                ex.oblige(self.oname("raises:OSError_is_a_modelled_fault_not_a_python_error"), z3.BoolVal(isinstance(exc, SymOSError)))
            else:
                ex.oblige(self.oname("raises:no_other_exception"), False, note=repr(exc))

    def make_ctx(self, case):
        ctx = super().make_ctx(case)
        return ctx


CONTRACTS = [MkdirP(), SPSave(), SPLoad(), JobInit()]


# ============================================================================= callee view of Job.init (clauses of JobInit.post)


def stub_job_init(interp, b):
    from signac.errors import JobsCorruptedError
    ex, ctx = interp.ex, interp.ctx
    job = b["self"]
    force, validate = b["force"], b["validate_statepoint"]
    if not isinstance(force, bool) or not isinstance(validate, bool):
        raise Unsupported("symbolic init() options")
    me = job.fields["_id"].e
    p = job.fields["_project"].p
    target = ctx.contract.target
    # requires: Inv(job) -- the handle's lazy fields describe *this* id (checked at the call site)
    for lab, c in inv_job(ctx, job, require_cached_fresh=False):
        ex.oblige(f"{target}#call[Job.init]:requires:{lab}", c)
    sp = None
    if job.fields["_statepoint_requires_init"] is False:
        sp = spv_of(job.fields["_statepoint"])
    elif job.fields["_cached_statepoint"] is not None:
        sp = spv_of(job.fields["_cached_statepoint"])
    fs = ctx.fs
    k = JD.mk(p, me)
    # intermediate states (init's own crash invariant) and final state: most general FS satisfying the contract
    for phase in ("mid", "end"):
        f1 = FS.fresh(ex.fresh_name("init_" + phase))
        ex.assume(z3.And(jd_frame(fs, f1, p, me), only_sp_changed(fs, f1, p, me), f1.ws == z3.Store(fs.ws, p, z3.Or(fs.ws[p], f1.dirs[k])),
                         z3.Implies(fs.dirs[k], f1.dirs[k])))
        n1 = f1.ent[k][Name.SP]
        if sp is not None:
            ex.assume(z3.Implies(f1.valid(p, me), z3.Or(n1 == fs.ent[k][Name.SP], parsed(Node.data(n1)) == sp)))
        if not force:
            ex.assume(z3.Implies(Node.is_File(fs.ent[k][Name.SP]), n1 == fs.ent[k][Name.SP]))
        if phase == "mid":
            if ex.decide(None, "init:has-intermediate-effect"):
                ctx.effect(interp, "Job.init (intermediate)", f1)
            continue
        outcome = ex.choose(3 if ctx.faults else 2, "init-outcome")
        if outcome == 0:
            if validate:
                ex.assume(z3.And(f1.valid(p, me), z3.Implies(z3.And(z3.BoolVal(not force), fs.valid(p, me)), f1.eq(fs))))
            else:
                ex.assume(z3.And(f1.dirs[k], z3.Implies(fs.dirs[k], f1.eq(fs))))
            ctx.effect(interp, "Job.init", f1)
            job.fields["_directory_known"] = True
            return job
        ctx.effect(interp, "Job.init (failed)", f1)
        if outcome == 1:
            ex.assume(z3.Not(f1.valid(p, me)))
            if ex.decide(None, "init:invalid-file-is-not-utf8"):
                # (JobInit.post: a decode error means no valid state point on disk) -- the reader's UnicodeDecodeError is not translated
                raise RaiseSignal(UnicodeDecodeError("utf-8", b"\xff", 0, 1, "invalid start byte"))
            raise RaiseSignal(JobsCorruptedError([job.fields["_id"]]))
        e = z3.Int(ex.fresh_name("errno"))
        ex.assume(z3.And(e != errno.ENOENT, e > 0))
        raise RaiseSignal(SymOSError(e))


# ============================================================================= _StatePointDict._save  (re-key)


class SJobSeq(Sym):
    """`_StatePointDict._jobs`: a non-empty list of handles that are shallow copies of each other (same _id, same _project).
    Elements are materialised on demand as arbitrary handles satisfying Inv (universal reasoning: any element)."""

    def __init__(self, mk_elem):
        self.mk_elem = mk_elem
        self.first = None

    def sym_iter(self, ex):
        from pyvc.core import CutSeq
        n = z3.Int("n_jobs")
        return CutSeq(n, lambda interp, i: self.mk_elem(interp, "elem"), label="self._jobs")

    def sym_truth(self, ex):
        return True




class SymIter(Sym):
    def __init__(self, seq):
        self.seq = seq


class SaveCtx(JobCtx):
    stat_faults = True      # the re-key must not take "stat failed" for "not initialised"

    def iter_of(self, interp, v):
        if isinstance(v, SJobSeq):
            return SymIter(v)
        return super().iter_of(interp, v)

    def next_of(self, interp, it, rest):
        if isinstance(it, SymIter) and isinstance(it.seq, SJobSeq):
            seq = it.seq
            if seq.first is None:
                seq.first = seq.mk_elem(interp, "first")
            return seq.first
        return super().next_of(interp, it, rest)


class SPRekey(FSContract):
    target = f"{JOB}._StatePointDict._save"
    properties = ("C03", "C04", "C05", "C11")
    ctx_class = SaveCtx
    shard_bits = 4
    inline = GETTERS + (f"{JOB}.Job._initialize_lazy_properties",)
    callees = {f"{JOB}.Job.init": stub_job_init}

    def loops(self, case):
        from pyvc.interp import LoopSpec

        def inv(interp, fr, i, seq):
            return z3.BoolVal(True)

        def heap_frame(interp, fr, writes):
            # the body may only write the fields of its own element; the element must then satisfy Inv for the new id
            ctx, ex = interp.ctx, interp.ex
            elem = interp.lookup(fr, "job")
            for o, name in writes:
                if o is not elem:
                    raise Unsupported(f"loop body writes {o}.{name}, not a field of its own element")
            new = ctx.ghost["new_id"]
            ex.oblige(self.oname("ensures:every_handle_adopts_the_new_id"), elem.fields["_id"].e == new if isinstance(elem.fields["_id"], SId) else z3.BoolVal(False))
            for lab, c in inv_job_follow(ctx, elem, new):
                ex.oblige(self.oname("ensures:every_handle_follows:" + lab), c)

        def after(interp, fr, seq):
            # after the loop `job` is the last element: an arbitrary handle in the post-loop state
            ctx = interp.ctx
            j = ctx.ghost["mk_elem"](interp, "last", post=True)
            interp.assign_name(fr, "job", j)
            ctx.ghost["last"] = j

        return {"self._jobs": LoopSpec("jobs", inv, havoc={}, scratch=("job",), heap_frame=heap_frame, after=after)}

    def setup(self, interp, case):
        ex, ctx = interp.ex, interp.ctx
        ctx.fs_init(ex)
        proj = mk_project(ex)
        p = proj.p
        old, new = z3.Const("id_old", Id), z3.Const("id_new", Id)
        newsp = z3.Const("sp_new", SPv)
        oldsp = z3.Const("sp_old", SPv)
        ex.assume(z3.And(CALC(newsp) == new, CALC(oldsp) == old, CALC(NONEV) != new, CALC(NONEV) != old))
        fs0 = ctx.fs0
        # WF of the pre-state (C03 representation invariant): no backup file lying around in either directory
        ex.assume(z3.And(fs0.ent[JD.mk(p, old)][Name.SPBAK] == Node.Absent, fs0.ent[JD.mk(p, new)][Name.SPBAK] == Node.Absent))
        ex.assume(proj.fields["_sp_cache"].valid())
        rp = interp.repo
        rp.load(JOB)
        sd = Obj(rp.classes[f"{JOB}._StatePointDict"])
        sd.tag = "sd"

        def mk_elem(interp_, tag, post=False):
            o = Obj(rp.classes[f"{JOB}.Job"])
            o.tag = tag
            cached = ex.decide(None, f"pre:{tag}._cached_statepoint set")
            pk = False if post else ex.decide(None, f"pre:{tag}._path set")
            o.fields.update(_project=proj, _lock=None, _id=SId(new if post else old), _path=LJob(p, old) if pk else None, _document=None,
                            _stores=None, _cwd=[], _cached_statepoint=SSP(oldsp) if cached else None, _statepoint_requires_init=False,
                            _statepoint=sd, _directory_known=SBool(z3.Bool(ex.fresh_name(f"dirknown_{tag}"))))
            if not post:
                # a live handle may hold a document handle / stores bound to the OLD directory: they must be dropped
                if ex.decide(None, f"pre:{tag}._document set"):
                    from .jobfs import SDoc
                    o.fields["_document"] = SDoc(LIn(p, old, Name.DOC), True)
                    o.fields["_stores"] = "stores-of-old-id"
                if ex.decide(None, f"pre:{tag} is open as a context manager (_cwd not empty)"):
                    o.fields["_cwd"] = ["directory-the-job-was-entered-from"]
            return o

        sd.fields.update(_jobs=SJobSeq(mk_elem), _filename=LIn(p, old, Name.SP), _write_concern=False, _data=SSP(newsp))
        ctx.ghost.update({"new_id": new, "mk_elem": mk_elem, "pre": {"p": p, "old": old, "new": new, "newsp": newsp, "oldsp": oldsp}})
        return [sd], {}, {"p": p, "old": old, "new": new, "newsp": newsp, "sd": sd, "proj": proj}

    def crash_invariant(self, interp, ctx, label, fs):
        ex = interp.ex
        pre = ctx.ghost["pre"]
        p, old, new, newsp = pre["p"], pre["old"], pre["new"], pre["newsp"]
        fs0 = ctx.fs0
        ko, kn = JD.mk(p, old), JD.mk(p, new)
        j = z3.Const("ci_j", JD)
        nm = z3.Const("ci_nm", Name)
        others = z3.And(z3.ForAll([j], z3.Implies(z3.And(j != ko, j != kn), z3.And(fs.dirs[j] == fs0.dirs[j], fs.ent[j] == fs0.ent[j]))), fs.pf == fs0.pf)
        ex.oblige(self.oname("crash:every_other_job_untouched"), others)
        # the job's data files (everything but SP / SP~) exist completely under exactly one of the two ids
        data_eq = lambda a, b: z3.ForAll([nm], z3.Implies(z3.And(nm != Name.SP, nm != Name.SPBAK), a[nm] == b[nm]))
        under_old = z3.And(fs.dirs[ko], data_eq(fs.ent[ko], fs0.ent[ko]), z3.Or(z3.Not(fs.dirs[kn]), fs.ent[kn] == fs0.ent[kn]))
        under_new = z3.And(fs.dirs[kn], data_eq(fs.ent[kn], fs0.ent[ko]), z3.Not(fs.dirs[ko]))
        ex.oblige(self.oname("crash:data_files_complete_under_exactly_one_id"), z3.Implies(z3.And(fs0.dirs[ko], old != new), z3.Or(under_old, under_new)))
        # a directory validates only with a state point it legitimately has: the old directory with its old file, the new one with the new value
        n_new = fs.ent[kn][Name.SP]
        ex.oblige(self.oname("crash:new_directory_never_validates_with_a_state_point_it_never_had"),
                  z3.Implies(z3.And(old != new, fs.valid(p, new)), z3.Or(z3.And(fs.ent[kn] == fs0.ent[kn], fs0.dirs[kn]), parsed(Node.data(n_new)) == newsp)))
        ex.oblige(self.oname("crash:old_directory_state_point_is_old_file_or_absent"),
                  z3.Implies(z3.And(old != new, fs.dirs[ko]), z3.Or(fs.ent[ko][Name.SP] == fs0.ent[ko][Name.SP], fs.ent[ko][Name.SP] == Node.Absent)))

    def post(self, interp, case, pre, outcome):
        from signac.errors import DestinationExistsError, JobsCorruptedError
        ex, ctx = interp.ex, interp.ctx
        fs0, fs, p, old, new, newsp, sd = ctx.fs0, ctx.fs, pre["p"], pre["old"], pre["new"], pre["newsp"], pre["sd"]
        ko, kn = JD.mk(p, old), JD.mk(p, new)
        initialised = z3.And(fs0.dirs[ko], Node.is_File(fs0.ent[ko][Name.SP]))
        dest_free = z3.Or(z3.Not(fs0.dirs[kn]), fs0.ent[kn] == EMPTY)
        j = z3.Const("po_j", JD)
        others = z3.And(z3.ForAll([j], z3.Implies(z3.And(j != ko, j != kn), z3.And(fs.dirs[j] == fs0.dirs[j], fs.ent[j] == fs0.ent[j]))), fs.pf == fs0.pf)
        ex.oblige(self.oname("frame:every_other_job_untouched"), others)
        ex.oblige(self.oname("inv:cache_entries_hash_to_their_key"), pre["proj"].fields["_sp_cache"].valid())
        if outcome[0] == "return":
            ex.oblige(self.oname("ensures:returns_None"), z3.BoolVal(outcome[1] is None))
            ex.oblige(self.oname("ensures:same_id_is_a_noop"), z3.Implies(old == new, fs.eq(fs0)))
            ex.oblige(self.oname("ensures:uninitialised_job_is_rekeyed_in_memory_only"), z3.Implies(z3.Not(initialised), fs.eq(fs0)))
            moved = z3.And(fs.dirs[kn], z3.Not(fs.dirs[ko]), fs.ent[ko] == EMPTY,
                           fs.ent[kn] == z3.Store(z3.Store(fs0.ent[ko], Name.SP, fs.ent[kn][Name.SP]), Name.SPBAK, Node.Absent),
                           fs.valid(p, new), parsed(Node.data(fs.ent[kn][Name.SP])) == newsp)
            ex.oblige(self.oname("ensures:directory_moved_with_all_entries_new_state_point_written_no_backup_left"),
                      z3.Implies(z3.And(initialised, old != new), moved))
            ex.oblige(self.oname("ensures:normal_return_implies_destination_was_free"), z3.Implies(z3.And(initialised, old != new), dest_free))
            # the state point object itself follows
            fn = sd.fields["_filename"]
            ex.oblige(self.oname("ensures:state_point_object_bound_to_new_file"),
                      z3.Implies(old != new, z3.And(fn.p == p, fn.i == new, fn.name == Name.SP) if isinstance(fn, LIn) else z3.BoolVal(False)))
            last = ctx.ghost.get("last")
            if last is not None:
                for lab, c in inv_job_follow(ctx, last, new):
                    ex.oblige(self.oname("ensures:every_handle_follows:" + lab), c)
        else:
            exc = outcome[1]
            if isinstance(exc, DestinationExistsError):
                ex.oblige(self.oname("raises:DestinationExistsError_leaves_both_jobs_byte_identical"), fs.eq(fs0))
            elif isinstance(exc, (JobsCorruptedError, UnicodeDecodeError)):
                ex.oblige(self.oname("raises:JobsCorruptedError_only_from_the_final_init_and_detectable"),
                          z3.And(z3.Not(fs.valid(p, new)), initialised, old != new))
            elif isinstance(exc, SymOSError):
                pass   # covered by the crash invariants at every effect and the frame above
            else:
                ex.oblige(self.oname("raises:no_other_exception"), False, note=repr(exc))
        # a non-empty destination is never clobbered: whatever happens, its entries are those of before (or it is the moved job on success)
        ex.oblige(self.oname("ensures:initialised_destination_never_clobbered"),
                  z3.Implies(z3.And(old != new, fs0.dirs[kn], fs0.ent[kn] != EMPTY), z3.And(fs.dirs[kn], fs.ent[kn] == fs0.ent[kn])))


def inv_job_follow(ctx, job, new):
    """after an id change every lazy per-handle field must describe the NEW job (or be reset)"""
    f = job.fields
    p = f["_project"].p
    out = []
    pth = f["_path"]
    out.append(("_path", z3.BoolVal(True) if pth is None else (z3.And(pth.p == p, pth.i == new) if isinstance(pth, LJob) else z3.BoolVal(False))))
    out.append(("_document dropped", z3.BoolVal(f["_document"] is None)))
    out.append(("_stores dropped", z3.BoolVal(f["_stores"] is None)))
    return out


CONTRACTS.append(SPRekey())


# ============================================================================= Project.open_job(statepoint) / Job.__init__


def new_handle(interp, proj, i, sp, directory_known=False):
    """the handle Job(project, statepoint=sp) constructs (clauses of JobNew.post)"""
    rp = interp.repo
    rp.load(JOB)
    o = Obj(rp.classes[f"{JOB}.Job"])
    o.tag = "h" + interp.ex.fresh_name("")
    o.fields.update(_project=proj, _lock=None, _id=SId(i), _path=None, _document=None, _stores=None, _cwd=[],
                    _cached_statepoint=(SSP(sp) if sp is not None else None), _statepoint_requires_init=True, _directory_known=directory_known)
    return o


def stub_open_job_by_sp(interp, b):
    ex = interp.ex
    proj, sp, id_ = b["self"], b["statepoint"], b["id"]
    if id_ is not None or sp is None:
        raise Unsupported("open_job by id in this context")
    v = spv_of(sp)
    ex.assumptions_used.add("open_job(statepoint): Job handle for id CALC(statepoint) holding an unaliased copy (contract OpenJobBySP)")
    return new_handle(interp, proj, CALC(v), v)


class RLockStub:
    pass


class JobNew(FSContract):
    """Job.__init__: id derived from the state point, nothing touched on disk, lazy fields reset."""
    target = f"{JOB}.Job.__init__"
    properties = ("C01", "C02", "C03")
    inline = GETTERS + (f"{JOB}.Job._initialize_lazy_properties",)
    faults = False

    def cases(self):
        return [{"by": "statepoint"}, {"by": "id"}, {"by": "both"}, {"by": "none"}]

    def setup(self, interp, case):
        ex, ctx = interp.ex, interp.ctx
        ctx.fs_init(ex)
        proj = mk_project(ex)
        rp = interp.repo
        rp.load(JOB)
        o = Obj(rp.classes[f"{JOB}.Job"])
        sp, i = z3.Const("sp_arg", SPv), z3.Const("id_arg", Id)
        ex.assume(sp != NONEV)
        kw = {"project": proj}
        if case["by"] in ("statepoint", "both"):
            kw["statepoint"] = SSP(sp)
        if case["by"] in ("id", "both"):
            kw["id_"] = SId(i)
        ctx.overrides[(JOB, "RLock")] = NativeStub(lambda: None, "RLock")
        c = proj.fields["_sp_cache"]
        return [o], kw, {"o": o, "sp": sp, "i": i, "proj": proj, "cache0": (c.dom, c.val)}

    def post(self, interp, case, pre, outcome):
        ex, ctx = interp.ex, interp.ctx
        o, sp, i, proj = pre["o"], pre["sp"], pre["i"], pre["proj"]
        ex.oblige(self.oname("frame:constructing_a_handle_touches_nothing_on_disk"), ctx.fs.eq(ctx.fs0))
        c = proj.fields["_sp_cache"]
        x = z3.Const("jn_x", Id)
        ex.oblige(self.oname("frame:constructing_a_handle_registers_nothing_in_the_project's_state_point_cache_(only_initialised_/_loaded_jobs_are_known_by_id)"),
                  z3.ForAll([x], z3.And(c.dom[x] == pre["cache0"][0][x], z3.Implies(c.dom[x], c.val[x] == pre["cache0"][1][x]))))
        if case["by"] == "none":
            ex.oblige(self.oname("raises:ValueError_without_statepoint_and_id"), z3.BoolVal(outcome[0] == "raise" and isinstance(outcome[1], ValueError)))
            return
        if outcome[0] == "raise":
            ex.oblige(self.oname("raises:nothing_for_valid_arguments"), False, note=repr(outcome[1]))
            return
        f = o.fields
        want = CALC(sp) if case["by"] == "statepoint" else i
        ex.oblige(self.oname("ensures:id_is_the_hash_of_the_state_point_or_the_given_id"), f["_id"].e == want if isinstance(f.get("_id"), SId) else z3.BoolVal(False))
        ex.oblige(self.oname("ensures:lazy_fields_reset"), z3.BoolVal(f.get("_path") is None and f.get("_document") is None and f.get("_stores") is None
                                                                      and f.get("_statepoint_requires_init") is True and f.get("_project") is proj))
        cs = f.get("_cached_statepoint")
        if case["by"] in ("statepoint", "both"):
            ex.oblige(self.oname("ensures:cached_state_point_is_the_given_value"), cs.e == sp if isinstance(cs, SSP) else z3.BoolVal(False))
        else:
            cache = proj.fields["_sp_cache"]
            ex.oblige(self.oname("ensures:cached_state_point_only_from_a_cache_hit"),
                      z3.And(cache.dom[i], cs.e == cache.val[i]) if isinstance(cs, SSP) else (z3.Not(cache.dom[i]) if cs is None else z3.BoolVal(False)))


class OpenJobBySP(FSContract):
    target = f"{PRJ}.Project.open_job"
    properties = ("C01", "C02", "C03", "C04", "C12")
    inline = GETTERS + (f"{JOB}.Job.__init__", f"{JOB}.Job._initialize_lazy_properties")
    # not called by the current code (callee view of ContainsJobId, contracts/project.py): a handle opened from a state point knows that state
    # point whether or not a directory of that id exists already -- a directory is no proof that the job is initialised (C12: two processes
    # initialising the same job; the second one finds the directory before the first has written the state point file)
    callees = {f"{PRJ}.Project._contains_job_id": lambda interp, b: SBool(interp.ctx.fs.dirs[JD.mk(b["self"].p, b["job_id"].e)]) if isinstance(b["job_id"], SId)
               else (_ for _ in ()).throw(Unsupported("_contains_job_id argument"))}
    faults = False

    def cases(self):
        return [{"by": "statepoint"}, {"by": "none"}, {"by": "both"}, {"by": "id-cached"}]

    def setup(self, interp, case):
        ex, ctx = interp.ex, interp.ctx
        ctx.fs_init(ex)
        proj = mk_project(ex)
        sp, i = z3.Const("sp_arg", SPv), z3.Const("id_arg", Id)
        ex.assume(sp != NONEV)
        ctx.overrides[(JOB, "RLock")] = NativeStub(lambda: None, "RLock")
        kw = {}
        if case["by"] in ("statepoint", "both"):
            kw["statepoint"] = SSP(sp)
        if case["by"] in ("both", "id-cached"):
            kw["id"] = SId(i)
        if case["by"] == "id-cached":
            ex.assume(proj.fields["_sp_cache"].dom[i])
            ex.assume(proj.fields["_sp_cache"].valid())
        return [proj], kw, {"sp": sp, "i": i, "proj": proj, "arg": kw.get("statepoint")}

    def post(self, interp, case, pre, outcome):
        ex, ctx = interp.ex, interp.ctx
        sp, i, proj = pre["sp"], pre["i"], pre["proj"]
        ex.oblige(self.oname("frame:open_job_writes_nothing_to_disk"), ctx.fs.eq(ctx.fs0))
        if case["by"] in ("none", "both"):
            ex.oblige(self.oname("raises:ValueError_for_none_or_both"), z3.BoolVal(outcome[0] == "raise" and isinstance(outcome[1], ValueError)))
            return
        if outcome[0] == "raise":
            ex.oblige(self.oname("raises:nothing_for_valid_arguments"), False, note=repr(outcome[1]))
            return
        j = outcome[1]
        ok = isinstance(j, Obj) and j.cls.name == "Job" and isinstance(j.fields.get("_id"), SId) and j.fields.get("_project") is proj
        ex.oblige(self.oname("ensures:returns_a_job_handle_of_this_project"), z3.BoolVal(ok))
        if not ok:
            return
        cs = j.fields.get("_cached_statepoint")
        if case["by"] == "statepoint":
            ex.oblige(self.oname("ensures:id_is_hash_of_state_point"), j.fields["_id"].e == CALC(sp))
            ex.oblige(self.oname("ensures:handle_holds_an_unaliased_equal_copy"),
                      z3.And(z3.BoolVal(isinstance(cs, SSP) and cs is not pre["arg"]), z3.Or(z3.BoolVal(getattr(cs, "shares_nested_with", None) is None), z3.Not(HAS_NESTED_MUTABLE(sp))), cs.e == sp) if isinstance(cs, SSP) else z3.BoolVal(False),
                      note="the handle's state point shares nested containers with the caller's mapping" if getattr(cs, "shares_nested_with", None) is not None else "")
        else:
            ex.oblige(self.oname("ensures:cached_job_opened_with_its_cached_state_point"),
                      z3.And(j.fields["_id"].e == i, cs.e == proj.fields["_sp_cache"].val[i]) if isinstance(cs, SSP) else z3.BoolVal(False))


# ============================================================================= Job.remove


class JobRemove(FSContract):
    target = f"{JOB}.Job.remove"
    properties = ("C03", "C05", "C11")

    def setup(self, interp, case):
        ex, ctx = interp.ex, interp.ctx
        ctx.fs_init(ex)
        proj = mk_project(ex)
        job = mk_job(interp, proj, "me")
        if ex.decide(None, "pre:document handle open"):
            from .jobfs import SDoc
            job.fields["_document"] = SDoc(LIn(proj.p, job.me, Name.DOC), True)
            job.fields["_stores"] = "h5-store-manager"
        return [job], {}, {"job": job, "p": proj.p, "me": job.me, "had_doc": job.fields["_document"]}

    def crash_invariant(self, interp, ctx, label, fs):
        pre = ctx.ghost.get("pre")
        if pre:
            interp.ex.oblige(self.oname("crash:every_other_job_untouched"), jd_frame(ctx.fs0, fs, pre["p"], pre["me"]))

    def post(self, interp, case, pre, outcome):
        ex, ctx = interp.ex, interp.ctx
        fs0, fs, p, me, job = ctx.fs0, ctx.fs, pre["p"], pre["me"], pre["job"]
        k = JD.mk(p, me)
        ex.oblige(self.oname("frame:every_other_job_untouched"), z3.And(jd_frame(fs0, fs, p, me), fs.ws == fs0.ws))
        if outcome[0] == "return":
            ex.oblige(self.oname("ensures:job_directory_gone"), z3.And(z3.Not(fs.dirs[k]), fs.ent[k] == EMPTY))
            ex.oblige(self.oname("ensures:document_and_store_handles_dropped_when_a_directory_was_removed"),
                      z3.Implies(fs0.dirs[k], z3.BoolVal(job.fields["_document"] is None and job.fields["_stores"] is None)))
            # an open (possibly buffered) document handle must be cleared before it is dropped, or stale buffered keys come back
            # when the job is re-created inside the same signac.buffered() block (C05: buffering is transparent)
            had = pre.get("had_doc")
            cleared = any(d is had and w == "clear" for d, w in ctx.ghost.get("docwrites", []))
            ex.oblige(self.oname("ensures:an_open_document_handle_is_cleared_before_it_is_dropped"),
                      z3.Implies(z3.And(fs0.dirs[k], z3.BoolVal(had is not None)), z3.BoolVal(cleared)))
            dk = job.fields["_directory_known"]
            ex.oblige(self.oname("ensures:directory_no_longer_assumed_to_exist"), z3.BoolVal(dk is False))
        else:
            ex.oblige(self.oname("raises:only_an_injected_OSError"), z3.BoolVal(isinstance(outcome[1], SymOSError)))


# ============================================================================= Job.move / Project.clone


def setup_two_projects(interp, same=None):
    ex, ctx = interp.ex, interp.ctx
    ctx.fs_init(ex)
    src = mk_project(ex, "p")
    if same is None:
        same = ex.decide(None, "pre:destination is the same project")
    dst = src if same else mk_project(ex, "q")
    if not same:
        ex.assume(src.p != dst.p)
    return src, dst


class JobMove(FSContract):
    target = f"{JOB}.Job.move"
    properties = ("C03", "C04", "C05", "C11")
    shard_bits = 3
    inline = GETTERS + (f"{JOB}.Job.statepoint", f"{JOB}._StatePointDict.__init__", f"{PRJ}.Project._register", f"{JOB}.Job.__str__")
    callees = {f"{PRJ}.Project.open_job": stub_open_job_by_sp, "signac._utility._mkdir_p": stub_mkdir_p, f"{JOB}._StatePointDict.load": stub_sp_load}

    def setup(self, interp, case):
        ex, ctx = interp.ex, interp.ctx
        src, dst = setup_two_projects(interp)
        job = mk_job(interp, src, "me")
        if ex.decide(None, "pre:document handle already open"):
            # the handle has touched its document before: after the move it must not stay bound to the file in the old project
            from .jobfs import SDoc
            job.fields["_document"] = SDoc(LIn(src.p, job.me, Name.DOC), True)
        ex.assume(z3.And(src.fields["_sp_cache"].valid(), dst.fields["_sp_cache"].valid()))
        pre = {"job": job, "p": src.p, "q": dst.p, "me": job.me, "src": src, "dst": dst}
        ctx.ghost["pre"] = pre
        return [job, dst], {}, pre

    def crash_invariant(self, interp, ctx, label, fs):
        pre = ctx.ghost.get("pre")
        if not pre:
            return
        p, q, me, fs0 = pre["p"], pre["q"], pre["me"], ctx.fs0
        j = z3.Const("ci_j", JD)
        ks, kd = JD.mk(p, me), JD.mk(q, me)
        interp.ex.oblige(self.oname("crash:every_other_job_untouched"),
                         z3.ForAll([j], z3.Implies(z3.And(j != ks, j != kd), z3.And(fs.dirs[j] == fs0.dirs[j], fs.ent[j] == fs0.ent[j]))))
        interp.ex.oblige(self.oname("crash:job_data_complete_under_exactly_one_project"),
                         z3.Implies(z3.And(fs0.dirs[ks], ks != kd),
                                    z3.Or(z3.And(fs.dirs[ks], fs.ent[ks] == fs0.ent[ks], fs.dirs[kd] == fs0.dirs[kd], fs.ent[kd] == fs0.ent[kd]),
                                          z3.And(z3.Not(fs.dirs[ks]), fs.dirs[kd], fs.ent[kd] == fs0.ent[ks]))))

    def post(self, interp, case, pre, outcome):
        from signac.errors import DestinationExistsError, JobsCorruptedError
        ex, ctx = interp.ex, interp.ctx
        fs0, fs, p, q, me, job, dst = ctx.fs0, ctx.fs, pre["p"], pre["q"], pre["me"], pre["job"], pre["dst"]
        ks, kd = JD.mk(p, me), JD.mk(q, me)
        j = z3.Const("po_j", JD)
        ex.oblige(self.oname("frame:every_other_job_untouched"),
                  z3.And(z3.ForAll([j], z3.Implies(z3.And(j != ks, j != kd), z3.And(fs.dirs[j] == fs0.dirs[j], fs.ent[j] == fs0.ent[j]))), fs.pf == fs0.pf))
        ex.oblige(self.oname("inv:cache_entries_hash_to_their_key"), z3.And(pre["src"].fields["_sp_cache"].valid(), dst.fields["_sp_cache"].valid()))
        if outcome[0] == "return":
            ex.oblige(self.oname("ensures:directory_moved_with_identical_entries"),
                      z3.Implies(ks != kd, z3.And(fs.dirs[kd], fs.ent[kd] == fs0.ent[ks], z3.Not(fs.dirs[ks]), fs.ent[ks] == EMPTY)))
            ex.oblige(self.oname("ensures:source_was_initialised_and_destination_was_free"),
                      z3.Implies(ks != kd, z3.And(fs0.dirs[ks], z3.Or(z3.Not(fs0.dirs[kd]), fs0.ent[kd] == EMPTY))))
            f = job.fields
            ex.oblige(self.oname("ensures:handle_adopts_the_destination_project_and_keeps_the_id"),
                      z3.And(z3.BoolVal(f["_project"] is dst), f["_id"].e == me) if isinstance(f["_id"], SId) else z3.BoolVal(False))
            ex.oblige(self.oname("ensures:handle_state_point_object_not_bound_to_the_old_location"),
                      z3.BoolVal(f["_statepoint_requires_init"] is True or (isinstance(f.get("_statepoint"), Obj) and False)))
            for lab, c in inv_job(ctx, job):
                ex.oblige(self.oname("inv:" + lab), c)
        else:
            exc = outcome[1]
            if isinstance(exc, (DestinationExistsError, RuntimeError)):
                ex.oblige(self.oname("raises:DestinationExists_or_uninitialised_leaves_all_job_directories_untouched"),
                          z3.And(fs.dirs == fs0.dirs, fs.ent == fs0.ent))
            elif isinstance(exc, (SymOSError, JobsCorruptedError, UnicodeDecodeError)):
                pass   # frame + crash invariants (a decode error is the rejection of a state point file that is not even UTF-8)
            else:
                ex.oblige(self.oname("raises:no_other_exception"), False, note=repr(exc))
        ex.oblige(self.oname("ensures:occupied_destination_never_clobbered"),
                  z3.Implies(z3.And(ks != kd, fs0.dirs[kd], fs0.ent[kd] != EMPTY), z3.And(fs.dirs[kd], fs.ent[kd] == fs0.ent[kd], fs.ent[ks] == fs0.ent[ks], fs.dirs[ks] == fs0.dirs[ks])))


class ProjectClone(FSContract):
    target = f"{PRJ}.Project.clone"
    properties = ("C01", "C03", "C04", "C11", "C13", "C16")
    shard_bits = 2
    inline = GETTERS + (f"{JOB}.Job.statepoint", f"{JOB}.Job.cached_statepoint", f"{JOB}._StatePointDict.__init__", f"{PRJ}.Project._register")
    callees = {f"{PRJ}.Project.open_job": stub_open_job_by_sp, f"{JOB}._StatePointDict.load": stub_sp_load}

    def make_ctx(self, case):
        import types
        ctx = super().make_ctx(case)
        # only reached by code that reads the state point through Job.cached_statepoint instead of Job.statepoint (not the current code)
        ctx.externals[types.MappingProxyType] = lambda interp, v: v

        def get_sp(interp, b):
            v = z3.Const(interp.ex.fresh_name("sp_looked_up"), SPv)
            interp.ex.assume(z3.And(CALC(v) == b["job_id"].e, v != NONEV))
            interp.ex.assumptions_used.add("Project._get_statepoint: a validated lookup returns a state point hashing to the id (contract GetSP)")
            return SSP(v)
        ctx.callee_contracts[f"{PRJ}.Project._get_statepoint"] = get_sp
        return ctx

    def setup(self, interp, case):
        ex, ctx = interp.ex, interp.ctx
        src, dst = setup_two_projects(interp)
        job = mk_job(interp, src, "me")
        if job.fields["_statepoint_requires_init"] is False and ex.decide(None, "pre:the read-only cached state point is stale (the handle was re-keyed)"):
            # reachable: a state point change through a materialised handle does not refresh _cached_statepoint (design note F4); the copy is
            # filed under the id of the state point the job has *now* (clause returns_the_destination_handle), C01
            stale = z3.Const("sp_stale_cached", SPv)
            ex.assume(stale != NONEV)
            job.fields["_cached_statepoint"] = SSP(stale)
        ex.assume(z3.And(src.fields["_sp_cache"].valid(), dst.fields["_sp_cache"].valid()))
        pre = {"job": job, "p": src.p, "q": dst.p, "me": job.me, "src": src, "dst": dst}
        ctx.ghost["pre"] = pre
        return [dst, job], {}, pre

    def crash_invariant(self, interp, ctx, label, fs):
        pre = ctx.ghost.get("pre")
        if not pre:
            return
        p, q, me, fs0 = pre["p"], pre["q"], pre["me"], ctx.fs0
        j = z3.Const("ci_j", JD)
        kd = JD.mk(q, me)
        interp.ex.oblige(self.oname("crash:source_and_every_other_job_untouched"),
                         z3.ForAll([j], z3.Implies(j != kd, z3.And(fs.dirs[j] == fs0.dirs[j], fs.ent[j] == fs0.ent[j]))))

    def post(self, interp, case, pre, outcome):
        from signac.errors import DestinationExistsError, JobsCorruptedError
        ex, ctx = interp.ex, interp.ctx
        fs0, fs, p, q, me, dst = ctx.fs0, ctx.fs, pre["p"], pre["q"], pre["me"], pre["dst"]
        ks, kd = JD.mk(p, me), JD.mk(q, me)
        j = z3.Const("po_j", JD)
        ex.oblige(self.oname("frame:source_and_every_other_job_untouched"),
                  z3.And(z3.ForAll([j], z3.Implies(j != kd, z3.And(fs.dirs[j] == fs0.dirs[j], fs.ent[j] == fs0.ent[j]))), fs.pf == fs0.pf))
        if outcome[0] == "return":
            h = outcome[1]
            ok = isinstance(h, Obj) and h.cls.name == "Job" and h.fields.get("_project") is dst and isinstance(h.fields.get("_id"), SId)
            ex.oblige(self.oname("ensures:returns_the_destination_handle"), z3.And(z3.BoolVal(ok), h.fields["_id"].e == me) if ok else z3.BoolVal(False))
            ex.oblige(self.oname("ensures:destination_is_an_identical_copy"), z3.And(fs.dirs[kd], fs.ent[kd] == fs0.ent[ks], fs0.dirs[ks]))
            ex.oblige(self.oname("ensures:destination_did_not_exist_before"), z3.Not(fs0.dirs[kd]))
        else:
            exc = outcome[1]
            if isinstance(exc, DestinationExistsError):
                ex.oblige(self.oname("raises:DestinationExistsError_leaves_everything_untouched"), z3.And(fs.dirs == fs0.dirs, fs.ent == fs0.ent))
            elif isinstance(exc, UnicodeDecodeError):
                pass   # rejection of a state point file that is not UTF-8 (covered by the frame / never-clobbered clauses)
            elif isinstance(exc, ValueError):
                ex.oblige(self.oname("raises:ValueError_only_for_an_uninitialised_source"), z3.And(z3.Not(fs0.dirs[ks]), fs.dirs == fs0.dirs, fs.ent == fs0.ent))
            elif isinstance(exc, (SymOSError, JobsCorruptedError)):
                pass
            else:
                ex.oblige(self.oname("raises:no_other_exception"), False, note=repr(exc))
        ex.oblige(self.oname("ensures:existing_destination_never_clobbered"), z3.Implies(fs0.dirs[kd], z3.And(fs.dirs[kd], fs.ent[kd] == fs0.ent[kd])))


CONTRACTS += [JobNew(), OpenJobBySP(), JobRemove(), JobMove(), ProjectClone()]


# ============================================================================= callee view of the re-key (_StatePointDict._save), clauses of SPRekey.post


def stub_rekey(interp, b):
    from signac.errors import DestinationExistsError, JobsCorruptedError
    ex, ctx = interp.ex, interp.ctx
    sd = b["self"]
    jobs = sd.fields["_jobs"]
    if not isinstance(jobs, list) or not jobs:
        raise Unsupported("re-key stub needs a concrete handle list")
    newsp = spv_of(sd)
    new = CALC(newsp)
    first = jobs[0]
    old = first.fields["_id"].e
    p = first.fields["_project"].p
    fs = ctx.fs
    ko, kn = JD.mk(p, old), JD.mk(p, new)
    if ex.decide(old == new, "rekey:same-id"):
        return None
    initialised = z3.And(fs.dirs[ko], Node.is_File(fs.ent[ko][Name.SP]))
    j = z3.Const("rk_j", JD)

    def follow():
        for h in jobs:
            h.fields.update(_id=SId(new), _path=None, _document=None, _stores=None, _cwd=[])
        sd.fields["_filename"] = LIn(p, new, Name.SP)

    if not ex.decide(initialised, "rekey:initialised"):
        follow()
        return None
    f1 = FS.fresh(ex.fresh_name("rekey"))
    others = z3.And(z3.ForAll([j], z3.Implies(z3.And(j != ko, j != kn), z3.And(f1.dirs[j] == fs.dirs[j], f1.ent[j] == fs.ent[j]))), f1.pf == fs.pf, f1.ws == fs.ws)
    ex.assume(others)
    ex.assume(z3.Implies(z3.And(fs.dirs[kn], fs.ent[kn] != EMPTY), z3.And(f1.dirs[kn], f1.ent[kn] == fs.ent[kn])))
    outcome = ex.choose(4 if ctx.faults else 2, "rekey-outcome")
    if outcome == 0:
        ex.assume(z3.And(z3.Or(z3.Not(fs.dirs[kn]), fs.ent[kn] == EMPTY), f1.dirs[kn], z3.Not(f1.dirs[ko]), f1.ent[ko] == EMPTY,
                         f1.ent[kn] == z3.Store(z3.Store(fs.ent[ko], Name.SP, f1.ent[kn][Name.SP]), Name.SPBAK, Node.Absent),
                         f1.valid(p, new), parsed(Node.data(f1.ent[kn][Name.SP])) == newsp))
        ctx.effect(interp, "re-key (directory moved)", f1)
        follow()
        # the final init() registers the new state point
        first.fields["_project"].fields["_sp_cache"].sym_setitem(ex, SId(new), SSP(newsp))
        return None
    if outcome == 1:
        raise RaiseSignal(DestinationExistsError(SId(new)))
    ctx.effect(interp, "re-key (failed)", f1)
    if outcome == 2:
        e = z3.Int(ex.fresh_name("errno"))
        ex.assume(z3.And(e != errno.ENOENT, e > 0))
        if ex.decide(None, "rekey-failed:handles-updated"):
            follow()
        raise RaiseSignal(SymOSError(e))
    follow()
    ex.assume(z3.Not(f1.valid(p, new)))
    raise RaiseSignal(JobsCorruptedError([SId(new)]))


# ============================================================================= Job.statepoint (getter / setter), update_statepoint


class SPGetter(FSContract):
    target = f"{JOB}.Job.statepoint"
    properties = ("C01", "C02", "C03", "C08", "C09", "C11")
    inline = GETTERS + (f"{JOB}._StatePointDict.__init__", f"{PRJ}.Project._register")
    callees = {f"{JOB}._StatePointDict.load": stub_sp_load}

    def setup(self, interp, case):
        ex, ctx = interp.ex, interp.ctx
        ctx.fs_init(ex)
        proj = mk_project(ex)
        job = mk_job(interp, proj, "me")
        ex.assume(proj.fields["_sp_cache"].valid())
        return [job], {}, {"job": job, "proj": proj, "p": proj.p, "me": job.me}

    def post(self, interp, case, pre, outcome):
        from signac.errors import JobsCorruptedError
        ex, ctx = interp.ex, interp.ctx
        job, proj, p, me = pre["job"], pre["proj"], pre["p"], pre["me"]
        ex.oblige(self.oname("frame:reads_only"), ctx.fs.eq(ctx.fs0))
        ex.oblige(self.oname("inv:cache_entries_hash_to_their_key"), proj.fields["_sp_cache"].valid())
        if outcome[0] == "return":
            sd = outcome[1]
            ok = isinstance(sd, Obj) and sd.cls.name == "_StatePointDict" and job.fields.get("_statepoint") is sd and job.fields["_statepoint_requires_init"] is False
            ex.oblige(self.oname("ensures:returns_the_materialised_state_point_object"), z3.BoolVal(ok))
            if ok:
                ex.oblige(self.oname("ensures:state_point_data_hashes_to_the_job_id"), CALC(spv_of(sd)) == me)
                ex.oblige(self.oname("ensures:the_cached_state_point_is_plain_data,_never_the_live_state_point_object"),
                          z3.BoolVal(not isinstance(job.fields.get("_cached_statepoint"), Obj)), note=repr(type(job.fields.get("_cached_statepoint")).__name__))
                for lab, c in inv_job(ctx, job):
                    ex.oblige(self.oname("inv:" + lab), c)
        else:
            exc = outcome[1]
            ex.oblige(self.oname("raises:only_when_a_lazy_load_fails"), z3.BoolVal(isinstance(exc, (JobsCorruptedError, SymOSError, UnicodeDecodeError))))
            ex.oblige(self.oname("raises:handle_still_lazy"), z3.BoolVal(job.fields["_statepoint_requires_init"] is True))


class SPSetter(FSContract):
    target = f"{JOB}.Job.statepoint.setter"
    properties = ("C01", "C03", "C04", "C08")
    shard_bits = 2
    inline = GETTERS + (f"{JOB}.Job.statepoint", f"{JOB}._StatePointDict.__init__", f"{PRJ}.Project._register")
    callees = {f"{JOB}._StatePointDict.load": stub_sp_load, f"{JOB}._StatePointDict._save": stub_rekey}

    def setup(self, interp, case):
        ex, ctx = interp.ex, interp.ctx
        ctx.fs_init(ex)
        proj = mk_project(ex)
        job = mk_job(interp, proj, "me")
        ex.assume(proj.fields["_sp_cache"].valid())
        newsp = z3.Const("sp_assigned", SPv)
        ex.assume(z3.And(newsp != NONEV, CALC(NONEV) != CALC(newsp)))
        ex.assume(z3.And(ctx.fs0.ent[JD.mk(proj.p, job.me)][Name.SPBAK] == Node.Absent))
        sib = None
        if job.fields["_statepoint_requires_init"] is False:
            # a shallow copy of the handle (copy.copy): same attributes, the state point object is shared and lists both handles
            sib = Obj(job.cls)
            sib.tag = "sib"
            sib.fields.update(job.fields)
            sib.fields["_cwd"] = job.fields["_cwd"]
            job.fields["_statepoint"].fields["_jobs"] = [job, sib]
        return [job, SSP(newsp)], {}, {"job": job, "proj": proj, "p": proj.p, "me": job.me, "newsp": newsp, "sib": sib}

    def post(self, interp, case, pre, outcome):
        from signac.errors import DestinationExistsError
        ex, ctx = interp.ex, interp.ctx
        job, proj, p, me, newsp = pre["job"], pre["proj"], pre["p"], pre["me"], pre["newsp"]
        fs0, fs = ctx.fs0, ctx.fs
        ex.oblige(self.oname("inv:cache_entries_hash_to_their_key"), proj.fields["_sp_cache"].valid())
        if outcome[0] == "return":
            jid = job.fields["_id"]
            ex.oblige(self.oname("ensures:handle_has_the_id_of_the_new_state_point"), jid.e == CALC(newsp) if isinstance(jid, SId) else z3.BoolVal(False))
            sib = pre["sib"]
            if sib is not None:
                sid = sib.fields["_id"]
                ex.oblige(self.oname("ensures:every_shallow_copy_of_the_handle_follows_(same_id,_shared_state_point_object,_lazy_fields_reset)"),
                          z3.And(sid.e == CALC(newsp) if isinstance(sid, SId) else z3.BoolVal(False), z3.BoolVal(sib.fields.get("_statepoint") is job.fields.get("_statepoint")),
                                 *[c for _, c in inv_job_follow(ctx, sib, CALC(newsp))]))
            c = proj.fields["_sp_cache"]
            ex.oblige(self.oname("ensures:new_state_point_registered_under_its_own_id"), z3.And(c.dom[CALC(newsp)], c.val[CALC(newsp)] == newsp))
            sd = job.fields.get("_statepoint")
            ex.oblige(self.oname("ensures:state_point_object_holds_the_new_value"), spv_of(sd) == newsp if isinstance(sd, Obj) else z3.BoolVal(False))
        else:
            exc = outcome[1]
            if isinstance(exc, DestinationExistsError):
                ex.oblige(self.oname("raises:DestinationExistsError_leaves_disk_untouched"), fs.eq(fs0))


class SUpdate(Sym):
    """the `update` mapping of update_statepoint: n (key, value) entries, abstract"""

    def __init__(self, e):
        self.e = e

    def sym_getattr(self, ex, name):
        if name == "items":
            return NativeStub(lambda: SUpdItems(self), "update.items")
        raise Unsupported(f"update.{name}")


UpdV = z3.DeclareSort("UpdV")
UKey = z3.DeclareSort("UKey")
UVal = z3.DeclareSort("UVal")
upd_n = z3.Function("upd_n", UpdV, z3.IntSort())
upd_key = z3.Function("upd_key", UpdV, z3.IntSort(), UKey)
upd_val = z3.Function("upd_val", UpdV, z3.IntSort(), UVal)
sp_has = z3.Function("sp_has", SPv, UKey, z3.BoolSort())     # key in state point value
sp_val = z3.Function("sp_val", SPv, UKey, UVal)             # its value there
NONE_UVAL = z3.Const("None_as_value", UVal)


def sp_get(sp, k, d):
    """dict.get(key, default) on a state point value"""
    return z3.If(sp_has(sp, k), sp_val(sp, k), d)
uval_eq = z3.Function("uval_eq", UVal, UVal, z3.BoolSort())   # Python == on values
sp_updated = z3.Function("sp_updated", SPv, UpdV, SPv)       # dict(sp); .update(upd)


class SUpdItems(Sym):
    def __init__(self, u):
        self.u = u

    def sym_iter(self, ex):
        from pyvc.core import CutSeq
        u = self.u.e
        return CutSeq(upd_n(u), lambda interp, i: (SUKey(upd_key(u, i)), SUVal(upd_val(u, i))), label="update.items()")


class SUKey(Sym):
    def __init__(self, e):
        self.e = e


class SUVal(Sym):
    def __init__(self, e):
        self.e = e

    def sym_eq(self, ex, other):
        if isinstance(other, SUVal):
            return SBool(uval_eq(self.e, other.e))
        raise Unsupported("value ==")

    def sym_is(self, ex, other):
        if other is None:
            return SBool(self.e == NONE_UVAL)
        raise Unsupported("`is` on a value")


class SSPCopy(SSP):
    """a plain dict copy of a state point (statepoint()): supports .get / .update as abstract functions"""

    def sym_getattr(self, ex, name):
        if name == "get":
            def get(k, default=None):
                if isinstance(k, SUKey) and isinstance(default, SUVal):
                    return SUVal(sp_get(self.e, k.e, default.e))
                if isinstance(k, SUKey) and default is None:
                    return SUVal(sp_get(self.e, k.e, NONE_UVAL))
                raise Unsupported("statepoint.get arguments")
            return NativeStub(get, "dict.get")
        if name == "update":
            def update(u):
                if not isinstance(u, SUpdate):
                    raise Unsupported("dict.update argument")
                self.e = sp_updated(self.e, u.e)
            return NativeStub(update, "dict.update")
        raise Unsupported(f"dict.{name}")


class SSPProxy(Sym):
    """MappingProxyType over the handle's cached state point"""

    def __init__(self, inner):
        self.inner = inner


class UpdateStatepoint(FSContract):
    target = f"{JOB}.Job.update_statepoint"
    properties = ("C03", "C04", "C08", "C11")
    inline = GETTERS + (f"{JOB}.Job.statepoint", f"{JOB}._StatePointDict.__init__", f"{PRJ}.Project._register")
    callees = {f"{JOB}._StatePointDict.load": stub_sp_load}
    faults = False

    def cases(self):
        return [{"overwrite": False}, {"overwrite": True}]

    def loops(self, case):
        from pyvc.interp import LoopSpec
        from pyvc.theory_j import FA_idx

        def inv(interp, fr, i, seq):
            g = interp.ctx.ghost
            u, cur = g["upd"], g["cur"]
            # no conflict among the entries seen so far
            return FA_idx(0, i, lambda k: uval_eq(sp_get(cur, upd_key(u, k), upd_val(u, k)), upd_val(u, k)))
        return {"update.items()": LoopSpec("entries", inv, havoc={}, scratch=("key", "value"))}

    def make_ctx(self, case):
        ctx = super().make_ctx(case)

        def setter(interp, b):
            ctx.ghost["assigned"] = b["new_statepoint"]
            return None
        ctx.callee_contracts[f"{JOB}.Job.statepoint.setter"] = setter
        orig = ctx.dep_call

        def dep_call(interp, o, name, args, kw, via_super=False):
            if o.cls.name == "_StatePointDict" and name == "__call__":
                return SSPCopy(spv_of(o))
            return orig(interp, o, name, args, kw, via_super)
        ctx.dep_call = dep_call
        # callee view of Job.cached_statepoint (CachedStatepoint): a read-only view of whatever the handle has cached
        ctx.callee_contracts[f"{JOB}.Job.cached_statepoint"] = lambda interp, b: SSPProxy(b["self"].fields["_cached_statepoint"])
        od = ctx.dictify
        ctx.dictify = lambda interp, v: SSPCopy(spv_of(v.inner)) if isinstance(v, SSPProxy) else od(interp, v)
        return ctx

    def setup(self, interp, case):
        ex, ctx = interp.ex, interp.ctx
        ctx.fs_init(ex)
        proj = mk_project(ex)
        job = mk_job(interp, proj, "me", lazy=False)
        # the read-only cached copy may be STALE (known finding F4): the contract does not assume it equals the live state point
        job.fields["_cached_statepoint"] = SSP(z3.Const("sp_cached_possibly_stale", SPv))
        u = z3.Const("upd", UpdV)
        ex.assume(upd_n(u) >= 0)
        ctx.ghost.update({"upd": u, "cur": job.sp})
        kw = {"overwrite": True} if case["overwrite"] else {}
        return [job, SUpdate(u)], kw, {"job": job, "u": u, "cur": job.sp}

    def post(self, interp, case, pre, outcome):
        from pyvc.theory_j import EX_idx, FA_idx
        ex, ctx = interp.ex, interp.ctx
        u, cur = pre["u"], pre["cur"]
        conflict = EX_idx(0, upd_n(u), lambda k: z3.Not(uval_eq(sp_get(cur, upd_key(u, k), upd_val(u, k)), upd_val(u, k))))
        assigned = ctx.ghost.get("assigned")
        if outcome[0] == "return":
            if not case["overwrite"]:
                ex.oblige(self.oname("ensures:returns_normally_only_without_conflicting_keys"), z3.Not(conflict))
            ex.oblige(self.oname("ensures:assigns_the_live_state_point_updated_with_the_mapping"),
                      spv_of(assigned) == sp_updated(cur, u) if assigned is not None else z3.BoolVal(False))
        else:
            exc = outcome[1]
            ex.oblige(self.oname("raises:KeyError_only_for_a_conflicting_key_without_overwrite"),
                      z3.And(z3.BoolVal(isinstance(exc, KeyError) and not case["overwrite"]), conflict))
            ex.oblige(self.oname("raises:KeyError_has_no_effect"), z3.And(ctx.fs.eq(ctx.fs0), z3.BoolVal(assigned is None)))


CONTRACTS += [SPGetter(), SPSetter(), UpdateStatepoint()]


# ============================================================================= Job.document / Project.document (C05, C10): wiring of the dependency's persistent dict


class SNewDoc(Sym):
    """the value assigned to job.document = ... (possibly empty)"""

    def __init__(self):
        self.empty = z3.Bool("new_doc_is_empty")

    def sym_truth(self, ex):
        return z3.Not(self.empty)

    def sym_len(self, ex):
        from pyvc.core import SInt
        n = z3.Int("len_new_doc")
        ex.assume(z3.And(n >= 0, (n == 0) == self.empty))
        return SInt(n)

    def sym_eq(self, ex, other):
        if isinstance(other, dict) and not other:
            return SBool(self.empty)
        raise Unsupported("document value ==")


class JobDocGetter(FSContract):
    target = f"{JOB}.Job.document"
    properties = ("C05", "C10", "C12")
    callees = {f"{JOB}.Job.init": stub_job_init}
    faults = False

    def setup(self, interp, case):
        ex, ctx = interp.ex, interp.ctx
        ctx.fs_init(ex)
        proj = mk_project(ex)
        job = mk_job(interp, proj, "me")
        from .jobfs import SDoc
        if ex.decide(None, "pre:document handle already open"):
            job.fields["_document"] = SDoc(LIn(proj.p, job.me, Name.DOC), True)
        ctx.ghost["doc_writes"] = []
        orig = ctx.doc_write

        def doc_write(interp_, doc, what, *a):
            ctx.ghost["doc_writes"].append(what)
            return orig(interp_, doc, what)
        ctx.doc_write = doc_write
        return [job], {}, {"job": job, "p": proj.p, "me": job.me, "had": job.fields["_document"]}

    def post(self, interp, case, pre, outcome):
        from .jobfs import SDoc
        ex, ctx = interp.ex, interp.ctx
        job, p, me = pre["job"], pre["p"], pre["me"]
        if outcome[0] != "return":
            return    # init() may fail (JobsCorruptedError): nothing is handed out then
        d = outcome[1]
        ok = isinstance(d, SDoc) and isinstance(d.filename, LIn) and d.write_concern is True and job.fields["_document"] is d
        ex.oblige(self.oname("ensures:returns_the_cached_handle_with_write_concern_True"), z3.BoolVal(bool(ok)))
        if ok:
            ex.oblige(self.oname("ensures:handle_is_bound_to_this_job's_document_file"), z3.And(d.filename.p == p, d.filename.i == me, d.filename.name == Name.DOC))
        ex.oblige(self.oname("ensures:an_open_handle_is_reused"), z3.BoolVal(pre["had"] is None or d is pre["had"]))
        k = JD.mk(p, me)
        ex.oblige(self.oname("frame:getting_the_handle_never_writes_the_document_(a_read_must_not_race_with_another_process's_write)"),
                  z3.And(z3.BoolVal(ctx.ghost["doc_writes"] == []), ctx.fs.ent[k][Name.DOC] == ctx.fs0.ent[k][Name.DOC]), note=str(ctx.ghost["doc_writes"]))
        ex.oblige(self.oname("ensures:job_directory_exists_before_a_new_handle_is_created"), z3.Implies(z3.BoolVal(pre["had"] is None), ctx.fs.dirs[JD.mk(p, me)]))


class JobDocSetter(FSContract):
    target = f"{JOB}.Job.document.setter"
    properties = ("C05", "C10")
    inline = GETTERS + (f"{JOB}.Job.document",)
    callees = {f"{JOB}.Job.init": stub_job_init}
    faults = False

    def setup(self, interp, case):
        ex, ctx = interp.ex, interp.ctx
        ctx.fs_init(ex)
        proj = mk_project(ex)
        job = mk_job(interp, proj, "me")
        from .jobfs import SDoc
        if ex.decide(None, "pre:document handle already open"):
            job.fields["_document"] = SDoc(LIn(proj.p, job.me, Name.DOC), True)
        ctx.ghost["resets"] = []
        orig = ctx.doc_write

        def doc_write(interp_, doc, what, *a):
            ctx.ghost["resets"].append((doc, what))
            return orig(interp_, doc, what)
        ctx.doc_write = doc_write
        return [job, SNewDoc()], {}, {"job": job, "p": proj.p, "me": job.me}

    def post(self, interp, case, pre, outcome):
        ex, ctx = interp.ex, interp.ctx
        if outcome[0] != "return":
            return
        rs = ctx.ghost["resets"]
        ok = len(rs) == 1 and rs[0][1] == "reset" and isinstance(rs[0][0].filename, LIn)
        ex.oblige(self.oname("ensures:assignment_resets_the_persistent_document_exactly_once_whatever_the_new_value"), z3.BoolVal(ok), note=str([r[1] for r in rs]))
        if ok:
            fn = rs[0][0].filename
            ex.oblige(self.oname("ensures:the_reset_goes_to_this_job's_document_file"), z3.And(fn.p == pre["p"], fn.i == pre["me"], fn.name == Name.DOC))


class ProjDocGetter(FSContract):
    target = f"{PRJ}.Project.document"
    properties = ("C05", "C10")
    faults = False

    def setup(self, interp, case):
        from .jobfs import SDoc
        from pyvc.theory_fs import LPF, PName
        ex, ctx = interp.ex, interp.ctx
        ctx.fs_init(ex)
        proj = mk_project(ex)
        if ex.decide(None, "pre:document handle already open"):
            proj.fields["_document"] = SDoc(LPF(proj.p, PName.PDOC), True)
        return [proj], {}, {"proj": proj, "had": proj.fields["_document"]}

    def post(self, interp, case, pre, outcome):
        from .jobfs import SDoc
        from pyvc.theory_fs import LPF, PName
        ex, ctx, proj = interp.ex, interp.ctx, pre["proj"]
        if outcome[0] != "return":
            ex.oblige(self.oname("raises:nothing"), False, note=repr(outcome[1]))
            return
        d = outcome[1]
        ok = isinstance(d, SDoc) and isinstance(d.filename, LPF) and d.write_concern is True and proj.fields["_document"] is d
        ex.oblige(self.oname("ensures:returns_the_cached_handle_with_write_concern_True"), z3.BoolVal(bool(ok)), note=repr(d))
        if ok:
            ex.oblige(self.oname("ensures:handle_is_bound_to_this_project's_document_file"), z3.And(d.filename.p == proj.p, d.filename.n == PName.PDOC))
        ex.oblige(self.oname("ensures:an_open_handle_is_reused"), z3.BoolVal(pre["had"] is None or d is pre["had"]))
        ex.oblige(self.oname("frame:handing_out_the_handle_writes_nothing"), ctx.fs.eq(ctx.fs0))


class ProjDocSetter(FSContract):
    target = f"{PRJ}.Project.document.setter"
    properties = ("C05", "C10")
    inline = GETTERS + (f"{PRJ}.Project.document",)
    faults = False

    def setup(self, interp, case):
        from .jobfs import SDoc
        from pyvc.theory_fs import LPF, PName
        ex, ctx = interp.ex, interp.ctx
        ctx.fs_init(ex)
        proj = mk_project(ex)
        if ex.decide(None, "pre:document handle already open"):
            proj.fields["_document"] = SDoc(LPF(proj.p, PName.PDOC), True)
        ctx.ghost["resets"] = []

        def doc_write(interp_, doc, what, *a):
            ctx.ghost["resets"].append((doc, what))
            return None
        ctx.doc_write = doc_write
        return [proj, SNewDoc()], {}, {"proj": proj}

    def post(self, interp, case, pre, outcome):
        from pyvc.theory_fs import LPF, PName
        ex, ctx, proj = interp.ex, interp.ctx, pre["proj"]
        if outcome[0] != "return":
            ex.oblige(self.oname("raises:nothing"), False, note=repr(outcome[1]))
            return
        rs = ctx.ghost["resets"]
        ok = len(rs) == 1 and rs[0][1] == "reset" and isinstance(rs[0][0].filename, LPF)
        ex.oblige(self.oname("ensures:assignment_resets_the_persistent_project_document_exactly_once_whatever_the_new_value"), z3.BoolVal(ok), note=str([r[1] for r in rs]))
        if ok:
            fn = rs[0][0].filename
            ex.oblige(self.oname("ensures:the_reset_goes_to_this_project's_document_file"), z3.And(fn.p == proj.p, fn.n == PName.PDOC))


class DocAlias(Contract):
    """`doc` is `document` (getter and setter), for jobs and for projects"""
    properties = ("C05",)

    def __init__(self, owner, setter):
        self.owner, self.setter = owner, setter
        self.target = f"{owner}.doc" + (".setter" if setter else "")
        super().__init__()

    def make_ctx(self, case):
        ctx = super().make_ctx(case)
        g = ctx.ghost
        g["calls"] = []
        tok = ("the-document",)

        def getter(interp, b):
            g["calls"].append(("get", b["self"]))
            return tok

        def setter(interp, b):
            vals = [v for k, v in b.items() if k != "self"]
            g["calls"].append(("set", b["self"], vals[0] if vals else None))
        ctx.callee_contracts[f"{self.owner}.document"] = getter
        ctx.callee_contracts[f"{self.owner}.document.setter"] = setter
        g["tok"] = tok
        return ctx

    def setup(self, interp, case):
        rp = interp.repo
        mod = self.owner.rsplit(".", 1)[0]
        rp.load(mod)
        o = Obj(rp.classes[self.owner])
        new = ("new-value",)
        return ([o, new] if self.setter else [o]), {}, {"o": o, "new": new}

    def post(self, interp, case, pre, outcome):
        ex, g = interp.ex, interp.ctx.ghost
        if self.setter:
            ok = outcome[0] == "return" and g["calls"] == [("set", pre["o"], pre["new"])]
            ex.oblige(self.oname("ensures:assigning_to_doc_assigns_to_document"), z3.BoolVal(bool(ok)), note=repr(g["calls"]))
        else:
            ok = outcome == ("return", g["tok"]) and g["calls"] == [("get", pre["o"])]
            ex.oblige(self.oname("ensures:doc_is_the_document"), z3.BoolVal(bool(ok)), note=repr((outcome, g["calls"])))


class BufferAliases(Contract):
    """signac.buffered & friends are the buffering context of the very class job/project documents are made of"""
    target = f"{JOB}.Job.id"     # anchor only: the obligations are concrete identities of module attributes
    properties = ("C05",)

    def setup(self, interp, case):
        rp = interp.repo
        rp.load(JOB)
        o = Obj(rp.classes[f"{JOB}.Job"])
        o.fields["_id"] = "x"
        return [o], {}, {}

    def post(self, interp, case, pre, outcome):
        import signac
        import signac.job
        import signac.project
        from synced_collections.backends.collection_json import BufferedJSONAttrDict
        ex = interp.ex
        ex.oblige(self.oname("const:documents_are_BufferedJSONAttrDict_in_job_and_project"),
                  z3.BoolVal(signac.job.BufferedJSONAttrDict is BufferedJSONAttrDict and signac.project.BufferedJSONAttrDict is BufferedJSONAttrDict))
        ex.oblige(self.oname("const:signac.buffered_is_that_class'_buffer_context"), z3.BoolVal(signac.buffered == BufferedJSONAttrDict.buffer_backend))
        ex.oblige(self.oname("const:buffer_size_accessors_belong_to_that_class"),
                  z3.BoolVal(signac.get_buffer_capacity == BufferedJSONAttrDict.get_buffer_capacity and signac.set_buffer_capacity == BufferedJSONAttrDict.set_buffer_capacity
                             and signac.get_current_buffer_size == BufferedJSONAttrDict.get_current_buffer_size and signac.is_buffered == BufferedJSONAttrDict.backend_is_buffered
                             and signac.JSONDict is BufferedJSONAttrDict))


CONTRACTS += [JobDocGetter(), JobDocSetter(), BufferAliases(), ProjDocGetter(), ProjDocSetter(),
              DocAlias(f"{JOB}.Job", False), DocAlias(f"{JOB}.Job", True), DocAlias(f"{PRJ}.Project", False), DocAlias(f"{PRJ}.Project", True)]


# ============================================================================= Job.clear / Job.reset


class SJobListing(Sym):
    """os.listdir(job directory): the names of the present entries, each once"""

    def __init__(self, ex, fs, p, me):
        from pyvc.theory_j import EX_idx
        self.n = z3.Int(ex.fresh_name("n_entries"))
        self.name = z3.Function(ex.fresh_name("entry"), z3.IntSort(), Name)
        a, b = z3.Ints("ea eb")
        nm = z3.Const("e_nm", Name)
        k = JD.mk(p, me)
        ex.assume(self.n >= 0)
        ex.assume(z3.ForAll([a, b], z3.Implies(z3.And(0 <= a, a < b, b < self.n), self.name(a) != self.name(b))))
        ex.assume(z3.ForAll([nm], (fs.ent[k][nm] != Node.Absent) == EX_idx(0, self.n, lambda j: self.name(j) == nm)))

    def sym_iter(self, ex):
        from pyvc.core import CutSeq
        from pyvc.theory_fs import SName
        return CutSeq(self.n, lambda interp, i: SName(self.name(i)), label="os.listdir(self.path)")


def stub_job_document(interp, b):
    """callee view of the Job.document getter (clauses of JobDocGetter.post)"""
    from .jobfs import SDoc
    ex, ctx = interp.ex, interp.ctx
    job = b["self"]
    if job.fields["_document"] is None:
        p, me = job.fields["_project"].p, job.fields["_id"].e
        k = JD.mk(p, me)
        if not ex.decide(ctx.fs.dirs[k], "document:dir-exists"):
            ctx.fault(interp, "document-init")
            ctx.effect(interp, "document: init creates the job directory", ctx.fs.with_ws(p).with_dir(p, me, True, ctx.fs.ent[k]))
        job.fields["_document"] = SDoc(LIn(p, me, Name.DOC), True)
    return job.fields["_document"]


class ClearCtx(JobCtx):
    def x_listdir(self, interp, loc):
        ex = interp.ex
        if not isinstance(loc, LJob):
            raise Unsupported("listdir of this location")
        self.interfere(interp)
        if not ex.decide(self.fs.dirs[JD.mk(loc.p, loc.i)], "listdir:jobdir-exists"):
            raise self.enoent()
        self.fault(interp, "listdir")
        lst = SJobListing(ex, self.fs, loc.p, loc.i)
        self.ghost["listing"] = lst
        return lst


class JobClear(FSContract):
    target = f"{JOB}.Job.clear"
    properties = ("C03", "C05", "C10", "C11")
    ctx_class = ClearCtx
    inline = GETTERS + (f"{JOB}.Job.isfile",)
    shard_bits = 2

    def make_ctx(self, case):
        import os
        ctx = super().make_ctx(case)
        ctx.externals[os.listdir] = ctx.x_listdir
        ctx.callee_contracts[f"{JOB}.Job.document"] = stub_job_document
        return ctx

    def loops(self, case):
        from pyvc.interp import LoopSpec
        from pyvc.theory_j import EX_idx

        def inv(interp, fr, i, seq):
            ctx = interp.ctx
            g = ctx.ghost
            lst, pre = g["listing"], g["pre"]
            p, me = pre["p"], pre["me"]
            k = JD.mk(p, me)
            fs0, fs = ctx.fs0, ctx.fs
            nm = z3.Const("inv_nm", Name)
            processed = lambda x: EX_idx(0, i, lambda j: lst.name(j) == x)
            keep = lambda x: z3.Or(x == Name.SP, x == Name.DOC)
            return z3.And(jd_frame(fs0, fs, p, me), fs.dirs == fs0.dirs, fs.ws == fs0.ws,
                          z3.ForAll([nm], fs.ent[k][nm] == z3.If(z3.And(processed(nm), z3.Not(keep(nm))), Node.Absent, fs0.ent[k][nm])))

        def hv(interp, fr, tag):
            ctx = interp.ctx
            ctx.fs = FS.fresh(interp.ex.fresh_name("clr"))
        return {"os.listdir(self.path)": LoopSpec("entries", inv, havoc={"$fs": hv}, scratch=("fn", "path"))}

    def setup(self, interp, case):
        ex, ctx = interp.ex, interp.ctx
        ctx.fs_init(ex)
        proj = mk_project(ex)
        job = mk_job(interp, proj, "me")
        pre = {"job": job, "p": proj.p, "me": job.me}
        ctx.ghost["pre"] = pre
        return [job], {}, pre

    def crash_invariant(self, interp, ctx, label, fs):
        pre = ctx.ghost.get("pre")
        if pre:
            k = JD.mk(pre["p"], pre["me"])
            interp.ex.oblige(self.oname("crash:other_jobs_and_the_state_point_file_untouched"),
                             z3.And(jd_frame(ctx.fs0, fs, pre["p"], pre["me"]), fs.ent[k][Name.SP] == ctx.fs0.ent[k][Name.SP]))

    def post(self, interp, case, pre, outcome):
        ex, ctx = interp.ex, interp.ctx
        fs0, fs, p, me = ctx.fs0, ctx.fs, pre["p"], pre["me"]
        k = JD.mk(p, me)
        nm = z3.Const("po_nm", Name)
        ex.oblige(self.oname("frame:other_jobs_and_the_state_point_file_untouched"), z3.And(jd_frame(fs0, fs, p, me), fs.ent[k][Name.SP] == fs0.ent[k][Name.SP]))
        if outcome[0] == "return":
            ex.oblige(self.oname("ensures:uninitialised_job_is_left_alone"), z3.Implies(z3.Not(fs0.dirs[k]), fs.eq(fs0)))
            ex.oblige(self.oname("ensures:every_data_file_and_directory_is_gone"),
                      z3.Implies(fs0.dirs[k], z3.ForAll([nm], z3.Implies(z3.And(nm != Name.SP, nm != Name.DOC), fs.ent[k][nm] == Node.Absent))))
            ex.oblige(self.oname("ensures:job_directory_stays"), z3.Implies(fs0.dirs[k], fs.dirs[k]))
            ex.oblige(self.oname("ensures:document_is_cleared_not_removed"), z3.Implies(fs0.dirs[k], Node.is_File(fs.ent[k][Name.DOC])))
        else:
            ex.oblige(self.oname("raises:only_an_injected_OSError"), z3.BoolVal(isinstance(outcome[1], SymOSError)))


def stub_job_clear(interp, b):
    """callee view of Job.clear (clauses of JobClear.post)"""
    ex, ctx = interp.ex, interp.ctx
    job = b["self"]
    p, me = job.fields["_project"].p, job.fields["_id"].e
    k = JD.mk(p, me)
    fs = ctx.fs
    if not ex.decide(fs.dirs[k], "clear:dir-exists"):
        return None
    f1 = FS.fresh(ex.fresh_name("cleared"))
    nm = z3.Const("cl_nm", Name)
    ex.assume(z3.And(jd_frame(fs, f1, p, me), f1.dirs == fs.dirs, f1.ws == fs.ws, f1.ent[k][Name.SP] == fs.ent[k][Name.SP]))
    if ctx.faults and ex.decide(None, "fault:clear"):
        ctx.effect(interp, "Job.clear (failed part way)", f1)
        e = z3.Int(ex.fresh_name("errno"))
        ex.assume(z3.And(e != errno.ENOENT, e > 0))
        raise RaiseSignal(SymOSError(e))
    ex.assume(z3.And(z3.ForAll([nm], z3.Implies(z3.And(nm != Name.SP, nm != Name.DOC), f1.ent[k][nm] == Node.Absent)), Node.is_File(f1.ent[k][Name.DOC])))
    ctx.effect(interp, "Job.clear", f1)
    from .jobfs import SDoc
    if job.fields["_document"] is None:
        job.fields["_document"] = SDoc(LIn(p, me, Name.DOC), True)
    return None


class JobReset(FSContract):
    target = f"{JOB}.Job.reset"
    properties = ("C03", "C10", "C11")
    callees = {f"{JOB}.Job.clear": stub_job_clear, f"{JOB}.Job.init": stub_job_init}

    def setup(self, interp, case):
        ex, ctx = interp.ex, interp.ctx
        ctx.fs_init(ex)
        proj = mk_project(ex)
        job = mk_job(interp, proj, "me")
        pre = {"job": job, "p": proj.p, "me": job.me}
        ctx.ghost["pre"] = pre
        return [job], {}, pre

    def post(self, interp, case, pre, outcome):
        ex, ctx = interp.ex, interp.ctx
        fs0, fs, p, me = ctx.fs0, ctx.fs, pre["p"], pre["me"]
        k = JD.mk(p, me)
        nm = z3.Const("po_nm", Name)
        ex.oblige(self.oname("frame:other_jobs_untouched"), jd_frame(fs0, fs, p, me))
        if outcome[0] == "return":
            ex.oblige(self.oname("ensures:job_is_initialised_with_a_valid_state_point"), fs.valid(p, me))
            ex.oblige(self.oname("ensures:no_data_files_left"),
                      z3.Implies(fs0.dirs[k], z3.ForAll([nm], z3.Implies(z3.And(nm != Name.SP, nm != Name.DOC), fs.ent[k][nm] == Node.Absent))))


CONTRACTS += [JobClear(), JobReset()]


# ============================================================================= Job.cached_statepoint


class CachedStatepoint(FSContract):
    target = f"{JOB}.Job.cached_statepoint"
    properties = ("C01", "C02", "C08", "C09")
    faults = False

    def make_ctx(self, case):
        import types
        ctx = super().make_ctx(case)
        ctx.ghost["fetched"] = []

        def get_sp(interp, b):
            ctx.ghost["fetched"].append(b["job_id"])
            ctx.ghost["validate"] = b.get("validate")
            return SSP(z3.Const("sp_fetched", SPv))
        ctx.callee_contracts[f"{PRJ}.Project._get_statepoint"] = get_sp
        ctx.externals[types.MappingProxyType] = lambda interp, v: ("proxy", v)
        return ctx

    def setup(self, interp, case):
        ex, ctx = interp.ex, interp.ctx
        ctx.fs_init(ex)
        proj = mk_project(ex)
        job = mk_job(interp, proj, "me")
        return [job], {}, {"job": job, "cs0": job.fields["_cached_statepoint"]}

    def post(self, interp, case, pre, outcome):
        ex, ctx = interp.ex, interp.ctx
        if outcome[0] != "return":
            ex.oblige(self.oname("raises:nothing"), False, note=repr(outcome[1]))
            return
        r, cs0 = outcome[1], pre["cs0"]
        ok = isinstance(r, tuple) and r[0] == "proxy"
        ex.oblige(self.oname("ensures:returns_a_read_only_view"), z3.BoolVal(ok))
        if cs0 is not None:
            # whatever the value is (also an EMPTY state point): a known state point is returned as is, nothing is fetched
            ex.oblige(self.oname("ensures:a_known_state_point_is_returned_without_any_lookup"), z3.BoolVal(ok and r[1] is cs0 and ctx.ghost["fetched"] == []))
        else:
            ex.oblige(self.oname("ensures:an_unknown_state_point_is_looked_up_once_by_the_job_id_and_remembered"),
                      z3.BoolVal(ok and len(ctx.ghost["fetched"]) == 1 and pre["job"].fields["_cached_statepoint"] is r[1]))
            ex.oblige(self.oname("call[_get_statepoint]:the_lookup_validates_what_it_reads_against_the_job_id"), z3.BoolVal(ctx.ghost.get("validate") is True),
                      note=f"validate={ctx.ghost.get('validate')!r}")


CONTRACTS += [CachedStatepoint()]
