"""Sidecar contracts for the copy executors of signac/import_export.py (C16) and the `{auto}` formatter (C16, C17).

_CopyFromDirectoryExecutor.__call__, _CopyFromTarFileExecutor.__call__: the recorded source goes to the recorded job through
_copy_to_job_workspace (its own contract: copy first, then validate, occupied destination -> DestinationExistsError), with the
caller's copytree or shutil.copytree.
_CopyFromZipFileExecutor.__call__: for any number of member names, the only files written are job.fn(relpath(name, root)) for the
recorded names, each once, in order, with the bytes of that member, after its parent directory was created; the job path is returned.
Everything is tracked by identity of opaque tokens: the calls made are an event trace, compared with the trace the statement demands.
_AutoPathFormatter.format_field: a job is replaced by its automatic path with the format spec as separator, anything else is
formatted by string.Formatter."""
import os
import shutil
from string import Formatter

import z3

from pyvc.core import CutSeq, NativeStub, RaiseSignal, SInt, Sym, Unsupported
from pyvc.interp import LoopSpec, Obj
from pyvc.verify import Contract, Ctx

IE = "signac.import_export"


class Tok(Sym):
    def __init__(self, *what):
        self.what = what

    def __repr__(self):
        return "Tok" + repr(self.what)

    def sym_getattr(self, ex, name):
        if name in ("strip", "lstrip", "rstrip", "replace", "removeprefix", "removesuffix", "lower", "upper", "split", "rsplit", "partition", "rpartition", "format", "join"):
            # some other string derived from this one: not the value the statement asks for
            return NativeStub(lambda *a, **k: Tok(f"str.{name}-of", self, *a), f"str.{name}")
        raise Unsupported(f"attribute .{name} of an opaque string")

    def sym_binop(self, ex, op, other, reflected=False):
        if op == "Add":
            return Tok("concat", other, self) if reflected else Tok("concat", self, other)
        raise Unsupported(f"{op} on an opaque string")

    def sym_getitem(self, ex, k):
        return Tok("subscript-of", self, repr(k))

    def same(self, other):
        return isinstance(other, Tok) and len(self.what) == len(other.what) and all(
            (a.same(b) if isinstance(a, Tok) else (z3.eq(a, b) if z3.is_expr(a) and z3.is_expr(b) else a is b or (not z3.is_expr(a) and not z3.is_expr(b) and a == b)))
            for a, b in zip(self.what, other.what))


class SJob(Sym):
    def __init__(self, ev):
        self.ev = ev
        self.path = Tok("job.path")

    def sym_getattr(self, ex, name):
        if name == "path":
            return self.path
        if name == "fn":
            return NativeStub(lambda rel: Tok("job.fn", rel), "job.fn")
        raise Unsupported(f"job.{name}")


class SSelf(Sym):
    def __init__(self, **fields):
        self.fields = fields

    def sym_getattr(self, ex, name):
        if name in self.fields:
            return self.fields[name]
        raise Unsupported(f"self.{name}")


class ExecCtx(Ctx):
    def __init__(self, contract, case):
        super().__init__(contract, case)
        self.ghost["events"] = []
        ev = self.ghost["events"]
        self.externals[os.path.isdir] = lambda interp, p: (ev.append(("isdir", p)), case.get("isdir", True))[1]
        self.externals[os.path.relpath] = lambda interp, p, start=None: Tok("relpath", p, start)
        self.externals[os.path.dirname] = lambda interp, p: Tok("dirname", p)
        self.externals[os.path.basename] = lambda interp, p: Tok("basename", p)
        self.externals[os.path.join] = lambda interp, *p: Tok("join", *p)
        self.externals[os.path.normpath] = lambda interp, p: Tok("normpath", p)
        self.externals[os.path.abspath] = lambda interp, p: Tok("abspath", p)
        self.externals[open] = self.x_open

    def x_open(self, interp, fn, mode="r", *a, **k):
        ev = self.ghost["events"]
        ev.append(("open", fn, mode))
        return SFile(ev, fn)


class SFile(Sym):
    def __init__(self, ev, fn):
        self.ev, self.fn = ev, fn

    def sym_with(self, interp, inner):
        inner(self)
        self.ev.append(("close", self.fn))

    def sym_getattr(self, ex, name):
        if name == "write":
            return NativeStub(lambda data: self.ev.append(("write", self.fn, data)), "file.write")
        raise Unsupported(f"file.{name}")


def stub_copy_to_ws(interp, b):
    interp.ctx.ghost["events"].append(("copy_to_job_workspace", b["src"], b["job"], b["copytree"]))
    return Tok("copied")


def stub_mkdir_p(interp, b):
    interp.ctx.ghost["events"].append(("mkdir_p", b["path"]))


class CopyFromDirectory(Contract):
    target = f"{IE}._CopyFromDirectoryExecutor.__call__"
    properties = ("C16",)
    ctx_class = ExecCtx
    callees = {f"{IE}._copy_to_job_workspace": stub_copy_to_ws}

    def cases(self):
        return [{"copytree": "default"}, {"copytree": "given"}]

    def setup(self, interp, case):
        ev = interp.ctx.ghost["events"]
        src, job = Tok("src"), SJob(ev)
        ct = NativeStub(lambda *a: None, "caller's copytree") if case["copytree"] == "given" else None
        return [SSelf(src=src, job=job)] + ([ct] if ct else []), {}, {"src": src, "job": job, "ct": ct}

    def post(self, interp, case, pre, outcome):
        ex, ev = interp.ex, interp.ctx.ghost["events"]
        want_ct = pre["ct"] if pre["ct"] is not None else shutil.copytree
        ok = outcome[0] == "return" and isinstance(outcome[1], Tok) and outcome[1].what == ("copied",) and len(ev) == 1 and ev[0][0] == "copy_to_job_workspace" \
            and ev[0][1] is pre["src"] and ev[0][2] is pre["job"] and ev[0][3] is want_ct
        ex.oblige(self.oname("ensures:the_recorded_source_is_copied_into_the_recorded_job_with_the_caller's_copytree_or_shutil.copytree,_nothing_else_happens"),
                  z3.BoolVal(bool(ok)), note=repr((outcome, ev))[:300])


class CopyFromTarFile(Contract):
    target = f"{IE}._CopyFromTarFileExecutor.__call__"
    properties = ("C16",)
    ctx_class = ExecCtx
    callees = {f"{IE}._copy_to_job_workspace": stub_copy_to_ws}

    def cases(self):
        return [{"copytree": "default", "isdir": True}, {"copytree": "default", "isdir": False}, {"copytree": "given", "isdir": True}]

    def setup(self, interp, case):
        ev = interp.ctx.ghost["events"]
        src, job = Tok("src"), SJob(ev)
        ct = NativeStub(lambda *a: None, "caller's copytree") if case["copytree"] == "given" else None
        return [SSelf(src=src, job=job)] + ([ct] if ct else []), {}, {"src": src, "job": job, "ct": ct}

    def post(self, interp, case, pre, outcome):
        ex, ev = interp.ex, interp.ctx.ghost["events"]
        copies = [e for e in ev if e[0] == "copy_to_job_workspace"]
        if case["copytree"] == "given" or not case["isdir"]:
            ex.oblige(self.oname("raises:AssertionError_and_nothing_is_copied_when_a_copytree_is_passed_or_the_extracted_source_is_no_directory"),
                      z3.BoolVal(outcome[0] == "raise" and isinstance(outcome[1], AssertionError) and not copies), note=repr((outcome, ev))[:300])
            return
        ok = outcome[0] == "return" and isinstance(outcome[1], Tok) and outcome[1].what == ("copied",) and len(copies) == 1 \
            and copies[0][1] is pre["src"] and copies[0][2] is pre["job"] and copies[0][3] is shutil.copytree \
            and all(e[0] in ("isdir", "copy_to_job_workspace") for e in ev)
        ex.oblige(self.oname("ensures:the_extracted_directory_is_copied_into_the_recorded_job_with_shutil.copytree,_nothing_else_happens"),
                  z3.BoolVal(bool(ok)), note=repr((outcome, ev))[:300])


NN = z3.Int("ex_n_names")


class SNames(Sym):
    def sym_iter(self, ex):
        def at(interp, i):
            interp.ctx.ghost["I"] = i
            interp.ctx.ghost["body_from"] = len(interp.ctx.ghost["events"])
            return Tok("name", i)
        return CutSeq(NN, at, label="names")

    def sym_len(self, ex):
        return SInt(NN)


class SZip(Sym):
    def sym_getattr(self, ex, name):
        if name == "read":
            return NativeStub(lambda n: Tok("zip.read", n), "zipfile.read")
        raise Unsupported(f"zipfile.{name}")


class CopyFromZipFile(Contract):
    target = f"{IE}._CopyFromZipFileExecutor.__call__"
    properties = ("C16",)
    ctx_class = ExecCtx
    callees = {"signac._utility._mkdir_p": stub_mkdir_p}

    def cases(self):
        return [{"copytree": "default"}, {"copytree": "given"}]

    def loops(self, case):
        def body(interp, fr, writes):
            g = interp.ctx.ghost
            ev = g["events"][g["body_from"]:]
            i = g["I"]
            name = Tok("name", i)
            dst = Tok("job.fn", Tok("relpath", name, g["root"]))
            want = [("mkdir_p", Tok("dirname", dst)), ("open", dst, "wb"), ("write", dst, Tok("zip.read", name)), ("close", dst)]
            ok = len(ev) == len(want) and all(a[0] == b[0] and all((x.same(y) if isinstance(x, Tok) else x == y) for x, y in zip(a[1:], b[1:])) and len(a) == len(b) for a, b in zip(ev, want))
            interp.ex.oblige(self.oname("body:each_member_is_written_once_to_job.fn(relpath(name,_root))_after_its_parent_directory_was_created,_with_the_member's_bytes,_and_nothing_else_is_touched"),
                             z3.BoolVal(bool(ok)), note=repr(ev)[:300])
        return {"names": LoopSpec("members", lambda interp, fr, i, seq: z3.BoolVal(True), scratch=("name", "fn_dst", "dst"), heap_frame=body)}

    def setup(self, interp, case):
        g = interp.ctx.ghost
        interp.ex.assume(NN >= 0)
        job = SJob(g["events"])
        g["root"] = Tok("root")
        ct = NativeStub(lambda *a: None, "caller's copytree") if case["copytree"] == "given" else None
        return [SSelf(zipfile=SZip(), root=g["root"], job=job, names=SNames())] + ([ct] if ct else []), {}, {"job": job}

    def post(self, interp, case, pre, outcome):
        ex, ev = interp.ex, interp.ctx.ghost["events"]
        if case["copytree"] == "given":
            ex.oblige(self.oname("raises:AssertionError_before_anything_is_written_when_a_copytree_is_passed"),
                      z3.BoolVal(outcome[0] == "raise" and isinstance(outcome[1], AssertionError) and not ev), note=repr((outcome, ev))[:200])
            return
        ex.oblige(self.oname("ensures:the_job_directory_is_returned_and_nothing_is_written_outside_the_member_loop"),
                  z3.BoolVal(outcome[0] == "return" and outcome[1] is pre["job"].path and not ev), note=repr((outcome, ev))[:200])


class AutoPathFormatField(Contract):
    target = f"{IE}._AutoPathFormatter.format_field"
    properties = ("C16", "C17")

    def cases(self):
        return [{"value": "job", "spec": ""}, {"value": "job", "spec": "_"}, {"value": "text", "spec": ""}, {"value": "number", "spec": "03d"}]

    def make_ctx(self, case):
        ctx = super().make_ctx(case)
        ctx.ghost["events"] = []

        def dep_call(interp, o, name, args, kw, via_super=False):
            # string.Formatter.format_field (the dependency base class): format(value, format_spec)
            if name == "format_field" and via_super and len(args) == 2 and not kw and not any(isinstance(a, Sym) for a in args):
                return Formatter().format_field(*args)
            raise Unsupported(f"dependency method {name}")
        ctx.dep_call = dep_call
        return ctx

    def setup(self, interp, case):
        from signac.job import Job
        g = interp.ctx.ghost

        class SJobV(Sym):
            def sym_isinstance(self, ex, cls):
                return cls in (Job, object)

        def paths(job, sep=None):
            g["events"].append(("paths", job, sep))
            return Tok("auto-path")
        value = {"job": SJobV(), "text": "abc", "number": 7}[case["value"]]
        rp = interp.repo
        rp.load(IE)
        me = Obj(rp.classes[f"{IE}._AutoPathFormatter"])
        me.fields["paths"] = NativeStub(paths, "automatic path function")
        return [me, value, case["spec"]], {}, {"value": value}

    def post(self, interp, case, pre, outcome):
        ex, ev = interp.ex, interp.ctx.ghost["events"]
        if case["value"] == "job":
            ok = outcome[0] == "return" and isinstance(outcome[1], Tok) and outcome[1].what == ("auto-path",) and len(ev) == 1 and ev[0][1] is pre["value"] and ev[0][2] == case["spec"]
            ex.oblige(self.oname("ensures:a_job_is_replaced_by_its_automatic_path_with_the_format_spec_as_separator"), z3.BoolVal(bool(ok)), note=repr((outcome, ev))[:200])
        else:
            ok = outcome[0] == "return" and outcome[1] == format(pre["value"], case["spec"]) and not ev
            ex.oblige(self.oname("ensures:any_other_value_is_formatted_as_string.Formatter_does"), z3.BoolVal(bool(ok)), note=repr((outcome, ev))[:200])


CONTRACTS = [CopyFromDirectory(), CopyFromTarFile(), CopyFromZipFile(), AutoPathFormatField()]
