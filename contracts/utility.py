"""Sidecar contracts for the flatten / unflatten helpers of signac/_utility.py (C16, C18): _nested_dicts_to_dotted_keys and
_dotted_dict_to_nested_dicts.

Both are executed on a fixed family of concrete mappings (the interpreter runs the real function bodies); the result is compared with
a reference written from the statement: flatten lists every leaf once under the dotted spelling of its path (an empty mapping is a
leaf, a list becomes a tuple-like hashable), unflatten rebuilds the nested mapping, and unflatten(flatten(d)) == d for mappings without
lists.  This is a finite check by concrete execution, stated as such: the family is what is covered."""
import z3

from pyvc.verify import Contract

UT = "signac._utility"

FAMILY = [
    {},
    {"a": 1},
    {"a": {"b": 1}},
    {"a": {"b": 1, "c": 2}},
    {"a": {"b": {"c": 1, "d": 2}, "e": 3}, "f": 4},
    {"m": {"n": {"p": 1, "q": 2, "r": {"s": 0, "t": 1}}}, "z": None},
    {"a": {}, "b": {"c": {}}},
    {"": {"a": 1}, "a": 2},
    {"a": {"": 1}},
    {"sp": {"a": 1, "b": {"c": True}}, "doc": {"a": 1.0}},
    # lists, also as operator arguments of a filter (the index stores list values in hashable form, so a filter has to ask for them that way)
    {"a": [1, [2, 3]], "b": {"c": [1, 2]}},
    {"a": {"$in": [[1, 2], 5]}, "b": {"$eq": [1, 2]}, "sp": {"c": {"$ne": [3]}}},
]


def ref_flatten(d, key=None):
    out = []
    if isinstance(d, dict):
        if d:
            for k in d:
                out += ref_flatten(d[k], k if key is None else key + "." + k)
        elif key is not None:
            out.append((key, d))
    else:
        out.append((key, d))
    return out


def ref_unflatten(flat, delim="."):
    out = {}
    for key, value in flat.items():
        cur = out
        toks = key.split(delim)
        for t in toks[:-1]:
            cur = cur.setdefault(t, {})
        cur[toks[-1]] = value
    return out


def plain(v):
    if isinstance(v, (list, tuple)):
        return [plain(x) for x in v]
    if isinstance(v, dict):
        return {k: plain(x) for k, x in v.items()}
    return v


class NestedToDotted(Contract):
    target = f"{UT}._nested_dicts_to_dotted_keys"
    properties = ("C06", "C16", "C18")
    inline = (f"{UT}._to_hashable",)

    def cases(self):
        return [{"d": i} for i in range(len(FAMILY))]

    def setup(self, interp, case):
        import copy
        d = copy.deepcopy(FAMILY[case["d"]])
        interp.ctx.ghost["yielded"] = []
        return [d], {}, {"d": FAMILY[case["d"]]}

    def yield_hook(self, interp, case, pre):
        return lambda x: interp.ctx.ghost["yielded"].append(x)

    def post(self, interp, case, pre, outcome):
        ex = interp.ex
        got = [(k, plain(v)) for k, v in interp.ctx.ghost["yielded"]]
        want = [(k, plain(v)) for k, v in ref_flatten(pre["d"])]
        ex.oblige(self.oname("ensures:every_leaf_is_listed_once_under_the_dotted_spelling_of_its_path_(empty_mappings_are_leaves)"),
                  z3.BoolVal(outcome[0] == "return" and got == want), note=repr((got, want))[:300])

        def hashable(v):
            try:
                hash(v)
                return True
            except TypeError:
                return False
        bad = [(k, v) for k, v in interp.ctx.ghost["yielded"] if not hashable(v) and v != {}]
        ex.oblige(self.oname("ensures:every_list_is_reported_in_hashable_form_whatever_the_key_it_sits_under_(operator_arguments_included)"), z3.BoolVal(not bad), note=repr(bad)[:200])


class DottedToNested(Contract):
    target = f"{UT}._dotted_dict_to_nested_dicts"
    properties = ("C16", "C18")

    def cases(self):
        return [{"d": i, "delim": dl} for i in range(len(FAMILY)) for dl in (".", "__DOT__") if not any(isinstance(v, list) for _, v in ref_flatten(FAMILY[i]))][:20]

    def setup(self, interp, case):
        flat = {k.replace(".", case["delim"]): v for k, v in ref_flatten(FAMILY[case["d"]])}
        kw = {} if case["delim"] == "." else {"delimiter_nested": case["delim"]}
        return [dict(flat)], kw, {"flat": flat}

    def post(self, interp, case, pre, outcome):
        ex = interp.ex
        want = ref_unflatten(pre["flat"], case["delim"])
        got = plain(outcome[1]) if outcome[0] == "return" else None
        ex.oblige(self.oname("ensures:the_nested_mapping_holds_every_dotted_key_at_its_path_(keys_sharing_a_prefix_share_the_sub-mappings)"),
                  z3.BoolVal(outcome[0] == "return" and got == plain(want)), note=repr((got, want))[:300])


CONTRACTS = [NestedToDotted(), DottedToNested()]
