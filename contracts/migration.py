"""Sidecar contracts for signac/migration (C20): chain selection, version bump only after a successful step, v1->v2 effects in order."""
import os

import z3

from pyvc.core import NativeStub, OpaqueStr, RaiseSignal, SBool, SInt, Sym, Unsupported
from pyvc.verify import Contract, Ctx

MG = "signac.migration"
V12 = "signac.migration.v1_to_v2"


class SCfg(Sym):
    """a ConfigObj: mapping with get / del / setitem / write, recorded in the effect log"""

    def __init__(self, g, values, tag="cfg"):
        self.g, self.values, self.tag = g, dict(values), tag

    def sym_getattr(self, ex, name):
        if name == "get":
            return NativeStub(lambda k, d=None: self.values.get(k, d), "cfg.get")
        if name == "write":
            return NativeStub(lambda: self.g["fx"].append(("cfg.write", self.tag, dict(self.values))), "cfg.write")
        raise Unsupported(f"config.{name}")

    def sym_getitem(self, ex, k):
        if k not in self.values:
            raise RaiseSignal(KeyError(k))
        return self.values[k]

    def sym_setitem(self, ex, k, v):
        self.values[k] = v

    def sym_delitem(self, ex, k):
        if k not in self.values:
            raise RaiseSignal(KeyError(k))
        del self.values[k]


class MigCtx(Ctx):
    def __init__(self, contract, case):
        super().__init__(contract, case)
        g = self.ghost
        g["fx"] = []
        g["exists"] = set()
        self.externals[os.path.join] = lambda interp, *parts: "/".join(str(p) for p in parts)
        self.externals[os.path.exists] = lambda interp, p: p in g["exists"]
        self.externals[os.path.isfile] = lambda interp, p: p in g["exists"]
        self.externals[os.replace] = lambda interp, a, b: g["fx"].append(("os.replace", a, b))
        self.externals[os.mkdir] = lambda interp, p: g["fx"].append(("os.mkdir", p))
        self.externals[os.path.dirname] = lambda interp, p: p.rsplit("/", 1)[0]
        self.externals[os.path.abspath] = lambda interp, p: p
        self.externals[os.unlink] = self.x_unlink
        self.externals[open] = self.x_open

    def x_open(self, interp, p, mode="r", *a, **k):
        """builtin open: a read of a file that does not exist raises FileNotFoundError; opening for writing is an effect (the file is
        created / truncated in place -- no temporary file, no os.replace)"""
        g = self.ghost
        if any(c in mode for c in "wax+"):
            g["fx"].append(("open-for-writing-in-place", p, mode))
            return SFileW(g, p)
        if p not in g["exists"]:
            raise RaiseSignal(FileNotFoundError(2, "No such file or directory", p))
        raise Unsupported("reading a file in the migration")

    def x_unlink(self, interp, p):
        self.ghost["fx"].append(("os.unlink", p))

    def native_override(self, interp, f, args, kw):
        from synced_collections.backends.collection_json import BufferedJSONAttrDict
        if f is BufferedJSONAttrDict:
            self.ghost["fx"].append(("doc.open", kw.get("filename"), kw.get("write_concern")))
            return SDocW(self.ghost)
        return NotImplemented


class SFileW(Sym):
    def __init__(self, g, p):
        self.g, self.p = g, p

    def sym_with(self, interp, body):
        return body(self)

    def sym_getattr(self, ex, name):
        if name == "write":
            return NativeStub(lambda data: self.g["fx"].append(("file.write", self.p)), "file.write")
        if name == "close":
            return NativeStub(lambda: None, "file.close")
        raise Unsupported(f"file.{name}")


class SDocW(Sym):
    def __init__(self, g):
        self.g = g

    def sym_setitem(self, ex, k, v):
        self.g["fx"].append(("doc.set", k, v))


class MigrateV1V2(Contract):
    target = f"{V12}._migrate_v1_to_v2"
    properties = ("C10", "C20")
    ctx_class = MigCtx
    inline = ("signac._config._get_project_config_fn",)

    def cases(self):
        out = []
        for ws in (None, "workspace", "custom", "nested/ws"):
            for name in ("None", "my project"):
                for collide in (False, True):
                    for extra in (False, True):
                        if collide and ws in (None, "workspace"):
                            continue
                        out.append({"workspace_dir": ws, "project": name, "collide": collide, "old_files": extra})
        return out

    def setup(self, interp, case):
        g = interp.ctx.ghost
        vals = {"project": case["project"], "schema_version": "1"}
        if case["workspace_dir"] is not None:
            vals["workspace_dir"] = case["workspace_dir"]
        cfg = SCfg(g, vals)
        g["cfg"] = cfg
        if case["collide"]:
            g["exists"].add("ROOT/workspace")
        if case["old_files"]:
            g["exists"] |= {"ROOT/.signac_shell_history", "ROOT/.signac_sp_cache.json.gz"}
        interp.ctx.callee_contracts["signac.migration.v0_to_v1._load_config_v1"] = lambda interp_, b: cfg
        return ["ROOT"], {}, {}

    def post(self, interp, case, pre, outcome):
        ex, g = interp.ex, interp.ctx.ghost
        fx = g["fx"]
        if case["collide"]:
            ex.oblige(self.oname("raises:refuses_before_any_effect_when_'workspace'_already_exists"),
                      z3.BoolVal(outcome[0] == "raise" and isinstance(outcome[1], RuntimeError) and fx == []), note=str(fx)[:200])
            return
        if outcome[0] == "raise":
            ex.oblige(self.oname("raises:nothing_for_a_migratable_project"), False, note=repr(outcome[1]))
            return
        want = []
        ws = case["workspace_dir"]
        if ws not in (None, "workspace"):
            want.append(("os.replace", f"ROOT/{ws}", "ROOT/workspace"))         # the whole workspace moves in one rename: same ids, state points, documents, files
        if case["project"] != "None":
            want.append(("doc.open", "ROOT/signac_project_document.json", True))
            want.append(("doc.set", "signac_project_name", case["project"]))
        want.append(("cfg.write", "cfg", {"schema_version": "1"}))
        want.append(("os.mkdir", "ROOT/.signac"))
        want.append(("os.replace", "ROOT/signac.rc", "ROOT/.signac/config"))
        if case["old_files"]:
            want.append(("os.replace", "ROOT/.signac_shell_history", "ROOT/.signac/shell_history"))
            want.append(("os.replace", "ROOT/.signac_sp_cache.json.gz", "ROOT/.signac/statepoint_cache.json.gz"))
        ex.oblige(self.oname("ensures:exactly_the_documented_effects_in_order_(workspace_moved_whole,name_kept,config_and_caches_moved)"),
                  z3.BoolVal(fx == want), note=f"got {fx}"[:400])


class CollectMigrations(Contract):
    target = f"{MG}._collect_migrations"
    properties = ("C20",)
    ctx_class = MigCtx

    def cases(self):
        return [{"version": v} for v in (0, 1, 2)] + [{"version": "newer"}]

    def setup(self, interp, case):
        g = interp.ctx.ghost
        g["ver"] = case["version"] if case["version"] != "newer" else SInt(z3.Int("disk_version"))
        if case["version"] == "newer":
            interp.ex.assume(z3.Int("disk_version") > 2)
        g["yielded"] = []
        interp.ctx.callee_contracts[f"{MG}._get_config_schema_version"] = lambda interp_, b: g["ver"]
        return ["ROOT"], {}, {}

    def yield_hook(self, interp, case, pre):
        def hook(v):
            g = interp.ctx.ghost
            g["yielded"].append(v[0])
            g["ver"] = v[0][1]        # the consumer applies the step and writes the new version before asking for the next one
        return hook

    def post(self, interp, case, pre, outcome):
        ex, g = interp.ex, interp.ctx.ghost
        ys = g["yielded"]
        if case["version"] == "newer":
            ex.oblige(self.oname("raises:a_newer_schema_is_refused_without_any_migration"), z3.BoolVal(outcome[0] == "raise" and isinstance(outcome[1], RuntimeError) and ys == []))
            return
        want = {0: [(0, 1), (1, 2)], 1: [(1, 2)], 2: []}[case["version"]]
        ex.oblige(self.oname("ensures:migrations_form_the_chain_to_the_supported_version_(none_if_up_to_date)"), z3.BoolVal(outcome[0] == "return" and ys == want), note=str(ys))


class ApplyMigrations(Contract):
    target = f"{MG}.apply_migrations"
    properties = ("C20",)
    ctx_class = MigCtx
    inline = ("signac._utility._print_err",)

    def cases(self):
        return [{"steps": s, "fail_at": f} for s in (0, 1, 2) for f in (None, 0, 1) if f is None or f < s]

    def make_ctx(self, case):
        ctx = super().make_ctx(case)
        g = ctx.ghost

        class Lock(Sym):
            def sym_with(self, interp, body):
                g["fx"].append(("lock.acquire",))
                try:
                    body(self)
                finally:
                    g["fx"].append(("lock.release",))

            def sym_getattr(self, ex, name):
                if name == "lock_file":
                    return "ROOT/.SIGNAC_PROJECT_MIGRATION_LOCK"
                raise Unsupported(name)
        import filelock
        ctx.externals[filelock.FileLock] = lambda interp, p: Lock()
        return ctx

    def setup(self, interp, case):
        ex, g = interp.ex, interp.ctx.ghost
        chain = [((0, 1), 0), ((1, 2), 1)][2 - case["steps"]:] if case["steps"] else []

        def mk(i, key):
            def migrate(root):
                g["fx"].append(("migrate", key))
                if case["fail_at"] == i:
                    raise RaiseSignal(OSError("step failed"))
            return NativeStub(migrate, f"migrate{key}")
        migs = [(key, mk(i, key)) for i, (key, _) in enumerate(chain)]
        g["chain"] = [k for k, _ in migs]
        interp.ctx.callee_contracts[f"{MG}._collect_migrations"] = lambda interp_, b: migs
        for nm in ("signac.migration.v0_to_v1._load_config_v1", "signac.migration.v1_to_v2._load_config_v2"):
            interp.ctx.callee_contracts[nm] = (lambda nm: (lambda interp_, b: SCfg(g, {"schema_version": "?"}, tag=nm.rsplit("_", 1)[1])))(nm)
        return ["ROOT"], {}, {}

    def post(self, interp, case, pre, outcome):
        ex, g = interp.ex, interp.ctx.ghost
        fx = g["fx"]
        want = [("lock.acquire",)]
        failed = False
        for i, key in enumerate(g["chain"]):
            want.append(("migrate", key))
            if case["fail_at"] == i:
                failed = True
                break
            want.append(("cfg.write", f"v{key[1]}", {"schema_version": key[1]}))     # version written only after the step succeeded, with the loader of the NEW layout
        want += [("lock.release",), ("os.unlink", "ROOT/.SIGNAC_PROJECT_MIGRATION_LOCK")]
        ex.oblige(self.oname("ensures:each_step_under_the_lock_then_its_version_bump_lock_file_removed_always"), z3.BoolVal(fx == want), note=f"got {fx}"[:400])
        if failed:
            ex.oblige(self.oname("raises:a_failed_step_surfaces_as_RuntimeError_and_stops_the_chain"), z3.BoolVal(outcome[0] == "raise" and isinstance(outcome[1], RuntimeError)))
        else:
            ex.oblige(self.oname("ensures:returns_normally"), z3.BoolVal(outcome[0] == "return"), note=repr(outcome[1]))


CONTRACTS = [MigrateV1V2(), CollectMigrations(), ApplyMigrations()]
