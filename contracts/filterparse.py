"""Sidecar contracts for signac/filterparse.py: _add_prefix and _root_keys, per filter entry (C06, C07).

A filter mapping is processed entry by entry with no state carried between entries, so the per-entry contract below (one
arbitrary entry: symbolic key string, abstract value) gives the whole-mapping statement by the pointwise-map rule; the
recursive calls on sub-filters are replaced by the contract itself (structural induction)."""
import z3

from pyvc.core import NativeStub, RaiseSignal, SBool, Sym, Unsupported
from pyvc.theory_str import SStr, lit
from pyvc.verify import Contract, Ctx

FP = "signac.filterparse"

FltT = z3.DeclareSort("FltT")            # an abstract (sub-)filter
PREFIXED = z3.Function("PREFIXED", FltT, FltT)           # the contract result of _add_prefix on a sub-filter
HASROOT = z3.Function("HASROOT", FltT, z3.StringSort(), z3.BoolSort())   # r is among the root keys _root_keys must report for the sub-filter


def has_ns(k):
    """the key already names a namespace: 'sp', 'doc', 'sp.<...>' or 'doc.<...>'   (from the documented grammar)"""
    return z3.Or(k == lit("sp"), k == lit("doc"), z3.PrefixOf(lit("sp."), k), z3.PrefixOf(lit("doc."), k))


def root_of(k):
    """namespace / first component of a (prefixed) key"""
    i = z3.IndexOf(k, lit("."), 0)
    return z3.If(i >= 0, z3.SubString(k, 0, i), k)


class SSub(Sym):
    """an abstract sub-filter (element of a $and/$or list, or the $not argument)"""

    def __init__(self, e):
        self.e = e

    def sym_isinstance(self, ex, cls):
        return cls in (dict, object)

    def sym_yield_from(self, interp):
        # iterating a mapping yields its raw keys ('doc.a', 'sp.b.$lt', ...), which are not root keys
        return [("raw-keys-of", self.e)]


class SGenOf(Sym):
    """result of the recursive call on a sub-filter (a generator): only dict(...) / iteration by contract"""

    def __init__(self, sub, kind):
        self.sub, self.kind = sub, kind

    def sym_iter(self, ex):
        if self.kind == "roots":
            # an arbitrary element of the recursive result: a root key r with HASROOT(sub, r); together with the
            # completeness obligation in post this gives set equality
            raise Unsupported("direct iteration over recursive root keys (use yield from)")
        raise Unsupported("iteration over a recursive _add_prefix result")


class SVal(Sym):
    """an abstract leaf value (not a list / tuple / mapping of sub-filters)"""

    def sym_isinstance(self, ex, cls):
        return cls is object


class FPCtx(Ctx):
    def dictify(self, interp, v):
        if isinstance(v, SGenOf) and v.kind == "prefixed":
            return SSub(PREFIXED(v.sub))
        raise Unsupported("dict() of this value")


class AddPrefixEntry(Contract):
    prefer_cvc5 = True
    target = f"{FP}._add_prefix"
    properties = ("C06", "C07")
    ctx_class = FPCtx
    assumptions = ("per-entry contract lifted to whole mappings by the pointwise-map rule (no state carried between entries; Lean: pointwise_map in /verif/lean/Meta.lean, re-checked in the thorough tier)",
                   "z3 string theory for `in`, split('.', 1)[0], startswith, concatenation")

    def cases(self):
        return [{"kind": "leaf"}, {"kind": "$and"}, {"kind": "$or"}, {"kind": "$not"}, {"kind": "$and-bad"}]

    def setup(self, interp, case):
        ex, g = interp.ex, interp.ctx.ghost
        if case["kind"] == "leaf":
            k = z3.String("key")
            ex.assume(z3.And(k != lit("$and"), k != lit("$or"), k != lit("$not")))
            key, val = SStr(k), SVal()
            g.update({"k": k, "val": val})
        elif case["kind"] in ("$and", "$or"):
            a, b = z3.Const("sub_a", FltT), z3.Const("sub_b", FltT)
            key, val = case["kind"], [SSub(a), SSub(b)]
            g.update({"subs": [a, b]})
        elif case["kind"] == "$not":
            a = z3.Const("sub_a", FltT)
            key, val = "$not", SSub(a)
            g.update({"subs": [a]})
        else:
            key, val = "$and", SVal()
        g["yielded"] = []

        def rec(interp_, b):
            f = b["filter"]
            if not isinstance(f, SSub):
                raise Unsupported("recursive _add_prefix on something that is not a sub-filter")
            return SGenOf(f.e, "prefixed")
        interp.ctx.callee_contracts[self.target] = rec
        interp.ctx.ghost["entered"] = False
        return [{key: val}], {}, {"key": key, "val": val}

    def make_ctx(self, case):
        ctx = Contract.make_ctx(self, case)
        orig = ctx.policy

        def policy(qual):
            if qual == self.target:
                return "contract", ctx.callee_contracts[self.target]
            return orig(qual)
        ctx.policy = policy
        return ctx

    def yield_hook(self, interp, case, pre):
        return lambda v: interp.ctx.ghost["yielded"].append(v)

    def post(self, interp, case, pre, outcome):
        ex, g = interp.ex, interp.ctx.ghost
        ys = g["yielded"]
        if case["kind"] == "$and-bad":
            ex.oblige(self.oname("raises:ValueError_for_a_non_list_argument_of_a_logical_operator"), z3.BoolVal(outcome[0] == "raise" and isinstance(outcome[1], ValueError)))
            return
        if outcome[0] == "raise":
            ex.oblige(self.oname("raises:nothing_for_a_well_formed_entry"), False, note=repr(outcome[1]))
            return
        ok_shape = len(ys) == 1 and isinstance(ys[0], tuple) and len(ys[0]) == 2
        ex.oblige(self.oname("ensures:exactly_one_entry_per_entry"), z3.BoolVal(ok_shape))
        if not ok_shape:
            return
        yk, yv = ys[0]
        if case["kind"] == "leaf":
            k = g["k"]
            want = z3.If(has_ns(k), k, z3.Concat(lit("sp."), k))
            ye = SStr.of(yk)
            ex.oblige(self.oname("ensures:key_gets_the_default_sp_prefix_iff_it_names_no_namespace"), ye == want if ye is not None else z3.BoolVal(False))
            ex.oblige(self.oname("ensures:value_is_passed_through_unchanged"), z3.BoolVal(yv is g["val"]))
        else:
            ex.oblige(self.oname("ensures:logical_operators_are_not_prefixed"), z3.BoolVal(yk == case["kind"]))
            subs = g["subs"]
            if case["kind"] == "$not":
                ex.oblige(self.oname("ensures:the_operand_of_$not_is_prefixed"), yv.e == PREFIXED(subs[0]) if isinstance(yv, SSub) else z3.BoolVal(False))
            else:
                ok = isinstance(yv, list) and len(yv) == len(subs) and all(isinstance(x, SSub) for x in yv)
                ex.oblige(self.oname("ensures:every_operand_of_$and/$or_is_prefixed_in_order"),
                          z3.And(*[x.e == PREFIXED(s) for x, s in zip(yv, subs)]) if ok else z3.BoolVal(False))


def _leaf_witness(fn_name):
    def witness(self, case, model, ob):
        """solver counter-model -> concrete filter key, replayed on the real function"""
        if case.get("kind") != "leaf":
            return None
        k = model.eval(z3.String("key"), model_completion=True).as_string()
        return {"input": {"key": k}, "script": f"""
import sys, os
sys.path.insert(0, os.environ.get('PYVC_REPO', '/repo'))
from signac.filterparse import _add_prefix, _root_keys
k = {k!r}
has_ns = k in ('sp', 'doc') or k.startswith('sp.') or k.startswith('doc.')
if {fn_name!r} == '_add_prefix':
    got = dict(_add_prefix({{k: 1}}))
    want = {{(k if has_ns else 'sp.' + k): 1}}
else:
    got = list(_root_keys({{k: 1}}))
    want = [k.split('.', 1)[0]]
assert got == want, (k, got, want)
"""}
    return witness


AddPrefixEntry.witness = _leaf_witness("_add_prefix")


class RootKeysEntry(Contract):
    prefer_cvc5 = True
    """_root_keys per entry: the namespaces a (prefixed) filter refers to -- decides whether documents are indexed at all"""
    target = f"{FP}._root_keys"
    properties = ("C06", "C07")
    ctx_class = FPCtx
    assumptions = AddPrefixEntry.assumptions

    def cases(self):
        return [{"kind": "leaf"}, {"kind": "$and"}, {"kind": "$or"}, {"kind": "$not"}]

    def setup(self, interp, case):
        ex, g = interp.ex, interp.ctx.ghost
        if case["kind"] == "leaf":
            k = z3.String("key")
            ex.assume(z3.And(k != lit("$and"), k != lit("$or"), k != lit("$not")))
            key, val = SStr(k), SVal()
            g["k"] = k
        elif case["kind"] in ("$and", "$or"):
            a, b = z3.Const("sub_a", FltT), z3.Const("sub_b", FltT)
            key, val = case["kind"], [SSub(a), SSub(b)]
            g["subs"] = [a, b]
        else:
            a = z3.Const("sub_a", FltT)
            key, val = "$not", SSub(a)
            g["subs"] = [a]
        g["yielded"] = []
        g["recursed"] = []
        g["covered"] = []

        def rec(interp_, b):
            f = b["filter"]
            if not isinstance(f, SSub):
                raise Unsupported("recursive _root_keys on something that is not a sub-filter")
            g["recursed"].append(f.e)
            return RootsOf(f.e, g)
        interp.ctx.callee_contracts[self.target] = rec
        return [{key: val}], {}, {}

    make_ctx = AddPrefixEntry.make_ctx

    def loops(self, case):
        from pyvc.interp import LoopSpec
        # `for key in _root_keys(sub): yield key` must re-yield every root key of the operand: checked for an arbitrary element
        # in body mode; after the loop the operand counts as covered
        inv = lambda interp, fr, i, seq: z3.BoolVal(True)

        def body_done(interp, fr, writes):
            g = interp.ctx.ghost
            ys = g["yielded"]
            cur = g["cur_roots"]
            ok = len(ys) >= 1 and isinstance(ys[-1], RootElem) and z3.eq(ys[-1].sub, cur) and len([y for y in ys if isinstance(y, RootElem)]) == 1
            interp.ex.oblige(self.oname("loop:re-yields_each_root_key_of_the_operand_exactly_once"), z3.BoolVal(ok))

        def after(interp, fr, seq):
            g = interp.ctx.ghost
            g["covered"].append(g["cur_roots"])
        spec = lambda: LoopSpec("re-yield", inv, havoc={}, scratch=("key",), heap_frame=body_done, after=after)
        return {"_root_keys(item)": spec(), "_root_keys(value)": spec()}

    def yield_hook(self, interp, case, pre):
        return lambda v: interp.ctx.ghost["yielded"].append(v)

    def post(self, interp, case, pre, outcome):
        ex, g = interp.ex, interp.ctx.ghost
        if outcome[0] == "raise":
            ex.oblige(self.oname("raises:nothing_for_a_well_formed_entry"), False, note=repr(outcome[1]))
            return
        ys = g["yielded"]
        r = z3.String("r")
        if case["kind"] == "leaf":
            ok = len(ys) == 1 and SStr.of(ys[0]) is not None
            ex.oblige(self.oname("ensures:a_leaf_key_reports_exactly_its_namespace"), SStr.of(ys[0]) == root_of(g["k"]) if ok else z3.BoolVal(False))
            return
        # logical operators: the reported root keys are exactly those of the operands (so that 'doc' is seen at any depth)
        subs = g["subs"]
        covered = [s for s in subs if any(z3.eq(c, s) for c in g["covered"])]
        ex.oblige(self.oname("ensures:every_operand's_root_keys_are_reported"), z3.BoolVal(len(covered) == len(subs)),
                  note=f"operands {len(subs)}, re-yielded {len(covered)}, yielded {[type(y).__name__ if not isinstance(y, str) else y for y in ys]}")
        extra = [y for y in ys if not isinstance(y, (RootElem, RootsOf))]
        ex.oblige(self.oname("ensures:nothing_but_operand_root_keys_is_reported_for_a_logical_operator"), z3.BoolVal(extra == []), note=str(extra)[:100])


class RootsOf(Sym):
    """the generator _root_keys(sub): iterating it re-yields its elements (arbitrary-element reasoning)"""

    def __init__(self, sub, g):
        self.sub, self.g = sub, g

    def sym_iter(self, ex):
        from pyvc.core import CutSeq
        n = z3.Int(ex.fresh_name("n_roots"))
        ex.assume(n >= 0)
        self.g["cur_roots"] = self.sub
        return CutSeq(n, lambda interp, i: RootElem(self.sub))


def _roots_yield_from(self, interp):
    self.g["covered"].append(self.sub)
    return [self]


RootsOf.sym_yield_from = _roots_yield_from


class RootElem(Sym):
    def __init__(self, sub):
        self.sub = sub


CONTRACTS = [AddPrefixEntry(), RootKeysEntry()]


RootKeysEntry.witness = _leaf_witness("_root_keys")


# ============================================================================= _cast: command-line token -> value


class STokenStr(Sym):
    """a command-line token that is none of the reserved words; what int() / float() make of it is decided symbolically"""

    def sym_hashable(self):
        return True

    def sym_isinstance(self, ex, cls):
        return cls in (str, object)

    def sym_eq(self, ex, other):
        if other in ("true", "false", "null", "True", "False", "None", "none"):
            return False
        raise Unsupported("comparison of the token with this value")


class SNumTok(Sym):
    """kind 'int': the exact integer the token spells; 'float': the float nearest to what it spells; other kinds: derived values"""

    def __init__(self, kind):
        self.kind = kind

    def sym_getattr(self, ex, name):
        if name == "is_integer" and self.kind.startswith("float"):
            return NativeStub(lambda: SBool(z3.Bool("float_value_is_integral")), "float.is_integer")
        raise Unsupported(f"numeric attribute .{name}")


class CastCtx(Ctx):
    def __init__(self, contract, case):
        super().__init__(contract, case)
        self.callee_contracts["signac._utility._print_err"] = lambda interp, b: self.ghost.setdefault("warned", []).append(b)

    def sym_index(self, ex, o, k):
        if isinstance(o, dict) and isinstance(k, STokenStr):
            raise RaiseSignal(KeyError(k))
        return super().sym_index(ex, o, k)

    def builtin_hook(self, interp, f, args, kw):
        ex = interp.ex
        if f in (int, float) and len(args) == 1 and isinstance(args[0], STokenStr) and not kw:
            is_int, is_float = z3.Bool("token_is_an_integer_literal"), z3.Bool("token_is_a_float_literal")
            ex.assume(z3.Implies(is_int, is_float))        # every integer literal is also accepted by float()
            if not ex.decide(is_int if f is int else is_float, f"{f.__name__}(token) succeeds"):
                raise RaiseSignal(ValueError(f"invalid literal for {f.__name__}()"))
            return SNumTok(f.__name__)
        if f in (int, float) and len(args) == 1 and isinstance(args[0], SNumTok) and not kw:
            return SNumTok(f"{f.__name__}-of-{args[0].kind}")       # a conversion of a conversion: in general another value (float rounds beyond 2**53)
        return super().builtin_hook(interp, f, args, kw)


class Cast(Contract):
    target = f"{FP}._cast"
    properties = ("C07",)
    ctx_class = CastCtx

    def cases(self):
        return [{"tok": t} for t in ("true", "false", "null", "True", "None", "none", "False", "other")]

    def setup(self, interp, case):
        tok = STokenStr() if case["tok"] == "other" else case["tok"]
        return [tok], {}, {"tok": tok}

    def post(self, interp, case, pre, outcome):
        ex, g = interp.ex, interp.ctx.ghost
        if outcome[0] != "return":
            ex.oblige(self.oname("raises:nothing"), False, note=repr(outcome[1]))
            return
        r, t = outcome[1], case["tok"]
        if t in ("true", "false", "null"):
            ex.oblige(self.oname("ensures:the_reserved_words_true_false_null_are_the_JSON_constants"), z3.BoolVal(r is {"true": True, "false": False, "null": None}[t]), note=repr(r))
        elif t != "other":
            ex.oblige(self.oname("ensures:Python_spellings_of_the_constants_stay_strings_(with_a_hint)"), z3.BoolVal(r == t and bool(g.get("warned"))), note=repr((r, g.get("warned"))))
        else:
            is_int, is_float = z3.Bool("token_is_an_integer_literal"), z3.Bool("token_is_a_float_literal")
            kind = (r.kind if r.kind in ("int", "float") else "other") if isinstance(r, SNumTok) else "str" if r is pre["tok"] else "other"
            ex.oblige(self.oname("ensures:an_integer_literal_is_its_exact_int_value,_another_numeric_literal_its_float_value,_anything_else_the_token_itself"),
                      z3.And(z3.BoolVal(kind != "other"), z3.BoolVal(kind == "int") == is_int, z3.BoolVal(kind == "float") == z3.And(is_float, z3.Not(is_int))), note=repr(r))


CONTRACTS += [Cast()]


# ============================================================================= command-line front end: _parse_single, parse_simple, parse_filter_arg


class SArg(Sym):
    """one command-line token; what the recognisers (_is_json_like, _is_regex) say about it is decided symbolically"""

    def __init__(self, name):
        self.name = name

    def sym_hashable(self):
        return True

    def sym_isinstance(self, ex, cls):
        return cls in (str, object)

    def sym_eq(self, ex, other):
        if other == "!":
            return SBool(z3.Bool(f"{self.name}_is_bang"))
        raise Unsupported("token comparison")

    def sym_is(self, ex, other):
        if other is None:
            return False
        raise Unsupported("token identity")

    def sym_getitem(self, ex, k):
        if isinstance(k, slice) and all(x is None or isinstance(x, int) for x in (k.start, k.stop, k.step)):
            return ("slice-of", self, k.start, k.stop, k.step)
        raise Unsupported("token subscript")

    def sym_getattr(self, ex, name):
        if name in ("strip", "lstrip", "rstrip", "replace", "removeprefix", "removesuffix", "lower", "upper", "casefold", "title"):
            # some other string derived from the token (what exactly does not matter: it is not "the token without its first and last character")
            return NativeStub(lambda *a, **k: (f"str.{name}-of", self) + tuple(a), f"str.{name}")
        raise Unsupported(f"attribute .{name} of a token")

    def __repr__(self):
        return self.name


def _recognisers(ctx):
    ctx.callee_contracts[f"{FP}._is_json_like"] = lambda interp, b: SBool(z3.Bool(f"{b['q'].name}_is_json_like")) if isinstance(b["q"], SArg) else (_ for _ in ()).throw(Unsupported("recogniser argument"))
    ctx.callee_contracts[f"{FP}._is_regex"] = lambda interp, b: SBool(z3.Bool(f"{b['q'].name}_is_regex")) if isinstance(b["q"], SArg) else (_ for _ in ()).throw(Unsupported("recogniser argument"))
    ctx.callee_contracts[f"{FP}._parse_json"] = lambda interp, b: ("json-of", b["q"])
    ctx.callee_contracts[f"{FP}._cast"] = lambda interp, b: ("cast-of", b["x"])


class ParseSingle(Contract):
    target = f"{FP}._parse_single"
    properties = ("C07",)

    def cases(self):
        return [{"value": "given"}, {"value": "none"}]

    def make_ctx(self, case):
        ctx = super().make_ctx(case)
        _recognisers(ctx)
        return ctx

    def setup(self, interp, case):
        k, v = SArg("key"), (SArg("value") if case["value"] == "given" else None)
        return [k] + ([v] if v is not None else []), {}, {"k": k, "v": v}

    def post(self, interp, case, pre, outcome):
        ex, k, v = interp.ex, pre["k"], pre["v"]
        B = lambda n: z3.Bool(n)
        if outcome[0] == "raise":
            ex.oblige(self.oname("raises:ValueError_iff_the_key_is_a_JSON_expression"), z3.And(z3.BoolVal(isinstance(outcome[1], ValueError)), B("key_is_json_like")), note=repr(outcome[1]))
            return
        r = outcome[1]
        ok = isinstance(r, tuple) and len(r) == 2 and r[0] is k
        ex.oblige(self.oname("ensures:the_key_is_kept"), z3.And(z3.BoolVal(ok), z3.Not(B("key_is_json_like"))))
        if not ok:
            return
        val = r[1]
        if v is None:
            ex.oblige(self.oname("ensures:a_key_without_value_asks_for_existence"), z3.BoolVal(val == {"$exists": True}))
            return
        bang, js, rx = B("value_is_bang"), B("value_is_json_like"), B("value_is_regex")
        kind = ("exists" if val == {"$exists": True} else "json" if val == ("json-of", v) else
                "regex" if isinstance(val, dict) and list(val) == ["$regex"] and val["$regex"] == ("slice-of", v, 1, -1, None) else "cast" if val == ("cast-of", v) else "other")
        ex.oblige(self.oname("ensures:value_!_is_existence,_a_JSON_expression_is_parsed,_/re/_is_$regex_without_the_slashes,_anything_else_is_cast"),
                  z3.And(z3.BoolVal(kind != "other"), z3.BoolVal(kind == "exists") == bang, z3.BoolVal(kind == "json") == z3.And(z3.Not(bang), js),
                         z3.BoolVal(kind == "regex") == z3.And(z3.Not(bang), z3.Not(js), rx)), note=repr(val))


class ParseSimple(Contract):
    """bound stated: token lists of length 0..5 (the function pairs tokens by position; every length class mod 2 and the empty list are covered)"""
    target = f"{FP}.parse_simple"
    properties = ("C07",)

    def cases(self):
        return [{"n": n} for n in range(6)]

    def make_ctx(self, case):
        ctx = super().make_ctx(case)
        ctx.callee_contracts[f"{FP}._parse_single"] = lambda interp, b: ("single", b["key"], b.get("value"))
        return ctx

    def setup(self, interp, case):
        toks = [SArg(f"t{i}") for i in range(case["n"])]
        interp.ctx.ghost["out"] = []
        return [toks], {}, {"toks": toks}

    def yield_hook(self, interp, case, pre):
        return lambda v: interp.ctx.ghost["out"].append(v)

    def post(self, interp, case, pre, outcome):
        ex, toks, out = interp.ex, pre["toks"], interp.ctx.ghost["out"]
        want = [("single", toks[i], toks[i + 1] if i + 1 < len(toks) else None) for i in range(0, len(toks), 2)]
        ok = outcome[0] == "return" and len(out) == len(want) and all(o[0] == "single" and o[1] is w[1] and o[2] is w[2] for o, w in zip(out, want))
        ex.oblige(self.oname("ensures:tokens_are_paired_by_position_(key,_value),_a_trailing_key_has_no_value"), z3.BoolVal(bool(ok)), note=repr(out))


class ParseFilterArg(Contract):
    target = f"{FP}.parse_filter_arg"
    properties = ("C07",)

    def cases(self):
        return [{"n": n} for n in ("None", 0, 1, 2, 3)]

    def make_ctx(self, case):
        ctx = super().make_ctx(case)
        _recognisers(ctx)
        ctx.callee_contracts[f"{FP}._parse_single"] = lambda interp, b: (b["key"], ("value-of", b["key"], b.get("value")))
        ctx.callee_contracts[f"{FP}.parse_simple"] = lambda interp, b: [(("pair", i), ("val", i)) for i in range(2)] if interp.ctx.ghost.setdefault("simple", b["tokens"]) is not None else None
        ctx.callee_contracts["signac._utility._print_err"] = lambda interp, b: None
        import json
        ctx.externals[json.dumps] = lambda interp, v, **k: "…"
        return ctx

    def setup(self, interp, case):
        args = None if case["n"] == "None" else [SArg(f"a{i}") for i in range(case["n"])]
        return [args], {}, {"args": args}

    def post(self, interp, case, pre, outcome):
        ex, g, args = interp.ex, interp.ctx.ghost, pre["args"]
        if outcome[0] != "return":
            ex.oblige(self.oname("raises:nothing_of_its_own"), False, note=repr(outcome[1]))
            return
        r = outcome[1]
        if not args:
            ex.oblige(self.oname("ensures:no_arguments_mean_no_filter"), z3.BoolVal(r is None))
        elif len(args) == 1:
            js = z3.Bool("a0_is_json_like")
            is_json = r == ("json-of", args[0])
            is_single = isinstance(r, dict) and list(r.items()) == [(args[0], ("value-of", args[0], None))]
            ex.oblige(self.oname("ensures:one_argument_is_a_whole_JSON_filter_or_a_single_key"), z3.And(z3.BoolVal(is_json or is_single), z3.BoolVal(is_json) == js), note=repr(r))
        else:
            ex.oblige(self.oname("ensures:several_arguments_are_key_value_pairs"), z3.BoolVal(g.get("simple") is args and r == {("pair", 0): ("val", 0), ("pair", 1): ("val", 1)}), note=repr(r))


CONTRACTS += [ParseSingle(), ParseSimple(), ParseFilterArg()]


class ParseFilter(Contract):
    """parse_filter: a string is cut at white space only and handed to parse_simple; a mapping yields its items; any other iterable its elements"""
    target = f"{FP}.parse_filter"
    properties = ("C07",)

    def cases(self):
        return [{"filter": f} for f in ("plain", "backslash", "quotes", "json", "tabs", "mapping", "pairs", "number")]

    def make_ctx(self, case):
        ctx = super().make_ctx(case)
        ctx.ghost["calls"] = []

        def ps(interp, b):
            ctx.ghost["calls"].append(b["tokens"])
            return [("parsed", tuple(b["tokens"]) if isinstance(b["tokens"], (list, tuple)) else b["tokens"])]
        ctx.callee_contracts[f"{FP}.parse_simple"] = ps
        return ctx

    VALUES = {"plain": "a 1 b.c x", "backslash": r"c /^\d$/ d \x", "quotes": "k 'x y\" z", "json": 'a {"$lt":3} b [1,2]', "tabs": "k\tv  w\n", "mapping": {"a": 1, "b": {"$gt": 2}},
              "pairs": [("a", 1), ("b", 2)], "number": 3}

    def setup(self, interp, case):
        v = self.VALUES[case["filter"]]
        interp.ctx.ghost["yielded"] = []
        return [v], {}, {"v": v}

    def yield_hook(self, interp, case, pre):
        return lambda x: interp.ctx.ghost["yielded"].append(x)

    def post(self, interp, case, pre, outcome):
        ex, g, v = interp.ex, interp.ctx.ghost, pre["v"]
        ys = g["yielded"]
        if isinstance(v, str):
            ok = outcome[0] == "return" and len(g["calls"]) == 1 and list(g["calls"][0]) == v.split() and ys == [("parsed", tuple(v.split()))]
            ex.oblige(self.oname("ensures:a_string_is_cut_at_white_space_only_(no_quoting,_no_escapes)_and_parsed_as_command-line_tokens"), z3.BoolVal(bool(ok)), note=repr((g["calls"], ys))[:200])
        elif isinstance(v, dict):
            ex.oblige(self.oname("ensures:a_mapping_yields_its_items"), z3.BoolVal(outcome[0] == "return" and ys == list(v.items()) and not g["calls"]), note=repr(ys)[:200])
        elif isinstance(v, list):
            ex.oblige(self.oname("ensures:a_sequence_of_pairs_is_passed_through"), z3.BoolVal(outcome[0] == "return" and ys == v and not g["calls"]), note=repr(ys)[:200])
        else:
            ex.oblige(self.oname("raises:ValueError_for_anything_that_is_not_iterable"), z3.BoolVal(outcome[0] == "raise" and isinstance(outcome[1], ValueError) and not ys), note=repr(outcome)[:200])


CONTRACTS += [ParseFilter()]


class Recognisers(Contract):
    """_is_json_like / _is_regex over an arbitrary non-empty token (z3 string): what the command-line parser takes for JSON and for a /regex/"""
    target = f"{FP}._is_json_like"
    properties = ("C07",)
    prefer_cvc5 = True

    def cases(self):
        return [{"fn": "_is_json_like"}, {"fn": "_is_regex"}]

    def setup(self, interp, case):
        from pyvc.theory_str import SStr
        self.target = f"{FP}.{case['fn']}"
        q = z3.String("token")
        interp.ex.assume(z3.Length(q) >= 1)
        return [SStr(q)], {}, {"q": q}

    def post(self, interp, case, pre, outcome):
        ex, q = interp.ex, pre["q"]
        name = f"{FP}.{case['fn']}"
        if outcome[0] != "return":
            ex.oblige(name + "#raises:nothing_for_a_non-empty_token", False, note=repr(outcome[1]))
            return
        r = outcome[1]
        got = r.e if isinstance(r, SBool) else z3.BoolVal(bool(r))
        first, last = z3.SubString(q, 0, 1), z3.SubString(q, z3.Length(q) - 1, 1)
        if case["fn"] == "_is_json_like":
            want = z3.Or(z3.And(first == z3.StringVal("{"), last == z3.StringVal("}")), z3.And(first == z3.StringVal("["), last == z3.StringVal("]")))
            ex.oblige(name + "#ensures:a_token_is_JSON-like_iff_it_is_wrapped_in_one_kind_of_bracket_({...}_or_[...])", got == want)
        else:
            want = z3.And(first == z3.StringVal("/"), last == z3.StringVal("/"))
            ex.oblige(name + "#ensures:a_token_is_a_regular_expression_iff_it_starts_and_ends_with_a_slash", got == want)


def _mk_recogniser(fn):
    class C(Recognisers):
        target = f"{FP}.{fn}"

        def cases(self):
            return [{"fn": fn}]
    C.__name__ = "Recogniser" + fn
    return C()


CONTRACTS += [_mk_recogniser("_is_json_like"), _mk_recogniser("_is_regex")]


class ParseJson(Contract):
    """_parse_json: a JSON token means exactly what json.loads says it means (apostrophes, escapes and nesting included); an invalid
    token is reported and the JSONDecodeError passed on.  Checked on a fixed family of tokens (concrete execution of the real function)."""
    target = f"{FP}._parse_json"
    properties = ("C07",)
    TOKENS = ['{"a": 1}', '[1, 2.5, null, true]', '{"$eq": "it\'s"}', '["its\',\'it"]', '{"k": "say \\"hi\\""}', '{"n": {"m": [1, {"x": "y z"}]}}', '{"a": 1', "{'a': 1}", '[1,, 2]']

    def cases(self):
        return [{"token": i} for i in range(len(self.TOKENS))]

    def make_ctx(self, case):
        ctx = super().make_ctx(case)
        ctx.callee_contracts["signac._utility._print_err"] = lambda interp, b: None
        return ctx

    def setup(self, interp, case):
        return [self.TOKENS[case["token"]]], {}, {"q": self.TOKENS[case["token"]]}

    def post(self, interp, case, pre, outcome):
        import json
        ex, q = interp.ex, pre["q"]
        try:
            want = ("return", json.loads(q))
        except json.JSONDecodeError:
            want = ("raise", None)
        if want[0] == "return":
            ok = outcome[0] == "return" and outcome[1] == want[1] and type(outcome[1]) is type(want[1]) and json.dumps(outcome[1], sort_keys=True) == json.dumps(want[1], sort_keys=True)
            ex.oblige(self.oname("ensures:a_valid_JSON_token_is_parsed_to_exactly_its_JSON_value"), z3.BoolVal(bool(ok)), note=repr((q, outcome))[:200])
        else:
            ex.oblige(self.oname("raises:JSONDecodeError_for_a_token_that_is_not_JSON"), z3.BoolVal(outcome[0] == "raise" and isinstance(outcome[1], json.JSONDecodeError)), note=repr((q, outcome))[:200])


CONTRACTS += [ParseJson()]
