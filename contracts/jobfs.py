"""Shared object layer for contracts over signac/job.py and signac/project.py: symbolic Project / Job / _StatePointDict objects,
dependency (synced_collections) contracts, calc_id contract, class invariant Inv(job)."""
import errno
import json

import z3

from pyvc.core import NativeStub, OpaqueStr, RaiseSignal, SBool, SInt, Sym, Unsupported
from pyvc.interp import BoundMethod, Obj, TransparentCM
from pyvc.theory_fs import (CALC, EMPTY, FS, JD, NONEV, PF, Data, FSModel, LIn, LJob, LPF, LProj, LWs, Name, Node, PName, Proj, SPv, SymOSError,
                            canon, join_path, jsonok, parsed)
from pyvc.theory_j import FA_id, Id, SId, SymSet
from pyvc.verify import Contract, Ctx

JOB = "signac.job"
PRJ = "signac.project"


class SSP(Sym):
    """A state point value (plain mapping, or what json.loads returned): abstract term of sort SPv."""

    def __init__(self, e):
        self.e = e

    def sym_is(self, ex, other):
        if other is None:
            return SBool(self.e == NONEV)
        raise Unsupported("`is` on state point value")

    def sym_eq(self, ex, other):
        if isinstance(other, SSP):
            return SBool(self.e == other.e)
        raise Unsupported("state point ==")

    def sym_isinstance(self, ex, cls):
        return cls in (dict, object)

    def sym_truth(self, ex):
        return SP_NONEMPTY(self.e)       # a mapping is falsy iff it is empty

    def sym_getattr(self, ex, name):
        if name == "values":
            return NativeStub(lambda: SSPValues(self), "mapping.values")
        raise Unsupported(f"mapping.{name} on a state point value")


class SSPValues(Sym):
    def __init__(self, sp):
        self.sp = sp


class SValuesTest(Sym):
    """(isinstance(v, T) for v in sp.values()): only any() / all() of it are supported, as predicates of the state point value"""

    def __init__(self, sp, types):
        self.sp, self.types = sp, types

    def sym_any_all(self, ex, is_any):
        names = ",".join(sorted(t.__name__ for t in self.types))
        ex.assumptions_used.add("top-level values of a state point: SOME_TOP_VALUE_IS[T](sp) / EVERY_TOP_VALUE_IS[T](sp) are predicates of the value; a plain dict/list value is a nested mutable container, "
                                "but not every nested mutable container is a plain dict/list (synced collections, tuples holding lists, other mappings)")
        some = z3.Function(f"SOME_TOP_VALUE_IS[{names}]", SPv, z3.BoolSort())
        every = z3.Function(f"EVERY_TOP_VALUE_IS[{names}]", SPv, z3.BoolSort())
        if set(self.types) <= {dict, list}:
            ex.assume(z3.Implies(some(self.sp.e), HAS_NESTED_MUTABLE(self.sp.e)))
        return SBool(some(self.sp.e) if is_any else every(self.sp.e))


HAS_NESTED_MUTABLE = z3.Function("HAS_NESTED_MUTABLE", SPv, z3.BoolSort())     # some nested value can be mutated in place through a reference to it


SP_NONEMPTY = z3.Function("sp_nonempty", SPv, z3.BoolSort())


def spv_of(v):
    """SPv term of a value passed where a state point is expected."""
    if v is None:
        return NONEV
    if isinstance(v, SSP):
        return v.e
    if isinstance(v, Obj) and v.cls.name == "_StatePointDict":
        return spv_of(v.fields["_data"])
    raise Unsupported(f"state point value of {type(v).__name__}")


class SCache(Sym):
    """Project._sp_cache: finite map Id -> SPv."""

    def __init__(self, dom, val):
        self.dom, self.val = dom, val

    @staticmethod
    def fresh(ex, tag):
        return SCache(z3.Array(ex.fresh_name("cdom_" + tag), Id, z3.BoolSort()), z3.Array(ex.fresh_name("cval_" + tag), Id, SPv))

    def valid(self):
        """cache validity invariant V(C): every entry hashes to its key"""
        return FA_id(lambda x: z3.Implies(self.dom[x], CALC(self.val[x]) == x))

    def sym_getitem(self, ex, k):
        if isinstance(k, SIdPrefix):
            ex.assumptions_used.add("keys of the state point cache are full 32-character ids: a shorter string is never a key")
            raise RaiseSignal(KeyError("abbreviated id"))
        if not isinstance(k, SId):
            raise Unsupported("cache key")
        if not ex.decide(self.dom[k.e], "cache-hit"):
            raise RaiseSignal(KeyError(k))
        return SSP(self.val[k.e])

    def sym_setitem(self, ex, k, v):
        if not isinstance(k, SId):
            raise Unsupported("cache key")
        self.dom = z3.Store(self.dom, k.e, True)
        self.val = z3.Store(self.val, k.e, spv_of(v))

    def sym_delitem(self, ex, k):
        if not ex.decide(self.dom[k.e], "cache-hit"):
            raise RaiseSignal(KeyError(k))
        self.dom = z3.Store(self.dom, k.e, False)

    def sym_contains(self, ex, k):
        return SBool(self.dom[k.e])

    def sym_getattr(self, ex, name):
        if name == "setdefault":
            def setdefault(k, default=None):
                if not isinstance(k, SId):
                    raise Unsupported("cache key")
                if ex.decide(self.dom[k.e], "cache-hit"):
                    return SSP(self.val[k.e])
                self.sym_setitem(ex, k, default)          # a miss INSERTS the default
                return default
            return NativeStub(setdefault, "dict.setdefault")
        if name == "get":
            def get(k, default=None):
                if not isinstance(k, SId):
                    raise Unsupported("cache key")
                return SSP(self.val[k.e]) if ex.decide(self.dom[k.e], "cache-hit") else default
            return NativeStub(get, "dict.get")
        if name == "pop":
            def pop(k, *default):
                if not isinstance(k, SId):
                    raise Unsupported("cache key")
                if ex.decide(self.dom[k.e], "cache-hit"):
                    v = SSP(self.val[k.e])
                    self.dom = z3.Store(self.dom, k.e, False)
                    return v
                if default:
                    return default[0]
                raise RaiseSignal(KeyError(k))
            return NativeStub(pop, "dict.pop")
        raise Unsupported(f"_sp_cache.{name}")

    def sym_truth(self, ex):
        x = z3.Const("ne_x", Id)
        return z3.Exists([x], self.dom[x])


class SCount(Sym):
    """len() of a filtered id collection {x : P(x)}: compared with small constants only; "at least k" is stated with k distinct witnesses"""

    def __init__(self, P, sort=Id):
        self.P, self.sort = P, sort

    def ge(self, k):
        P = self.P
        if k <= 0:
            return z3.BoolVal(True)
        xs = [z3.Const(f"cnt_w{k}_{j}_{self.sort.name()}", self.sort) for j in range(k)]
        body = z3.And(*[P(x) for x in xs], *([z3.Distinct(*xs)] if k > 1 else []))
        return z3.Exists(xs, body)

    def rel(self, op, k):
        if not isinstance(k, int) or isinstance(k, bool) or not -1 <= k <= 3:
            raise Unsupported("comparison of a filtered count with this value")
        ge, gt = self.ge(k), self.ge(k + 1)
        return {"Eq": z3.And(ge, z3.Not(gt)), "NotEq": z3.Not(z3.And(ge, z3.Not(gt))), "Gt": gt, "GtE": ge, "Lt": z3.Not(ge), "LtE": z3.Not(gt)}[op]

    def sym_eq(self, ex, other):
        return SBool(self.rel("Eq", other))

    def sym_compare(self, ex, op, other, reflected=False):
        if reflected:
            op = {"Gt": "Lt", "Lt": "Gt", "GtE": "LtE", "LtE": "GtE"}[op]
        return SBool(self.rel(op, other))

    def sym_truth(self, ex):
        return self.ge(1)


class SFilteredIds(Sym):
    """[x for x in S if c(x)] over a collection of ids: the ids satisfying P, in an unspecified order"""

    def __init__(self, P):
        self.P = P

    def sym_len(self, ex):
        return SCount(self.P)

    def sym_truth(self, ex):
        return SCount(self.P).ge(1)

    def sym_getitem(self, ex, k):
        if isinstance(k, int) and not isinstance(k, bool) and 0 <= k <= 2:
            if not ex.decide(SCount(self.P).ge(k + 1), f"filtered:len>{k}"):
                raise RaiseSignal(IndexError("list index out of range"))
            m = z3.Const(ex.fresh_name(f"elem{k}"), Id)
            ex.assume(self.P(m))          # some element: the order of a directory listing / of a dict of ids is not specified
            return SId(m)
        raise Unsupported("index into a filtered id list")


class SIdPrefix(Sym):
    """an abbreviated job id: a string shorter than a full id; only `full_id.startswith(prefix)` is observable"""

    def __init__(self, tag="prefix"):
        self.tag = tag
        self.n = z3.Int(f"len_{tag}")

    def sym_len(self, ex):
        return SInt(self.n)

    def sym_isinstance(self, ex, cls):
        return cls in (str, object)

    def sym_hashable(self):
        return True

    def sym_truth(self, ex):
        return self.n > 0


HASPFX = z3.Function("HASPFX", Id, z3.BoolSort())          # the id starts with the abbreviated id under consideration


def _sid_getattr(self, ex, name):
    if name == "startswith":
        def sw(p):
            if isinstance(p, SIdPrefix):
                return SBool(HASPFX(self.e))
            raise Unsupported("startswith with this argument")
        return NativeStub(sw, "str.startswith")
    raise Unsupported(f"attribute .{name} of a job id")


SId.sym_getattr = _sid_getattr
SId.sym_len = lambda self, ex: 32          # a job id is the 32-character hex digest (JobDirs / calc_id contracts)


def id_members(v):
    """membership predicate of a collection of ids, or None"""
    if isinstance(v, SCache):
        return lambda x: v.dom[x]
    if hasattr(v, "member"):
        return v.member
    return None


class SDumpedSP(Sym):
    def __init__(self, d):
        self.d = d

    def sym_getattr(self, ex, name):
        if name == "encode":
            return NativeStub(lambda *a: self, "str.encode")
        raise Unsupported(f"str.{name} on a JSON text")


class JobCtx(FSModel, Ctx):
    """Context for functions of job.py / project.py that touch the file system."""

    def __init__(self, contract, case):
        Ctx.__init__(self, contract, case)
        self.faults = case.get("faults", getattr(contract, "faults", True))
        self.rg = False
        self.externals[open] = self.x_open
        self.externals[json.dumps] = self.x_json_dumps_sp

    def x_json_dumps_sp(self, interp, v, **k):
        """json.dumps of a state point (mapping): its canonical text (the writer contract)"""
        try:
            e = spv_of(v)
        except Unsupported:
            raise Unsupported("json.dumps of this value")
        return SDumpedSP(canon(e))

    # ---- builtin open(): the persistent files of a job (state point, document) are only ever replaced through the collection classes
    # (temp file + os.replace when write_concern is set); opening one of them for writing truncates it in place, which a reader or a
    # crash can observe -- forbidden for every function under a job.py / project.py contract
    def x_open(self, interp, loc, mode="r", *a, **k):
        from pyvc.core import PathEnd
        if isinstance(loc, LIn) and isinstance(mode, str) and any(c in mode for c in "wax+"):
            nm = loc.name
            ok = z3.And(nm != Name.DOC, nm != Name.SP)
            if not interp.ex.decide(ok, "open-for-writing:a data file"):
                interp.ex.oblige(self.contract.oname("atomic:a_persistent_job_file_is_never_opened_for_writing_in_place"), False, note=f"open({loc}, {mode!r})")
                raise PathEnd()
            raise Unsupported(f"open({loc}, {mode!r}): data files of a job are outside the file-system model")
        raise Unsupported(f"open(..., {mode!r})")

    # ---- [x for x in <ids> if c(x)]: the sub-collection as a predicate (c must be branch-free)
    def comprehension(self, interp, node, frame):
        import ast
        if isinstance(node, ast.GeneratorExp) and len(node.generators) == 1:
            g = node.generators[0]
            e = node.elt
            if (isinstance(g.target, ast.Name) and not g.ifs and isinstance(g.iter, ast.Call) and isinstance(g.iter.func, ast.Attribute) and g.iter.func.attr == "values"
                    and isinstance(g.iter.func.value, ast.Name) and isinstance(e, ast.Call) and isinstance(e.func, ast.Name) and e.func.id == "isinstance" and len(e.args) == 2
                    and isinstance(e.args[0], ast.Name) and e.args[0].id == g.target.id):
                src = interp.ev(g.iter.func.value, frame)
                if isinstance(src, SSP):
                    t = interp.ev(e.args[1], frame)
                    t = t if isinstance(t, tuple) else (t,)
                    if all(isinstance(x, type) for x in t):
                        return SValuesTest(src, t)
        if isinstance(node, ast.ListComp) and len(node.generators) == 1:
            g = node.generators[0]
            if isinstance(g.target, ast.Name) and isinstance(node.elt, ast.Name) and node.elt.id == g.target.id and len(g.ifs) == 1 and not g.is_async and isinstance(g.iter, (ast.Name, ast.Attribute)):
                src = interp.ev(g.iter, frame)
                mem = id_members(src)
                if mem is not None:
                    x0 = z3.Const(interp.ex.fresh_name("cx"), Id)
                    f = interp._comp_frame(frame)
                    interp.assign_target(g.target, SId(x0), f)
                    c = interp.ev(g.ifs[0], f)
                    ce = c.sym_truth(interp.ex) if isinstance(c, Sym) else z3.BoolVal(bool(c))
                    return SFilteredIds(lambda x: z3.And(mem(x), z3.substitute(ce, (x0, x))))
        return NotImplemented

    # ---- calc_id (contract; verified separately for C01)
    def stub_calc_id(self, interp, b):
        interp.ex.assumptions_used.add("calc_id is a function of the JSON value of its argument (C01 contract): CALC")
        return SId(CALC(spv_of(b["statepoint"])))

    # ---- os.sep.join / os.path.join on locations
    def str_join(self, interp, sep, parts):
        import os
        if sep == os.sep:
            return join_path(interp, parts)
        raise Unsupported("str.join with symbolic parts")

    # ---- dependency: synced_collections JSONAttrDict as base of _StatePointDict (TRUSTED contracts)
    def dep_call(self, interp, o, name, args, kw, via_super=False):
        ex = interp.ex
        cn = o.cls.name
        if cn == "_StatePointDict":
            ex.assumptions_used.add("synced_collections.JSONAttrDict contract: __init__ stores filename/data; _load_from_resource = read+json.loads (None if ENOENT); "
                                    "_save_to_resource writes json.dumps(data) via temp file + os.replace when write_concern or threading support is active, else truncating write")
            if name == "__init__":
                b = dict(filename=None, write_concern=False, data=None, parent=None)
                b.update(kw)
                if args:
                    raise Unsupported("positional args to JSONAttrDict.__init__")
                o.fields["_filename"] = b["filename"]
                o.fields["_write_concern"] = b["write_concern"]
                d = b["data"]
                o.fields["_data"] = SSP(spv_of(d)) if d is not None else SSP(interp.ex.fresh("emptysp", SPv))
                return None
            if name == "_save":
                return self.dep_save(interp, o)
            if name == "_load_from_resource":
                return self.dep_load(interp, o)
            if name == "_update":
                data = args[0] if args else kw.get("data")
                o.fields["_data"] = SSP(spv_of(data))
                return None
            if name == "reset":
                # SyncedCollection.reset(data): replace content, then _save() (virtual: the subclass' _save)
                data = args[0]
                o.fields["_data"] = SSP(spv_of(data))
                m = interp.find_member(o.cls, "_save")
                return interp.call(BoundMethod(m, o), [], {})
            if name == "__call__":
                return SSP(spv_of(o))
        raise Unsupported(f"dependency method {cn}.{name} without a contract")

    def dep_getattr(self, interp, o, name):
        cn = o.cls.name
        if cn == "_StatePointDict":
            if name == "filename":
                return o.fields["_filename"]
            if name == "_suspend_sync":
                return TransparentCM()
            if name in ("_load_from_resource", "_update", "reset", "_save", "__call__"):
                return NativeStub(lambda *a, **k: self.dep_call(interp, o, name, list(a), k), f"dep.{name}")
        raise Unsupported(f"attribute {name} of {o} comes from a dependency base class without a contract")

    def obj_setattr(self, interp, o, name, v):
        if o.cls.name == "_StatePointDict" and name == "filename":
            o.fields["_filename"] = v
            interp.heap_writes.append((o, "_filename"))
            return True
        return NotImplemented

    def dep_load(self, interp, o):
        ex, fs = interp.ex, self.fs
        loc = o.fields["_filename"]
        if not isinstance(loc, LIn):
            raise Unsupported("state point file location")
        self.interfere(interp)
        if not ex.decide(z3.And(self.present(loc), Node.is_File(self.fs.node(loc))), "load:file-present"):
            return None
        if self.faults and self.fault_reads:
            self.fault(interp, "read")
        d = Node.data(self.fs.node(loc))
        if not ex.decide(jsonok(d), "load:json-ok"):
            # not a JSON text: either the bytes are not even UTF-8 (UnicodeDecodeError, a ValueError) or they do not parse (JSONDecodeError)
            if ex.decide(None, "load:bytes-are-utf8"):
                raise RaiseSignal(json.JSONDecodeError("x", "", 0))
            raise RaiseSignal(UnicodeDecodeError("utf-8", b"\xff", 0, 1, "invalid start byte"))
        return SSP(parsed(d))

    def dep_save(self, interp, o):
        ex = interp.ex
        loc = o.fields["_filename"]
        if not isinstance(loc, LIn):
            raise Unsupported("state point file location")
        self.interfere(interp)
        fs = self.fs
        if not ex.decide(fs.dirs[JD.mk(loc.p, loc.i)], "save:dir-exists"):
            raise self.enoent()
        self.fault(interp, "save-open")
        d = canon(spv_of(o))
        ex.assume(z3.And(jsonok(d), parsed(d) == spv_of(o)))      # instance of the writer/parser round-trip contract
        if self.faults and ex.decide(None, "fault:save-torn"):
            # not atomic (write_concern False and threading support off), or the temp-file write failed: torn content / error
            torn = ex.fresh("torn", Data)
            ex.assume(z3.Not(jsonok(torn)))
            if ex.decide(None, "save-torn:in-place"):
                if o.fields.get("_write_concern") is True:
                    raise Unsupported("torn in-place write with write_concern=True")
                self.effect(interp, "write SP (torn, in place)", self.fs.with_node(loc, Node.File(torn)))
            e = z3.Int(ex.fresh_name("errno"))
            # EEXIST / EACCES / ENOENT are errors of open(), i.e. of the fault above (no effect); an error *during* the write is none of them
            ex.assume(z3.And(e != errno.ENOENT, e != errno.EEXIST, e != errno.EACCES, e > 0))
            raise RaiseSignal(SymOSError(e))
        # the dependency writes through a temp file + os.replace only if write_concern is set or the collection class has its
        # multithreading support active (class attribute of the REAL class of this tree, read concretely); otherwise it truncates
        # and rewrites the file in place, and the empty / partial file is a state of its own that others can observe
        real = o.cls.real
        atomic = bool(o.fields.get("_write_concern")) or bool(getattr(real, "_threading_support_is_active", False))
        if not atomic:
            torn = ex.fresh("truncated", Data)
            ex.assume(z3.Not(jsonok(torn)))
            self.effect(interp, "open/truncate SP in place (write is not atomic)", self.fs.with_node(loc, Node.File(torn)))
            self.interfere(interp)
        self.effect(interp, "write SP", self.fs.with_node(loc, Node.File(d)))
        self.interfere(interp)
        return None

    # ---- Project._register inline is fine; H5StoreManager etc. opaque
    def instantiate(self, interp, rc, args, kw):
        return NotImplemented


def mk_project(ex, tag="p"):
    from pyvc.verify import repo
    rp = repo()
    rp.load(PRJ)
    p = z3.Const(f"proj_{tag}", Proj)
    o = Obj(rp.classes[f"{PRJ}.Project"])
    o.tag = tag
    o.fields.update(_path=LProj(p), _workspace=LWs(p), _sp_cache=SCache.fresh(ex, tag), _sp_cache_read=True, _lock=None, _document=None,
                    _stores=None, _sp_cache_misses=0, _sp_cache_warned=True, _sp_cache_miss_warning_threshold=500)
    o.p = p
    return o


def mk_spdict(interp, job, sp, i=None):
    rp = interp.repo
    rp.load(JOB)
    o = Obj(rp.classes[f"{JOB}._StatePointDict"])
    p = job.fields["_project"].p
    o.fields.update(_jobs=[job], _filename=LIn(p, job.fields["_id"].e if i is None else i, Name.SP), _write_concern=False, _data=SSP(sp))
    return o


def mk_job(interp, project, tag="me", lazy=None, cached=None, path_known=None, has_doc=False):
    """A Job handle satisfying the class invariant Inv, with symbolic id `tag`."""
    ex = interp.ex
    rp = interp.repo
    rp.load(JOB)
    me = z3.Const(f"id_{tag}", Id)
    sp = z3.Const(f"sp_{tag}", SPv)
    ex.assume(z3.And(CALC(sp) == me, CALC(NONEV) != me, sp != NONEV))
    o = Obj(rp.classes[f"{JOB}.Job"])
    o.tag = tag
    if lazy is None:
        lazy = ex.decide(None, f"pre:{tag}._statepoint_requires_init")
    if cached is None:
        cached = True if not lazy else ex.decide(None, f"pre:{tag}._cached_statepoint set")
    if path_known is None:
        path_known = ex.decide(None, f"pre:{tag}._path set")
    p = project.p
    o.fields.update(_project=project, _lock=None, _id=SId(me), _path=LJob(p, me) if path_known else None, _document=None, _stores=None,
                    _cwd=[], _cached_statepoint=SSP(sp) if cached else None, _statepoint_requires_init=lazy,
                    _directory_known=SBool(z3.Bool(ex.fresh_name(f"dirknown_{tag}"))))
    o.me, o.sp = me, sp
    if not lazy:
        o.fields["_statepoint"] = mk_spdict(interp, o, sp)
    return o


def inv_job(ctx, job, i=None, require_cached_fresh=True):
    SDoc = globals().get("SDoc")
    """Class invariant Inv(job) as a list of (label, z3 Bool) over the *current* heap."""
    f = job.fields
    i = f["_id"].e if i is None else i
    p = f["_project"].p
    out = []

    def loc_is(v, cls, *parts):
        if not isinstance(v, cls):
            return z3.BoolVal(False)
        conds = [v.p == p, v.i == i]
        if cls is LIn:
            conds.append(v.name == parts[0])
        return z3.And(*conds)
    out.append(("_path is None or the job directory of _id", z3.BoolVal(True) if f["_path"] is None else loc_is(f["_path"], LJob)))
    d = f["_document"]
    out.append(("_document is None or bound to this job's document file",
                z3.BoolVal(True) if d is None else (loc_is(d.filename, LIn, Name.DOC) if isinstance(d, SDoc) and isinstance(d.filename, LIn) else z3.BoolVal(False))))
    out.append(("_stores is None", z3.BoolVal(f["_stores"] is None)))
    if f["_statepoint_requires_init"] is False:
        sd = f["_statepoint"]
        out.append(("state point object bound to this id's file", loc_is(sd.fields["_filename"], LIn, Name.SP)))
        out.append(("state point data hashes to _id", CALC(spv_of(sd)) == i))
        jobs = sd.fields["_jobs"]
        if isinstance(jobs, list):
            out.append(("handle registered in its state point object", z3.BoolVal(any(j is job for j in jobs))))
    if f["_cached_statepoint"] is not None and require_cached_fresh:
        out.append(("cached state point hashes to _id", CALC(spv_of(f["_cached_statepoint"])) == i))
    return out


class SDoc(Sym):
    """A job/project document handle (dependency object BufferedJSONAttrDict): only its binding (filename, write_concern) and the
    FS effect of whole-document writes are modelled; dict semantics are the dependency's (C05: assumed, bounded check)."""

    def __init__(self, filename, write_concern):
        self.filename, self.write_concern = filename, write_concern

    def sym_is(self, ex, other):
        if other is None:
            return False
        return self is other

    def sym_truth(self, ex):
        # a mapping is truthy iff it is not empty: nothing the handle's identity depends on
        return z3.Bool(ex.fresh_name("document_is_not_empty"))

    def sym_type(self, ex):
        # type(document): the dependency class; calling it opens another handle (write_concern is False unless asked for)
        return NativeStub(lambda *a, **k: SDoc(k.get("filename", a[0] if a else None), k.get("write_concern", False)), "BufferedJSONAttrDict")

    def sym_setattr(self, ex, name, v):
        if name == "filename":
            self.filename = v
            return
        raise Unsupported(f"document.{name} = ...")

    def sym_getattr(self, ex, name):
        if name in ("filename", "_filename"):
            return self.filename
        if name in ("clear", "reset", "update"):
            return NativeStub(lambda interp, *a, **k: interp.ctx.doc_write(interp, self, name), f"doc.{name}", wants_ex=True)
        raise Unsupported(f"document.{name}")


def _doc_write(self, interp, doc, what):
    """dependency contract of a document write: temp file + os.replace in the document's directory"""
    ex = interp.ex
    loc = doc.filename
    fs = self.fs
    self.ghost.setdefault("docwrites", []).append((doc, what))
    ex.assumptions_used.add("synced_collections document write = atomic replace of the document file (write_concern=True), ENOENT if the directory is gone")
    if isinstance(loc, LIn):
        if not ex.decide(fs.dirs[JD.mk(loc.p, loc.i)], "docwrite:dir-exists"):
            raise self.enoent()
        self.fault(interp, "doc-write")
        d = ex.fresh("doccontent", Data)
        self.effect(interp, f"document {what}", fs.with_node(loc, Node.File(d)))
        return None
    if isinstance(loc, LPF):
        self.fault(interp, "doc-write")
        d = ex.fresh("doccontent", Data)
        self.effect(interp, f"project document {what}", fs.with_pf(loc.p, loc.n, Node.File(d)))
        return None
    raise Unsupported("document location")


JobCtx.doc_write = _doc_write


def _instantiate(self, interp, rc, args, kw):
    return NotImplemented


def _native_override(self, interp, f, args, kw):
    import copy
    from synced_collections.backends.collection_json import BufferedJSONAttrDict
    from signac.h5store import H5StoreManager
    if f is BufferedJSONAttrDict:
        if args or set(kw) - {"filename", "write_concern"}:
            raise Unsupported("BufferedJSONAttrDict arguments")
        return SDoc(kw.get("filename"), kw.get("write_concern", False))
    if f == BufferedJSONAttrDict.backend_is_buffered and not args and not kw:
        # whether the session is inside signac.buffered() is environment state no function under contract controls
        return SBool(z3.Bool("the_session_is_in_buffered_mode"))
    if f is copy.deepcopy and len(args) == 1 and isinstance(args[0], SSP):
        interp.ex.assumptions_used.add("copy.deepcopy returns an equal, unaliased value")
        return SSP(args[0].e)
    if f is H5StoreManager:
        return "h5-store-manager"
    return NotImplemented


JobCtx.native_override = _native_override


def _dictify_sp(self, interp, v):
    """dict(mapping): a new top-level mapping that SHARES every nested list / mapping with its argument (shallow copy)"""
    if isinstance(v, SSP):
        r = SSP(v.e)
        r.shares_nested_with = getattr(v, "shares_nested_with", None) or v
        return r
    return Ctx.dictify(self, interp, v)


JobCtx.dictify = _dictify_sp
