"""Sidecar contract for JobsCursor.groupby (C07): which jobs are grouped, and by which label.

Filters are given their meaning by a small evaluator over the dict the code builds: `{"$and": [f, g]}` is conjunction, an entry
`key: {"$exists": True}` is HAS[key](job), an entry `key: <cond>` with an opaque condition token is COND[cond](job) (what such a filter
selects is the business of the _find_result / _find_expression contracts, C06).  Keys are compared after the namespace normalisation
proved for _add_prefix (a key without namespace is a state point key).  The cursor's own filter ranges over: none, a condition on another
key, a condition on the very key that is grouped by.  Dotted (nested) grouping keys are known finding F6 and are not in the precondition."""
import itertools
import warnings

import z3

from pyvc.core import NativeStub, RaiseSignal, SBool, Sym, Unsupported
from pyvc.interp import Obj
from pyvc.theory_j import Id
from pyvc.verify import Contract, Ctx

PRJ = "signac.project"


def norm(key):
    return key if key.startswith(("sp.", "doc.")) else "sp." + key


def HAS(key):
    return z3.Function(f"HAS[{norm(key)}]", Id, z3.BoolSort())


class SCond(Sym):
    """an opaque condition on one key (e.g. {"$gt": 3})"""

    def __init__(self, name):
        self.name = name
        self.f = z3.Function(f"COND[{name}]", Id, z3.BoolSort())


def sem(flt, x):
    """meaning of a filter mapping at job x"""
    if flt is None:
        return z3.BoolVal(True)
    if not isinstance(flt, dict):
        raise Unsupported(f"filter of type {type(flt).__name__}")
    cs = []
    for k, v in flt.items():
        if k == "$and":
            if not isinstance(v, list):
                raise Unsupported("$and argument")
            cs += [sem(f, x) for f in v]
        elif isinstance(k, str) and not k.startswith("$"):
            if isinstance(v, SCond):
                cs.append(v.f(x))
            elif v == {"$exists": True}:
                cs.append(HAS(k)(x))
            else:
                raise Unsupported(f"filter entry {k!r}: {v!r}")
        else:
            raise Unsupported(f"filter operator {k!r}")
    return z3.And(*cs) if cs else z3.BoolVal(True)


class SJobs(Sym):
    def __init__(self, flt):
        self.flt = flt


class SMapTok(Sym):
    """job.cached_statepoint / job.document (or a mapping nested in it): whether a key is present is symbolic"""

    def __init__(self, ns, path=()):
        self.ns, self.path = ns, path

    def child(self, ex, k, label):
        full = self.path + (k,)
        present = z3.Bool("has[" + self.ns + "." + ".".join(full) + "]")
        return full, ex.decide(present, label)

    def sym_getitem(self, ex, k):
        if not isinstance(k, str):
            raise Unsupported("mapping subscript")
        full, has = self.child(ex, k, f"{self.ns}: has {'.'.join(self.path + (k,))}")
        if not has:
            raise RaiseSignal(KeyError(k))
        return SMapTok(self.ns, full)          # the value under that key (itself subscriptable if it is a mapping)

    def sym_getattr(self, ex, name):
        if name == "get":
            def get(k, d=None):
                full, has = self.child(ex, k, f"{self.ns}: has {'.'.join(self.path + (k,))}")
                return SMapTok(self.ns, full) if has else d
            return NativeStub(get, "mapping.get")
        raise Unsupported(f"mapping.{name}")


class SJobTok(Sym):
    def sym_getattr(self, ex, name):
        if name == "cached_statepoint" or name == "sp" or name == "statepoint":
            return SMapTok("sp")
        if name in ("document", "doc"):
            return SMapTok("doc")
        if name == "id":
            return ("own-id",)
        raise Unsupported(f"job.{name}")


class GroupCtx(Ctx):
    def __init__(self, contract, case):
        super().__init__(contract, case)
        self.externals[warnings.warn] = lambda interp, *a, **k: None
        self.externals[itertools.groupby] = self.x_groupby

    def x_groupby(self, interp, seq, key=None):
        self.ghost["groupby"] = (seq, key)
        return []

    def iter_of(self, interp, v):
        return v

    def builtin_hook(self, interp, f, args, kw):
        if f is sorted and len(args) == 1:
            self.ghost["sorted"] = (args[0], kw.get("key"))
            return ("sorted", args[0])
        return super().builtin_hook(interp, f, args, kw)


def stub_find_jobs(interp, b):
    if b.get("doc_filter") is not None:
        raise Unsupported("find_jobs call shape")
    interp.ctx.ghost.setdefault("find_jobs", []).append(b["filter"])
    return SJobs(b["filter"])


KEYS = {"k": ["k"], "sp.k": ["sp.k"], "doc.k": ["doc.k"], "n.k": ["n.k"], "sp.n.k": ["sp.n.k"], "doc.n.k": ["doc.n.k"], "tuple": ("a", "doc.b", "sp.c.d"), "list1": ["k"],
        "none": None, "callable": "callable"}


class Groupby(Contract):
    target = f"{PRJ}.JobsCursor.groupby"
    properties = ("C07",)
    ctx_class = GroupCtx
    callees = {f"{PRJ}.Project.find_jobs": stub_find_jobs}
    assumptions = ("grouping keys are (possibly nested, i.e. dotted) names with an optional sp./doc. namespace",
                   "itertools.groupby over a list sorted by the same key function partitions it into maximal runs of equal labels (library contract)")

    def cases(self):
        return [{"key": k, "default": d, "filter": f} for k in KEYS for d in (False, True) for f in ("none", "other-key", "same-key")]

    def the_key(self, case):
        k = case["key"]
        if k in ("k", "sp.k", "doc.k", "n.k", "sp.n.k", "doc.n.k"):
            return k
        if k == "tuple":
            return ("a", "doc.b", "sp.c.d")
        if k == "list1":
            return ["k"]
        if k == "none":
            return None
        return NativeStub(lambda job: ("user-label",), "user key function")

    def setup(self, interp, case):
        rp = interp.repo
        rp.load(PRJ)
        cur = Obj(rp.classes[f"{PRJ}.JobsCursor"])
        key = self.the_key(case)
        first = key if isinstance(key, str) else (key[0] if isinstance(key, (tuple, list)) else "k")
        flt = {"none": None, "other-key": {"zz": SCond("other")}, "same-key": {first: SCond("same")}}[case["filter"]]
        cur.fields.update(_project=Obj(rp.classes[f"{PRJ}.Project"]), _filter=flt, _id_cache=None, _next_iter=None)
        default = ("the-default",) if case["default"] else None
        return [cur], {"key": key, "default": default}, {"flt": dict(flt) if flt else None, "key": key, "default": default}

    def post(self, interp, case, pre, outcome):
        ex, g = interp.ex, interp.ctx.ghost
        if outcome[0] != "return":
            ex.oblige(self.oname("raises:nothing_for_flat_keys"), False, note=repr(outcome[1]))
            return
        key, default = pre["key"], pre["default"]
        fj = g.get("find_jobs", [])
        srt, grp = g.get("sorted"), g.get("groupby")
        wired = len(fj) == 1 and srt is not None and grp is not None and isinstance(srt[0], SJobs) and grp[0] == ("sorted", srt[0]) and srt[1] is grp[1] and srt[1] is not None
        ex.oblige(self.oname("ensures:groups_are_the_runs_of_the_selected_jobs_sorted_and_grouped_by_one_and_the_same_key_function"), z3.BoolVal(bool(wired)))
        if not wired:
            return
        x = z3.Const("gx", Id)
        keys = [key] if isinstance(key, str) else (list(key) if isinstance(key, (tuple, list)) else [])
        want = sem(pre["flt"], x)
        if default is None:
            want = z3.And(want, *[HAS(k)(x) for k in keys])
        ex.oblige(self.oname("ensures:exactly_the_jobs_the_cursor_selects_(and_that_have_every_grouping_key_when_no_default_is_given)_are_grouped"),
                  z3.ForAll([x], sem(fj[0], x) == want), note=f"filter handed to find_jobs: {fj[0]!r}")
        # the label of a job is its own value for the key(s): looked up level by level in the right namespace; with a default, the
        # default exactly when some level is missing; without one, every level is there (the filter guarantees it) or KeyError
        def want_of(k):
            ns, name = norm(k).split(".", 1)
            return ns, tuple(name.split("."))

        def check_one(lab, k):
            ns, path = want_of(k)
            all_present = z3.And(*[z3.Bool("has[" + ns + "." + ".".join(path[:i + 1]) + "]") for i in range(len(path))])
            if isinstance(lab, SMapTok):
                return z3.And(z3.BoolVal(lab.ns == ns and lab.path == path), all_present)
            return z3.And(z3.BoolVal(default is not None and lab is default), z3.Not(all_present))
        try:
            label = ("value", interp.call(srt[1], [SJobTok()], {}))
        except RaiseSignal as e:
            label = ("raise", e.exc)
        if key is None:
            ok = z3.BoolVal(label == ("value", ("own-id",)))
        elif not isinstance(key, (str, tuple, list)):
            ok = z3.BoolVal(label == ("value", ("user-label",)))
        elif label[0] == "raise":
            # only without a default, and only when the job lacks the key (such jobs are not selected: the has-every-key filter)
            ks = [key] if isinstance(key, str) else list(key)
            missing = z3.Or(*[z3.Not(z3.And(*[z3.Bool("has[" + want_of(k)[0] + "." + ".".join(want_of(k)[1][:i + 1]) + "]") for i in range(len(want_of(k)[1]))])) for k in ks])
            ok = z3.And(z3.BoolVal(isinstance(label[1], KeyError) and default is None), missing)
        elif isinstance(key, str):
            ok = check_one(label[1], key)
        else:
            labs = label[1]
            if not isinstance(labs, tuple) or len(labs) != len(key):
                ok = z3.BoolVal(False)
            else:
                # the code lists state point keys first, then document keys
                order = [k for k in key if not norm(k).startswith("doc.")] + [k for k in key if norm(k).startswith("doc.")]
                ok = z3.And(*[check_one(lv, k) for lv, k in zip(labs, order)])
        ex.oblige(self.oname("ensures:the_label_of_a_job_is_its_own_value_for_the_grouping_key(s)"), ok, note=f"label {label!r}")


CONTRACTS = [Groupby()]
