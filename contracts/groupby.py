"""Sidecar contract for JobsCursor.groupby (C07): which jobs are grouped, and by which label.

Filters are given their meaning by a small evaluator over the dict the code builds: `{"$and": [f, g]}` is conjunction, an entry
`key: {"$exists": True}` is HAS[key](job), an entry `key: <cond>` with an opaque condition token is COND[cond](job) (what such a filter
selects is the business of the _find_result / _find_expression contracts, C06).  Keys are compared after the namespace normalisation
proved for _add_prefix (a key without namespace is a state point key).  The cursor's own filter ranges over: none, a condition on another
key, a condition on the very key that is grouped by.  Dotted (nested) grouping keys are known finding F6 and are not in the precondition."""
import itertools
import warnings

import z3

from pyvc.core import NativeStub, RaiseSignal, SBool, Sym, Unsupported
from pyvc.interp import Obj
from pyvc.theory_j import Id
from pyvc.verify import Contract, Ctx

PRJ = "signac.project"


def norm(key):
    return key if key.startswith(("sp.", "doc.")) else "sp." + key


def HAS(key):
    return z3.Function(f"HAS[{norm(key)}]", Id, z3.BoolSort())


class SCond(Sym):
    """an opaque condition on one key (e.g. {"$gt": 3})"""

    def __init__(self, name):
        self.name = name
        self.f = z3.Function(f"COND[{name}]", Id, z3.BoolSort())


def sem(flt, x):
    """meaning of a filter mapping at job x"""
    if flt is None:
        return z3.BoolVal(True)
    if not isinstance(flt, dict):
        raise Unsupported(f"filter of type {type(flt).__name__}")
    cs = []
    for k, v in flt.items():
        if k == "$and":
            if not isinstance(v, list):
                raise Unsupported("$and argument")
            cs += [sem(f, x) for f in v]
        elif isinstance(k, str) and not k.startswith("$"):
            if isinstance(v, SCond):
                cs.append(v.f(x))
            elif v == {"$exists": True}:
                cs.append(HAS(k)(x))
            else:
                raise Unsupported(f"filter entry {k!r}: {v!r}")
        else:
            raise Unsupported(f"filter operator {k!r}")
    return z3.And(*cs) if cs else z3.BoolVal(True)


class SJobs(Sym):
    def __init__(self, flt):
        self.flt = flt


class SMapTok(Sym):
    def __init__(self, ns):
        self.ns = ns

    def sym_getitem(self, ex, k):
        return ("own-value", self.ns, k)

    def sym_getattr(self, ex, name):
        if name == "get":
            return NativeStub(lambda k, d=None: ("own-value-or-default", self.ns, k, d), "mapping.get")
        raise Unsupported(f"mapping.{name}")


class SJobTok(Sym):
    def sym_getattr(self, ex, name):
        if name == "cached_statepoint" or name == "sp" or name == "statepoint":
            return SMapTok("sp")
        if name in ("document", "doc"):
            return SMapTok("doc")
        if name == "id":
            return ("own-id",)
        raise Unsupported(f"job.{name}")


class GroupCtx(Ctx):
    def __init__(self, contract, case):
        super().__init__(contract, case)
        self.externals[warnings.warn] = lambda interp, *a, **k: None
        self.externals[itertools.groupby] = self.x_groupby

    def x_groupby(self, interp, seq, key=None):
        self.ghost["groupby"] = (seq, key)
        return []

    def iter_of(self, interp, v):
        return v

    def builtin_hook(self, interp, f, args, kw):
        if f is sorted and len(args) == 1:
            self.ghost["sorted"] = (args[0], kw.get("key"))
            return ("sorted", args[0])
        return super().builtin_hook(interp, f, args, kw)


def stub_find_jobs(interp, b):
    if b.get("doc_filter") is not None:
        raise Unsupported("find_jobs call shape")
    interp.ctx.ghost.setdefault("find_jobs", []).append(b["filter"])
    return SJobs(b["filter"])


KEYS = {"k": ["k"], "sp.k": ["sp.k"], "doc.k": ["doc.k"], "tuple": ("a", "doc.b", "sp.c"), "list1": ["k"], "none": None, "callable": "callable"}


class Groupby(Contract):
    target = f"{PRJ}.JobsCursor.groupby"
    properties = ("C07",)
    ctx_class = GroupCtx
    callees = {f"{PRJ}.Project.find_jobs": stub_find_jobs}
    assumptions = ("grouping keys are flat names with an optional sp./doc. namespace (nested keys: known finding F6)",
                   "itertools.groupby over a list sorted by the same key function partitions it into maximal runs of equal labels (library contract)")

    def cases(self):
        return [{"key": k, "default": d, "filter": f} for k in KEYS for d in (False, True) for f in ("none", "other-key", "same-key")]

    def the_key(self, case):
        k = case["key"]
        if k in ("k", "sp.k", "doc.k"):
            return k
        if k == "tuple":
            return ("a", "doc.b", "sp.c")
        if k == "list1":
            return ["k"]
        if k == "none":
            return None
        return NativeStub(lambda job: ("user-label",), "user key function")

    def setup(self, interp, case):
        rp = interp.repo
        rp.load(PRJ)
        cur = Obj(rp.classes[f"{PRJ}.JobsCursor"])
        key = self.the_key(case)
        first = key if isinstance(key, str) else (key[0] if isinstance(key, (tuple, list)) else "k")
        flt = {"none": None, "other-key": {"zz": SCond("other")}, "same-key": {first: SCond("same")}}[case["filter"]]
        cur.fields.update(_project=Obj(rp.classes[f"{PRJ}.Project"]), _filter=flt, _id_cache=None, _next_iter=None)
        default = ("the-default",) if case["default"] else None
        return [cur], {"key": key, "default": default}, {"flt": dict(flt) if flt else None, "key": key, "default": default}

    def post(self, interp, case, pre, outcome):
        ex, g = interp.ex, interp.ctx.ghost
        if outcome[0] != "return":
            ex.oblige(self.oname("raises:nothing_for_flat_keys"), False, note=repr(outcome[1]))
            return
        key, default = pre["key"], pre["default"]
        fj = g.get("find_jobs", [])
        srt, grp = g.get("sorted"), g.get("groupby")
        wired = len(fj) == 1 and srt is not None and grp is not None and isinstance(srt[0], SJobs) and grp[0] == ("sorted", srt[0]) and srt[1] is grp[1] and srt[1] is not None
        ex.oblige(self.oname("ensures:groups_are_the_runs_of_the_selected_jobs_sorted_and_grouped_by_one_and_the_same_key_function"), z3.BoolVal(bool(wired)))
        if not wired:
            return
        x = z3.Const("gx", Id)
        keys = [key] if isinstance(key, str) else (list(key) if isinstance(key, (tuple, list)) else [])
        want = sem(pre["flt"], x)
        if default is None:
            want = z3.And(want, *[HAS(k)(x) for k in keys])
        ex.oblige(self.oname("ensures:exactly_the_jobs_the_cursor_selects_(and_that_have_every_grouping_key_when_no_default_is_given)_are_grouped"),
                  z3.ForAll([x], sem(fj[0], x) == want), note=f"filter handed to find_jobs: {fj[0]!r}")
        # the label of a job is its own value for the key(s)
        label = interp.call(srt[1], [SJobTok()], {})

        def own(k):
            ns, name = norm(k).split(".", 1)
            return ("own-value", ns, name) if default is None else ("own-value-or-default", ns, name, default)
        if isinstance(key, str):
            ok = label == own(key)
        elif isinstance(key, (tuple, list)):
            ok = isinstance(label, tuple) and sorted(map(repr, label)) == sorted(repr(own(k)) for k in key)
        elif key is None:
            ok = label == ("own-id",)
        else:
            ok = label == ("user-label",)
        ex.oblige(self.oname("ensures:the_label_of_a_job_is_its_own_value_for_the_grouping_key(s)"), z3.BoolVal(bool(ok)), note=f"label {label!r}")


CONTRACTS = [Groupby()]
