"""Sidecar contracts for signac/_search_indexer.py (property C06, shared by C07/C18)."""
import math
import operator
import re

import z3

from pyvc.core import CutSeq, NativeStub, RaiseSignal, SBool, SInt, Sym, Unsupported
from pyvc.interp import LoopSpec
from pyvc.theory_j import (EX_idx, FA_id, FA_idx, Id, J, SId, SJ, SJList, SReal, SymSet, as_symset, comparable, is_num, isclose_f, isinst, keyeq,
                           num, pyeq, pyle, pylt, re_search, tup_axioms, tcontains)
from pyvc.verify import Contract, Ctx

M = "signac._search_indexer"


# ----------------------------------------------------------------------------- abstract view of a _TypedSetDefaultDict


class SymIndex(Sym):
    """Abstract `_TypedSetDefaultDict` built by build_index(key): n distinct keys key(j) and buckets ids(j, x).

    Ghost: defined(x) / val(x) = the (hashable) value of document x under the indexed key.
    WF:  keys pairwise not keyeq;  ids(j,x) <=> defined(x) & keyeq(key j, val x);  every defined x is covered."""

    def __init__(self, ex, tag="ix"):
        self.n = z3.Int(ex.fresh_name(f"n_{tag}"))
        self.key = z3.Function(ex.fresh_name(f"key_{tag}"), z3.IntSort(), J)
        self.ids = z3.Function(ex.fresh_name(f"ids_{tag}"), z3.IntSort(), Id, z3.BoolSort())
        self.defined = z3.Function(ex.fresh_name(f"def_{tag}"), Id, z3.BoolSort())
        self.val = z3.Function(ex.fresh_name(f"val_{tag}"), Id, J)
        self.touched = False

    def wf(self):
        j, k = z3.Ints("wj wk")
        return [self.n >= 0,
                z3.ForAll([j, k], z3.Implies(z3.And(0 <= j, j < k, k < self.n), z3.Not(keyeq(self.key(j), self.key(k))))),
                FA_idx(0, self.n, lambda jj: FA_id(lambda x: self.ids(jj, x) == z3.And(self.defined(x), keyeq(self.key(jj), self.val(x))))),
                FA_id(lambda x: z3.Implies(self.defined(x), EX_idx(0, self.n, lambda jj: keyeq(self.key(jj), self.val(x)))))]

    def sym_iter(self, ex):
        def at(interp, i):
            v = SJ(self.key(i))
            v.origin = (self, i)
            return v
        return CutSeq(self.n, at, label="index")

    def bucket_of(self, v):
        """set stored under the key that is keyeq to v (empty if none)"""
        e = v.e
        return SymSet(lambda x: EX_idx(0, self.n, lambda j: z3.And(keyeq(self.key(j), e), self.ids(j, x))))

    def sym_getitem(self, ex, k):
        if isinstance(k, SJ) and getattr(k, "origin", None) and k.origin[0] is self:
            i = k.origin[1]
            return SymSet(lambda x: self.ids(i, x))
        raise Unsupported("index[...] with a key that does not come from iterating the index")

    def sym_getattr(self, ex, name):
        if name == "get":
            def get(k, default=None):
                if not isinstance(k, SJ):
                    raise Unsupported("index.get with non-J key")
                present = EX_idx(0, self.n, lambda j: keyeq(self.key(j), k.e))
                if ex.decide(present, "index.get:present"):
                    return self.bucket_of(k)
                return default
            return NativeStub(get, "index.get")
        if name == "values":
            return NativeStub(lambda: IndexValues(self), "index.values")
        raise Unsupported(f"index.{name}")

    def sym_len(self, ex):
        return SInt(self.n)

    def sym_truth(self, ex):
        return self.n > 0


class IndexValues(Sym):
    def __init__(self, ix):
        self.ix = ix


# ----------------------------------------------------------------------------- context: Python-level models used by this module


class SearchCtx(Ctx):
    OPS = {operator.lt: "Lt", operator.le: "LtE", operator.gt: "Gt", operator.ge: "GtE"}

    def __init__(self, contract, case):
        super().__init__(contract, case)
        self.externals[re.search] = self.m_re_search
        self.externals[math.isclose] = self.m_isclose

    def m_re_search(self, interp, pattern, string, flags=0):
        if isinstance(string, SJ) and isinstance(pattern, SJ):
            interp.ex.assumptions_used.add("regex engine uninterpreted: re.search(p, s) is an unknown predicate of (p, s)")
            return SBool(re_search(pattern.e, J.s(string.e)))
        raise Unsupported("re.search shape")

    @staticmethod
    def real_of(v):
        if isinstance(v, SReal):
            return v.e
        if isinstance(v, SJ):
            return num(v.e)
        if isinstance(v, (int, float)):
            return z3.RealVal(repr(float(v)))
        raise Unsupported(f"real_of {type(v).__name__}")

    def m_isclose(self, interp, a, b, rel_tol=1e-09, abs_tol=0.0):
        ex = interp.ex
        if isinstance(a, SJ):
            if not ex.decide(is_num(a.e), "isclose:numeric"):
                raise RaiseSignal(TypeError("must be real number"))
        ex.assumptions_used.add("math.isclose uninterpreted (wiring of value / argument / tolerances is what is verified)")
        return SBool(isclose_f(self.real_of(a), self.real_of(b), self.real_of(rel_tol), self.real_of(abs_tol)))

    def builtin_hook(self, interp, f, args, kw):
        ex = interp.ex
        if f in self.OPS:
            return interp.compare(self.OPS[f], args[0], args[1])
        if f is operator.eq:
            return interp.py_eq(args[0], args[1])
        if f is operator.ne:
            return interp.compare("NotEq", args[0], args[1])
        if f is float and len(args) == 1:
            a = args[0]
            if isinstance(a, SJ):
                if not ex.decide(is_num(a.e), "float():numeric"):
                    raise Unsupported("float() of a non-numeric J (string parsing not modelled)")
                return SReal(num(a.e))
            if isinstance(a, SReal):
                return a
        return NotImplemented


# ----------------------------------------------------------------------------- specification of the operators (from the documented grammar)


def opspec(op, v, arg):
    """Does value v (J term) satisfy `op arg` under direct evaluation?  arg: per-operator payload."""
    if op == "$eq":
        return pyeq(v, arg)
    if op == "$ne":
        return z3.Not(pyeq(v, arg))
    if op == "$lt":
        return pylt(v, arg)
    if op == "$lte":
        return pyle(v, arg)
    if op == "$gt":
        return pylt(arg, v)
    if op == "$gte":
        return pyle(arg, v)
    if op == "$in":
        return EX_idx(0, arg.n, lambda k: pyeq(v, arg.at(k)))
    if op == "$nin":
        return z3.Not(EX_idx(0, arg.n, lambda k: pyeq(v, arg.at(k))))
    if op == "$regex":
        return z3.And(J.is_S(v), re_search(arg, J.s(v)))
    if op == "$type":
        return isinst(v, arg)
    if op == "$near":
        a, rel, ab = arg
        return isclose_f(num(v), a, rel, ab)
    raise KeyError(op)


TYPES = {"int": int, "float": float, "bool": bool, "str": str, "list": tuple, "null": type(None)}


class FindWithIndexOperator(Contract):
    target = f"{M}._find_with_index_operator"
    properties = ("C06",)
    ctx_class = SearchCtx
    assumptions = ("tuple values: teq is an equivalence and a congruence for < and `in`",)

    def cases(self):
        cs = [{"op": o} for o in ("$eq", "$ne", "$lt", "$lte", "$gt", "$gte", "$in", "$nin", "$regex")]
        cs += [{"op": "$type", "targ": t} for t in TYPES]
        cs += [{"op": "$near", "shape": s} for s in (0, 1, 2, 3)]
        return cs

    def loops(self, case):
        def inv(interp, fr, i, seq):
            ix, spec = interp.ctx.ghost["ix"], interp.ctx.ghost["spec"]
            matches = as_symset(interp.lookup(fr, "matches"))
            return FA_id(lambda x: matches.member(x) == EX_idx(0, i, lambda j: z3.And(spec(ix.key(j)), ix.ids(j, x))))
        return {"index": LoopSpec("index", inv, havoc={"matches": lambda interp, fr, tag: SymSet.fresh(interp.ex, tag)}, scratch=("value",))}

    def setup(self, interp, case):
        ex = interp.ex
        op = case["op"]
        ix = SymIndex(ex)
        for a in ix.wf() + tup_axioms():
            ex.assume(a)
        if op in ("$in", "$nin"):
            arg = SJList.fresh(ex, "arg")
            specarg = arg
        elif op == "$type":
            arg = case["targ"]
            specarg = TYPES[arg]
        elif op == "$near":
            a0 = z3.Const("near_a", J)
            rel, ab = z3.Const("near_rel", J), z3.Const("near_abs", J)
            ex.assume(z3.And(is_num(a0), is_num(rel), is_num(ab)))
            shape = case["shape"]
            arg = SJ(a0) if shape == 0 else [SJ(a0), SJ(rel), SJ(ab)][:shape]
            specarg = (num(a0), num(rel) if shape >= 2 else z3.RealVal("1e-9"), num(ab) if shape >= 3 else z3.RealVal(0))
            # well-typed: only numeric values are compared with $near
            ex.assume(FA_idx(0, ix.n, lambda j: is_num(ix.key(j))))
        else:
            a0 = z3.Const("arg", J)
            arg = SJ(a0)
            specarg = a0
            if op in ("$lt", "$lte", "$gt", "$gte"):
                # well-typed: Python can order every indexed value against the argument
                ex.assume(FA_idx(0, ix.n, lambda j: comparable(ix.key(j), a0)))
        spec = lambda v: opspec(op, v, specarg)
        # ghost bindings visible to the loop invariant (not to the code: names are not valid identifiers of the function)
        pre = {"ix": ix, "spec": spec}
        interp.ctx.ghost.update(pre)
        return [ix, op, arg], {}, pre

    def post(self, interp, case, pre, outcome):
        ex = interp.ex
        ix, spec = pre["ix"], pre["spec"]
        if outcome[0] == "raise":
            ex.oblige(self.oname("raises:none_for_well_typed_input"), False, note=repr(outcome[1]))
            return
        r = outcome[1]
        if not isinstance(r, SymSet):
            ex.oblige(self.oname("ensures:result_is_a_set"), False)
            return
        ex.oblige(self.oname("ensures:result_is_exactly_the_ids_whose_value_satisfies_op"),
                  r.eq_spec(lambda x: z3.And(ix.defined(x), spec(ix.val(x)))))


CONTRACTS = [FindWithIndexOperator()]
