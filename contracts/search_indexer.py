"""Sidecar contracts for signac/_search_indexer.py (property C06, shared by C07/C18)."""
import math
import operator
import re

import z3

from pyvc.core import CutSeq, NativeStub, RaiseSignal, SBool, SInt, Sym, Unsupported
from pyvc.interp import LoopSpec
from pyvc.theory_j import (EX_idx, FA_id, FA_idx, Id, J, SId, SJ, SJList, SReal, SymSet, as_symset, comparable, is_num, isclose_f, isinst, keyeq,
                           num, pyeq, pyle, pylt, re_search, tup_axioms, tcontains)
from pyvc.verify import Contract, Ctx

M = "signac._search_indexer"


# ----------------------------------------------------------------------------- abstract view of a _TypedSetDefaultDict


class SymIndex(Sym):
    """Abstract `_TypedSetDefaultDict` built by build_index(key): n distinct keys key(j) and buckets ids(j, x).

    Ghost: defined(x) / val(x) = the (hashable) value of document x under the indexed key.
    WF:  keys pairwise not keyeq;  ids(j,x) <=> defined(x) & keyeq(key j, val x);  every defined x is covered."""

    def __init__(self, ex, tag="ix"):
        self.n = z3.Int(ex.fresh_name(f"n_{tag}"))
        self.key = z3.Function(ex.fresh_name(f"key_{tag}"), z3.IntSort(), J)
        self.ids = z3.Function(ex.fresh_name(f"ids_{tag}"), z3.IntSort(), Id, z3.BoolSort())
        self.defined = z3.Function(ex.fresh_name(f"def_{tag}"), Id, z3.BoolSort())
        self.val = z3.Function(ex.fresh_name(f"val_{tag}"), Id, J)
        self.touched = False

    def wf(self):
        j, k = z3.Ints("wj wk")
        return [self.n >= 0,
                z3.ForAll([j, k], z3.Implies(z3.And(0 <= j, j < k, k < self.n), z3.Not(keyeq(self.key(j), self.key(k))))),
                FA_idx(0, self.n, lambda jj: FA_id(lambda x: self.ids(jj, x) == z3.And(self.defined(x), keyeq(self.key(jj), self.val(x))))),
                FA_id(lambda x: z3.Implies(self.defined(x), EX_idx(0, self.n, lambda jj: keyeq(self.key(jj), self.val(x)))))]

    def sym_iter(self, ex):
        def at(interp, i):
            v = SJ(self.key(i))
            v.origin = (self, i)
            return v
        return CutSeq(self.n, at, label="index")

    def bucket_of(self, v):
        """set stored under the key that is keyeq to v (empty if none)"""
        e = v.e
        return SymSet(lambda x: EX_idx(0, self.n, lambda j: z3.And(keyeq(self.key(j), e), self.ids(j, x))))

    def sym_getitem(self, ex, k):
        if isinstance(k, SJ) and getattr(k, "origin", None) and k.origin[0] is self:
            i = k.origin[1]
            return SymSet(lambda x: self.ids(i, x))
        raise Unsupported("index[...] with a key that does not come from iterating the index")

    def sym_getattr(self, ex, name):
        if name == "get":
            def get(k, default=None):
                if not isinstance(k, SJ):
                    raise Unsupported("index.get with non-J key")
                present = EX_idx(0, self.n, lambda j: keyeq(self.key(j), k.e))
                if ex.decide(present, "index.get:present"):
                    return self.bucket_of(k)
                return default
            return NativeStub(get, "index.get")
        if name == "values":
            return NativeStub(lambda: IndexValues(self), "index.values")
        raise Unsupported(f"index.{name}")

    def sym_len(self, ex):
        return SInt(self.n)

    def sym_truth(self, ex):
        return self.n > 0


class IndexValues(Sym):
    def __init__(self, ix):
        self.ix = ix


# ----------------------------------------------------------------------------- context: Python-level models used by this module


class SearchCtx(Ctx):
    OPS = {operator.lt: "Lt", operator.le: "LtE", operator.gt: "Gt", operator.ge: "GtE"}

    def __init__(self, contract, case):
        super().__init__(contract, case)
        self.externals[re.search] = self.m_re_search
        self.externals[math.isclose] = self.m_isclose

    def m_re_search(self, interp, pattern, string, flags=0):
        if isinstance(string, SJ) and isinstance(pattern, SJ):
            interp.ex.assumptions_used.add("regex engine uninterpreted: re.search(p, s) is an unknown predicate of (p, s)")
            return SBool(re_search(pattern.e, J.s(string.e)))
        raise Unsupported("re.search shape")

    @staticmethod
    def real_of(v):
        if isinstance(v, SReal):
            return v.e
        if isinstance(v, SJ):
            return num(v.e)
        if isinstance(v, (int, float)):
            return z3.RealVal(repr(float(v)))
        raise Unsupported(f"real_of {type(v).__name__}")

    def m_isclose(self, interp, a, b, rel_tol=1e-09, abs_tol=0.0):
        ex = interp.ex
        if isinstance(a, SJ):
            if not ex.decide(is_num(a.e), "isclose:numeric"):
                raise RaiseSignal(TypeError("must be real number"))
        ex.assumptions_used.add("math.isclose uninterpreted (wiring of value / argument / tolerances is what is verified)")
        return SBool(isclose_f(self.real_of(a), self.real_of(b), self.real_of(rel_tol), self.real_of(abs_tol)))

    def builtin_hook(self, interp, f, args, kw):
        ex = interp.ex
        if f in self.OPS:
            return interp.compare(self.OPS[f], args[0], args[1])
        if f is operator.eq:
            return interp.py_eq(args[0], args[1])
        if f is operator.ne:
            return interp.compare("NotEq", args[0], args[1])
        if f is float and len(args) == 1:
            a = args[0]
            if isinstance(a, SJ):
                if not ex.decide(is_num(a.e), "float():numeric"):
                    raise Unsupported("float() of a non-numeric J (string parsing not modelled)")
                return SReal(num(a.e))
            if isinstance(a, SReal):
                return a
        return NotImplemented


# ----------------------------------------------------------------------------- specification of the operators (from the documented grammar)


def opspec(op, v, arg):
    """Does value v (J term) satisfy `op arg` under direct evaluation?  arg: per-operator payload."""
    if op == "$eq":
        return pyeq(v, arg)
    if op == "$ne":
        return z3.Not(pyeq(v, arg))
    if op == "$lt":
        return pylt(v, arg)
    if op == "$lte":
        return pyle(v, arg)
    if op == "$gt":
        return pylt(arg, v)
    if op == "$gte":
        return pyle(arg, v)
    if op == "$in":
        return EX_idx(0, arg.n, lambda k: pyeq(v, arg.at(k)))
    if op == "$nin":
        return z3.Not(EX_idx(0, arg.n, lambda k: pyeq(v, arg.at(k))))
    if op == "$regex":
        return z3.And(J.is_S(v), re_search(arg, J.s(v)))
    if op == "$type":
        return isinst(v, arg)
    if op == "$near":
        a, rel, ab = arg
        return isclose_f(num(v), a, rel, ab)
    raise KeyError(op)


TYPES = {"int": int, "float": float, "bool": bool, "str": str, "list": tuple, "null": type(None)}


class FindWithIndexOperator(Contract):
    target = f"{M}._find_with_index_operator"
    properties = ("C06",)
    ctx_class = SearchCtx
    assumptions = ("tuple values: teq is an equivalence and a congruence for < and `in`",)

    def cases(self):
        cs = [{"op": o} for o in ("$eq", "$ne", "$lt", "$lte", "$gt", "$gte", "$in", "$nin", "$regex")]
        # _find_result hands sequences over as tuples (_to_hashable); a direct caller may pass a list
        cs += [{"op": o, "container": "tuple"} for o in ("$in", "$nin")]
        cs += [{"op": "$type", "targ": t} for t in TYPES]
        cs += [{"op": "$near", "shape": s} for s in (0, 1, 2, 3)]
        return cs

    def loops(self, case):
        def inv(interp, fr, i, seq):
            ix, spec = interp.ctx.ghost["ix"], interp.ctx.ghost["spec"]
            matches = as_symset(interp.lookup(fr, "matches"))
            return FA_id(lambda x: matches.member(x) == EX_idx(0, i, lambda j: z3.And(spec(ix.key(j)), ix.ids(j, x))))
        return {"index": LoopSpec("index", inv, havoc={"matches": lambda interp, fr, tag: SymSet.fresh(interp.ex, tag)}, scratch=("value",))}

    def setup(self, interp, case):
        ex = interp.ex
        op = case["op"]
        ix = SymIndex(ex)
        for a in ix.wf() + tup_axioms():
            ex.assume(a)
        if op in ("$in", "$nin"):
            arg = SJList.fresh(ex, "arg")
            arg.is_list = case.get("container") != "tuple"
            specarg = arg
        elif op == "$type":
            arg = case["targ"]
            specarg = TYPES[arg]
        elif op == "$near":
            a0 = z3.Const("near_a", J)
            rel, ab = z3.Const("near_rel", J), z3.Const("near_abs", J)
            ex.assume(z3.And(is_num(a0), is_num(rel), is_num(ab)))
            shape = case["shape"]
            arg = SJ(a0) if shape == 0 else [SJ(a0), SJ(rel), SJ(ab)][:shape]
            specarg = (num(a0), num(rel) if shape >= 2 else z3.RealVal("1e-9"), num(ab) if shape >= 3 else z3.RealVal(0))
            # well-typed: only numeric values are compared with $near
            ex.assume(FA_idx(0, ix.n, lambda j: is_num(ix.key(j))))
        else:
            a0 = z3.Const("arg", J)
            arg = SJ(a0)
            specarg = a0
            if op in ("$lt", "$lte", "$gt", "$gte"):
                # well-typed: Python can order every indexed value against the argument
                ex.assume(FA_idx(0, ix.n, lambda j: comparable(ix.key(j), a0)))
        spec = lambda v: opspec(op, v, specarg)
        # ghost bindings visible to the loop invariant (not to the code: names are not valid identifiers of the function)
        pre = {"ix": ix, "spec": spec}
        interp.ctx.ghost.update(pre)
        return [ix, op, arg], {}, pre

    def post(self, interp, case, pre, outcome):
        ex = interp.ex
        ix, spec = pre["ix"], pre["spec"]
        if outcome[0] == "raise":
            ex.oblige(self.oname("raises:none_for_well_typed_input"), False, note=repr(outcome[1]))
            return
        r = outcome[1]
        if not isinstance(r, SymSet):
            ex.oblige(self.oname("ensures:result_is_a_set"), False)
            return
        ex.oblige(self.oname("ensures:result_is_exactly_the_ids_whose_value_satisfies_op"),
                  r.eq_spec(lambda x: z3.And(ix.defined(x), spec(ix.val(x)))))


CONTRACTS = [FindWithIndexOperator()]


# ============================================================================= _SearchIndexer._find_result
# Abstract view of a JSON-normalised filter dict (what _find_result can observe of it):
#   presence of "_id" / "$or" / "$and" / "$not", the leaves of the remaining mapping (after flattening), the sub-filter sequences.
# Specification: the per-job matcher M(x, f), given by its one-level unfolding over this view.

Flt = z3.DeclareSort("Flt")
Leaf = z3.DeclareSort("Leaf")
Mf = z3.Function("M", Id, Flt, z3.BoolSort())      # job x of this indexer satisfies (sub)filter f under direct evaluation
Lf = z3.Function("L", Id, Leaf, z3.BoolSort())     # job x satisfies leaf expression l (= contract of _find_expression)
INSELF = z3.Function("inself", Id, z3.BoolSort())  # ids of this indexer


class SOptSet(Sym):
    """Optional[set of ids] with symbolic None-ness (the local `result_ids`)."""

    def __init__(self, isnone, member):
        self.isnone, self.member = isnone, member

    def sym_is(self, ex, other):
        if other is None:
            return SBool(self.isnone)
        raise Unsupported("`is` on optional set")

    def sym_truth(self, ex):
        return z3.And(z3.Not(self.isnone), SymSet(self.member).nonempty())

    def sym_getattr(self, ex, name):
        # only reachable where the code has established `is not None`
        ex.oblige("signac._search_indexer._SearchIndexer._find_result#safety:no_method_call_on_None", z3.Not(self.isnone))
        ex.assume(z3.Not(self.isnone))
        return SymSet(self.member).sym_getattr(ex, name)


def opt_view(v):
    if v is None:
        return z3.BoolVal(True), (lambda x: z3.BoolVal(False))
    if isinstance(v, SOptSet):
        return v.isnone, v.member
    s = as_symset(v)
    return z3.BoolVal(False), s.member


class SubFilter(Sym):
    def __init__(self, term):
        self.term = term

    def sym_is(self, ex, other):
        if other is None:
            return False
        raise Unsupported("`is` on sub-filter")


class SFltSeq(Sym):
    """JSON-normalised list of sub-filters ($and / $or argument)."""

    def __init__(self, n, at, label):
        self.n, self.at, self.label = n, at, label

    def sym_is(self, ex, other):
        if other is None:
            return False
        raise Unsupported("`is` on filter list")

    def sym_isinstance(self, ex, cls):
        return cls in (list, object)

    def sym_len(self, ex):
        return SInt(self.n)

    def sym_truth(self, ex):
        return self.n > 0

    def sym_iter(self, ex):
        return CutSeq(self.n, lambda interp, i: SubFilter(self.at(i)), label=self.label)


class SLeafPart(Sym):
    def __init__(self, leaf, which):
        self.leaf, self.which = leaf, which


class SFilter(Sym):
    KEYS = ("_id", "$or", "$and", "$not")

    def __init__(self, tag="e"):
        self.term = z3.Const("f!" + tag, Flt)
        self.empty = z3.Bool("empty!" + tag)
        self.has = {k: z3.Bool(f"has{k}!{tag}") for k in self.KEYS}
        self.idval = z3.Const("idval!" + tag, Id)
        self.nleaf = z3.Int("nleaf!" + tag)
        self.leaf = z3.Function("leaf!" + tag, z3.IntSort(), Leaf)
        self.nand = z3.Int("nand!" + tag)
        self.andf = z3.Function("and!" + tag, z3.IntSort(), Flt)
        self.nor = z3.Int("nor!" + tag)
        self.orf = z3.Function("or!" + tag, z3.IntSort(), Flt)
        self.notf = z3.Const("not!" + tag, Flt)
        self.popped = set()

    def matcher_unfolding(self):
        """M(x, this filter) by direct evaluation, one level (the specification, not the code)."""
        def body(x):
            return z3.And(INSELF(x),
                          z3.Implies(self.has["_id"], x == self.idval),
                          FA_idx(0, self.nleaf, lambda k: Lf(x, self.leaf(k))),
                          z3.Implies(self.has["$not"], z3.Not(Mf(x, self.notf))),
                          z3.Implies(self.has["$and"], FA_idx(0, self.nand, lambda k: Mf(x, self.andf(k)))),
                          z3.Implies(self.has["$or"], EX_idx(0, self.nor, lambda k: Mf(x, self.orf(k)))))
        mx, mg = z3.Const("mx", Id), z3.Const("mg", Flt)
        return [FA_id(lambda x: Mf(x, self.term) == z3.If(self.empty, INSELF(x), body(x))),
                self.nleaf >= 0, self.nand >= 0, self.nor >= 0,
                # a non-empty mapping has at least one key; an empty one has none
                z3.Implies(z3.Not(self.empty), z3.Or(self.nleaf >= 1, *self.has.values())),
                z3.Implies(self.empty, z3.And(self.nleaf == 0, *[z3.Not(h) for h in self.has.values()])),
                # M only ever holds for ids of this indexer
                z3.ForAll([mx, mg], z3.Implies(Mf(mx, mg), INSELF(mx)))]

    def sym_truth(self, ex):
        if self.popped:
            raise Unsupported("truthiness of the filter after keys were popped")
        return z3.Not(self.empty)

    def sym_getattr(self, ex, name):
        if name == "pop":
            def pop(key, default=None):
                if key not in self.has or default is not None:
                    raise Unsupported(f"filter.pop({key!r})")
                self.popped.add(key)
                if not ex.decide(self.has[key], "has " + key):
                    return None
                if key == "_id":
                    return SId(self.idval)
                if key == "$not":
                    return SubFilter(self.notf)
                return SFltSeq(self.nand, self.andf, "and_expressions") if key == "$and" else SFltSeq(self.nor, self.orf, "or_expressions")
            return NativeStub(pop, "filter.pop")
        raise Unsupported(f"filter.{name}")


class SLeafSeq(Sym):
    def __init__(self, flt):
        self.flt = flt

    def sym_iter(self, ex):
        f = self.flt
        return CutSeq(f.nleaf, lambda interp, i: (SLeafPart(f.leaf(i), "key"), SLeafPart(f.leaf(i), "value")), label="leaves")


class FindResultCtx(SearchCtx):
    def native_override(self, interp, f, args, kw):
        if f is set and not args:
            return SymSet.empty()
        return NotImplemented

    def make_set(self, ex, vals):
        return as_symset(vals)

    def setify(self, interp, v):
        if v is self.ghost.get("self"):
            return SymSet(lambda x: INSELF(x))
        if isinstance(v, SymSet):
            return v.copy()
        raise Unsupported("set() of this value")

    def dep_call(self, interp, o, name, args, kw, via_super=False):
        if o is self.ghost.get("self") and name == "__contains__" and isinstance(args[0], SId):
            return SBool(INSELF(args[0].e))
        return super().dep_call(interp, o, name, args, kw, via_super)


def stub_flatten(interp, b):
    o = b["d"]
    if not isinstance(o, SFilter) or b.get("key") is not None:
        raise Unsupported("_nested_dicts_to_dotted_keys on this value")
    if not o.popped >= set(SFilter.KEYS):
        raise Unsupported("flattening sees the filter before all logical keys / _id were popped (outside the abstract view)")
    return SLeafSeq(o)


def stub_find_expression(interp, b):
    k, v = b["key"], b["value"]
    if not (isinstance(k, SLeafPart) and isinstance(v, SLeafPart) and k.which == "key" and v.which == "value" and z3.eq(k.leaf, v.leaf)):
        raise Unsupported("_find_expression called with something other than a (key, value) leaf pair")
    if b["self"] is not interp.ctx.ghost.get("self"):
        raise Unsupported("_find_expression on another indexer")
    leaf = k.leaf
    return SymSet(lambda x: z3.And(INSELF(x), Lf(x, leaf)))


def stub_find_result_rec(interp, b):
    sub = b["expr"]
    if not isinstance(sub, SubFilter) or b["self"] is not interp.ctx.ghost.get("self"):
        raise Unsupported("recursive _find_result on something other than a sub-filter of the argument")
    t = sub.term
    return SymSet(lambda x: Mf(x, t))   # induction hypothesis: the contract itself, on a strictly smaller filter


class FindResult(Contract):
    target = f"{M}._SearchIndexer._find_result"
    properties = ("C06",)
    ctx_class = FindResultCtx
    inline = (f"{M}._check_logical_operator_argument",)
    callees = {"signac._utility._nested_dicts_to_dotted_keys": stub_flatten, f"{M}._SearchIndexer._find_expression": stub_find_expression}
    recursive_stub = staticmethod(stub_find_result_rec)
    assumptions = ("filter is JSON-normalised (find() round-trips it through json): $and/$or arguments are lists",
                   "structural induction on the filter: the recursive call is replaced by this contract on the sub-filter")

    def loops(self, case):
        def F(interp):
            return interp.ctx.ghost["F"]

        def idok(F_, x):
            return z3.And(INSELF(x), z3.Implies(F_.has["_id"], x == F_.idval))

        def base(F_, x, upto_leaf, with_not, upto_and):
            return z3.And(idok(F_, x), FA_idx(0, upto_leaf, lambda k: Lf(x, F_.leaf(k))),
                          z3.Implies(z3.And(with_not, F_.has["$not"]), z3.Not(Mf(x, F_.notf))),
                          FA_idx(0, upto_and, lambda k: Mf(x, F_.andf(k))))

        def inv_leaves(interp, fr, i, seq):
            F_ = F(interp)
            isnone, mem = opt_view(interp.lookup(fr, "result_ids"))
            return z3.And(isnone == z3.And(z3.Not(F_.has["_id"]), i == 0),
                          z3.Implies(z3.Not(isnone), FA_id(lambda x: mem(x) == base(F_, x, i, False, 0))))

        def inv_and(interp, fr, i, seq):
            F_ = F(interp)
            isnone, mem = opt_view(interp.lookup(fr, "result_ids"))
            return z3.And(isnone == z3.And(z3.Not(F_.has["_id"]), F_.nleaf == 0, z3.Not(F_.has["$not"]), i == 0),
                          z3.Implies(z3.Not(isnone), FA_id(lambda x: mem(x) == base(F_, x, F_.nleaf, True, i))))

        def inv_or(interp, fr, i, seq):
            F_ = F(interp)
            o = as_symset(interp.lookup(fr, "or_results"))
            return FA_id(lambda x: o.member(x) == EX_idx(0, i, lambda k: Mf(x, F_.orf(k))))

        def hv_opt(interp, fr, tag):
            ex = interp.ex
            f = z3.Function(ex.fresh_name(tag), Id, z3.BoolSort())
            return SOptSet(z3.Bool(ex.fresh_name(tag + "_none")), lambda x: f(x))

        hv_set = lambda interp, fr, tag: SymSet.fresh(interp.ex, tag)
        return {"leaves": LoopSpec("leaves", inv_leaves, havoc={"result_ids": hv_opt}, scratch=("key", "value")),
                "and_expressions": LoopSpec("and", inv_and, havoc={"result_ids": hv_opt}, scratch=("expr_",)),
                "or_expressions": LoopSpec("or", inv_or, havoc={"or_results": hv_set}, scratch=("expr_",))}

    def setup(self, interp, case):
        ex = interp.ex
        F_ = SFilter("e")
        for a in F_.matcher_unfolding():
            ex.assume(a)
        rc = interp.repo.classes[f"{M}._SearchIndexer"] if interp.repo.load(M) else None
        from pyvc.interp import Obj
        selfobj = Obj(rc)
        selfobj.tag = "indexer"
        interp.ctx.ghost.update({"F": F_, "self": selfobj})
        return [selfobj, F_], {}, {"F": F_}

    def post(self, interp, case, pre, outcome):
        ex = interp.ex
        F_ = pre["F"]
        if outcome[0] == "raise":
            exc = outcome[1]
            ok = isinstance(exc, ValueError)
            ex.oblige(self.oname("raises:ValueError_only_for_an_empty_$and/$or_list"),
                      z3.And(z3.BoolVal(ok), z3.Or(z3.And(F_.has["$and"], F_.nand == 0), z3.And(F_.has["$or"], F_.nor == 0))), note=repr(exc))
            return
        v = outcome[1]
        if v is None or not isinstance(v, (SymSet, SOptSet, set)):
            ex.oblige(self.oname("ensures:result_is_a_set"), False)
            return
        isnone, mem = opt_view(v)
        ex.oblige(self.oname("ensures:result_is_a_set"), z3.Not(isnone))
        ex.oblige(self.oname("ensures:result_is_exactly_the_ids_the_matcher_accepts"), FA_id(lambda x: mem(x) == Mf(x, F_.term)))


CONTRACTS.append(FindResult())


# ============================================================================= _SearchIndexer._find_expression
# key = <base>[.<operator>]; the base is an opaque dotted key without '$', the operator suffix is concrete (one VC family each).


class SKeyE(Sym):
    """a filter key: opaque base (no '$') plus an optional concrete operator suffix"""

    def __init__(self, base, op):
        self.base, self.op = base, op

    def sym_contains(self, ex, x):
        if x == "$":
            return self.op is not None
        raise Unsupported("substring test on a filter key")

    def sym_getattr(self, ex, name):
        if name == "count":
            return NativeStub(lambda s: (1 if self.op is not None else 0) if s == "$" else (_ for _ in ()).throw(Unsupported("count")), "str.count")
        if name == "split":
            def split(sep):
                if sep != ".":
                    raise Unsupported("split separator")
                return SNodes(self.base, self.op)
            return NativeStub(split, "str.split")
        raise Unsupported(f"key.{name}")

    def sym_isinstance(self, ex, cls):
        return cls in (str, object)


class SNodes(Sym):
    def __init__(self, base, op):
        self.base, self.op = base, op

    def sym_getitem(self, ex, k):
        if k == -1 and self.op is not None:
            return self.op
        if isinstance(k, slice) and k.start is None and k.stop == -1 and k.step is None and self.op is not None:
            return SNodes(self.base, None)
        raise Unsupported("indexing of the key components")


class FindExprCtx(FindResultCtx):
    def str_join(self, interp, sep, parts):
        if sep == "." and isinstance(parts, SNodes) and parts.op is None:
            return SKeyE(parts.base, None)
        raise Unsupported("str.join shape")

    def instantiate(self, interp, rc, args, kw):
        if rc.name == "_float" and len(args) == 1 and isinstance(args[0], SJ):
            return SJ(J.F(num(args[0].e)))
        return NotImplemented

    def builtin_hook(self, interp, f, args, kw):
        if f is int and len(args) == 1 and isinstance(args[0], SJ):
            # int(v): for an integral v the integer k with k == v (the only way _find_expression uses it); truncation otherwise
            ex = interp.ex
            k = z3.Int(ex.fresh_name("int"))
            r = num(args[0].e)
            ex.assume(z3.If(integral(r), z3.ToReal(k) == r, k == z3.ToInt(r)))
            return SJ(J.I(k))
        return super().builtin_hook(interp, f, args, kw)

    def comprehension(self, interp, node, frame):
        import ast
        if isinstance(node, ast.SetComp) and ast.unparse(node) == "{elem for elems in index.values() for elem in elems}":
            ix = interp.lookup(frame, "index")
            if isinstance(ix, SymIndex):
                return SymSet(lambda x: EX_idx(0, ix.n, lambda j: ix.ids(j, x)))
        return NotImplemented


def integral(r):
    """r is an integer value (z3's is_int mixes badly with datatypes: stated with an explicit integer witness)"""
    k = z3.Int("k!int")
    return z3.Exists([k], r == z3.ToReal(k))


def _sreal_getattr(self, ex, name):
    if name == "is_integer":
        return NativeStub(lambda: SBool(integral(self.e)), "float.is_integer")
    raise Unsupported(f"float.{name}")


SReal.sym_getattr = _sreal_getattr

KeyB = z3.DeclareSort("KeyB")           # an opaque dotted key (base)
DEFD = z3.Function("DEFD", Id, KeyB, z3.BoolSort())      # document x has a value under the dotted key
VALOF = z3.Function("VALOF", Id, KeyB, J)                # ... and this is it (hashable form)


class FindExpression(Contract):
    target = f"{M}._SearchIndexer._find_expression"
    properties = ("C06",)
    ctx_class = FindExprCtx
    assumptions = ("keys are well formed: the base contains no '$'; str.split / '.'.join on keys by the component abstraction",
                   "build_index contract: index of base key b has defined(x) = DEFD(x, b), val(x) = VALOF(x, b), buckets by the typed key equivalence")

    def cases(self):
        cs = [{"op": None}]
        cs += [{"op": o} for o in ("$eq", "$ne", "$lt", "$gte", "$in", "$regex", "$type", "$near")]
        cs += [{"op": "$exists", "arg": True}, {"op": "$exists", "arg": False}, {"op": "$exists", "arg": "bad"}, {"op": "$foo"}, {"op": "nodollar.$"}]
        return cs

    def setup(self, interp, case):
        ex, ctx = interp.ex, interp.ctx
        g = ctx.ghost
        rp = interp.repo
        rp.load(M)
        from pyvc.interp import Obj
        selfobj = Obj(rp.classes[f"{M}._SearchIndexer"])
        selfobj.tag = "indexer"
        base = z3.Const("basekey", KeyB)
        g.update({"self": selfobj, "base": base, "built": [], "fwio": []})
        for a in tup_axioms():
            ex.assume(a)

        def build_index(interp_, b):
            k = b["key"]
            ok = b["self"] is selfobj and isinstance(k, SKeyE) and k.op is None and z3.eq(k.base, base)
            ex.oblige(self.oname("call[build_index]:index_is_built_for_the_base_key_without_the_operator_suffix"), z3.BoolVal(bool(ok)))
            ix = SymIndex(ex, "b%d" % len(g["built"]))
            for a in ix.wf():
                ex.assume(a)
            ex.assume(FA_id(lambda x: z3.And(ix.defined(x) == z3.And(INSELF(x), DEFD(x, base)), ix.val(x) == VALOF(x, base))))
            g["built"].append(ix)
            return ix
        ctx.callee_contracts[f"{M}._SearchIndexer.build_index"] = build_index

        def fwio(interp_, b):
            ix, op, arg = b["index"], b["op"], b["argument"]
            ok = isinstance(ix, SymIndex) and op == case["op"] and arg is g["value"]
            ex.oblige(self.oname("call[_find_with_index_operator]:the_operator_and_argument_of_the_key_on_that_index"), z3.BoolVal(bool(ok)))
            g["fwio"].append(ix)
            f = z3.Function(ex.fresh_name("opsat"), J, z3.BoolSort())       # OPSPEC(op, . , arg): fixed by the callee's contract
            g["opsat"] = f
            return SymSet(lambda x: z3.And(ix.defined(x), f(ix.val(x))))
        ctx.callee_contracts[f"{M}._find_with_index_operator"] = fwio
        op = case["op"]
        if op == "$exists":
            value = case["arg"]
        else:
            value = SJ(z3.Const("value", J))
        g["value"] = value
        key = SKeyE(base, op) if op != "nodollar.$" else SKeyE(base, "nodollar")
        if op == "nodollar.$":
            key.sym_contains = lambda ex_, x: True
        return [selfobj, key, value], {}, {"base": base}

    def post(self, interp, case, pre, outcome):
        ex, g = interp.ex, interp.ctx.ghost
        op, base = case["op"], pre["base"]
        if op in ("$foo", "nodollar.$"):
            ex.oblige(self.oname("raises:KeyError_for_an_unknown_or_misplaced_operator"), z3.BoolVal(outcome[0] == "raise" and isinstance(outcome[1], KeyError)), note=repr(outcome[1]))
            return
        if op == "$exists" and case["arg"] == "bad":
            ex.oblige(self.oname("raises:ValueError_for_a_non_boolean_$exists_argument"), z3.BoolVal(outcome[0] == "raise" and isinstance(outcome[1], ValueError)))
            return
        if outcome[0] == "raise":
            ex.oblige(self.oname("raises:nothing_for_a_well_formed_expression"), False, note=repr(outcome[1]))
            return
        r = outcome[1]
        if not isinstance(r, (SymSet, set)):
            ex.oblige(self.oname("ensures:result_is_a_set"), False)
            return
        r = as_symset(r)
        has = lambda x: z3.And(INSELF(x), DEFD(x, base))
        if op is None:
            v = g["value"].e
            # two arithmetic lemmas, proved on their own (empty context, arbitrary values w, u) and then used as hypotheses:
            #   a numeric value that is not integral is a float;  only a float equals a non-integral number
            from pyvc.core import Obligation
            w, u = z3.Const("lemma_w", J), z3.Const("lemma_u", J)
            l1 = lambda t: z3.Implies(z3.And(is_num(t), z3.Not(integral(num(t)))), J.is_F(t))
            l2 = lambda t, a: z3.Implies(z3.And(is_num(a), z3.Not(integral(num(a))), pyeq(t, a)), J.is_F(t))
            ex.obl.append(Obligation(self.oname("lemma:a_non_integral_number_is_a_float"), [], l1(w), "", "prove"))
            ex.obl.append(Obligation(self.oname("lemma:only_a_float_equals_a_non_integral_number"), [], l2(w, u), "", "prove"))
            ex.assume(l1(v))
            ex.assume(FA_id(lambda x: l2(VALOF(x, base), v)))
            ex.oblige(self.oname("ensures:implicit_equality_selects_exactly_the_documents_whose_value_equals_the_argument_(int/float_alike)"),
                      r.eq_spec(lambda x: z3.And(has(x), pyeq(VALOF(x, base), v))))
        elif op == "$exists":
            ex.oblige(self.oname("ensures:$exists_tests_definedness"), r.eq_spec(lambda x: has(x) if case["arg"] else z3.And(INSELF(x), z3.Not(DEFD(x, base)))))
        else:
            f = g.get("opsat")
            ex.oblige(self.oname("ensures:operator_expressions_are_answered_by_the_index_operator_on_the_base_key"),
                      r.eq_spec(lambda x: z3.And(has(x), f(VALOF(x, base)))) if f is not None else z3.BoolVal(False))


CONTRACTS.append(FindExpression())


# ============================================================================= _SearchIndexer.build_index: the per-key value index
# Raw document values (before the hashable conversion) are abstract (sort Raw): a value is a mapping (RDICT), a list (RLIST) or a scalar;
# a mapping has keys (RHAS / RGET).  The index key of a raw value is KEYJ(v): the hashable tuple of a list, the placeholder for a
# mapping, the value itself otherwise.  `_TypedSetDefaultDict` is used through its contract: buckets are reached up to keyeq
# (dict key equality with floats kept apart -- the very abstraction SymIndex.wf() assumes; the conflation of True/1 inside it is F3).

Raw = z3.DeclareSort("Raw")
RDICT = z3.Function("RDICT", Raw, z3.BoolSort())
RLIST = z3.Function("RLIST", Raw, z3.BoolSort())
REMPTYMAP = z3.Function("REMPTYMAP", Raw, z3.BoolSort())      # the value is the empty mapping {}
RHAS = z3.Function("RHAS", Raw, z3.StringSort(), z3.BoolSort())
RGET = z3.Function("RGET", Raw, z3.StringSort(), Raw)
TOHASH = z3.Function("TOHASH", Raw, J)          # _to_hashable(list)
SCALAR = z3.Function("SCALAR", Raw, J)          # a scalar document value as index key
BI_ID = z3.Function("BI_ID", z3.IntSort(), Id)
BI_DOC = z3.Function("BI_DOC", z3.IntSort(), Raw)
BI_N = z3.Int("bi_n")


def KEYJ(v):
    return z3.If(RLIST(v), TOHASH(v), z3.If(RDICT(v), J.Ph, SCALAR(v)))


class SRaw(Sym):
    def __init__(self, e):
        self.e = e

    def sym_getitem(self, ex, k):
        if not isinstance(k, str):
            raise Unsupported("document subscript with a non-string")
        if ex.decide(z3.And(RDICT(self.e), RHAS(self.e, z3.StringVal(k))), f"has[{k}]"):
            return SRaw(RGET(self.e, z3.StringVal(k)))
        # a missing key is a KeyError, a subscript on a scalar / a list with a string index a TypeError: both mean "no value under this key"
        raise RaiseSignal(KeyError(k) if ex.decide(RDICT(self.e), "is-mapping") else TypeError("not subscriptable with a string"))

    def sym_contains(self, ex, k):
        if isinstance(k, str):
            return SBool(z3.And(RDICT(self.e), RHAS(self.e, z3.StringVal(k))))
        raise Unsupported("`in` document with a non-string")

    def sym_eq(self, ex, other):
        if isinstance(other, dict) and not other:
            # v == {}: true of the empty mapping only (a mapping all the same: RDICT)
            ex.assume(z3.Implies(REMPTYMAP(self.e), RDICT(self.e)))
            return SBool(REMPTYMAP(self.e))
        raise Unsupported(f"== on SRaw vs {type(other).__name__}")

    def sym_type(self, ex):
        return STypeOfRaw(self.e)

    def sym_isinstance(self, ex, cls):
        if cls is list:
            return SBool(RLIST(self.e))
        if cls is dict:
            return SBool(RDICT(self.e))
        raise Unsupported("isinstance of a raw document value")


class STypeOfRaw(Sym):
    def __init__(self, e):
        self.e = e

    def sym_is(self, ex, other):
        if other is list:
            return SBool(RLIST(self.e))
        if other is dict:
            return SBool(RDICT(self.e))
        raise Unsupported("type(v) is <this>")


class SItems(Sym):
    def sym_iter(self, ex):
        def at(interp, i):
            g = interp.ctx.ghost
            g["bi_i"], g["bi_adds"] = i, []
            return (SId(BI_ID(i)), SRaw(BI_DOC(i)))
        return CutSeq(BI_N, at, label="items")


class SIndexerSelf(Sym):
    def sym_getattr(self, ex, name):
        if name == "items":
            return NativeStub(lambda: SItems(), "dict.items")
        raise Unsupported(f"indexer.{name}")


class SBuildIdx(Sym):
    """the _TypedSetDefaultDict under construction: IN(k, x) = id x is in the bucket reached by key k"""

    def __init__(self, ctx):
        self.ctx = ctx
        self.IN = lambda k, x: z3.BoolVal(False)

    def sym_getitem(self, ex, k):
        if isinstance(k, SJ):
            kj = k.e
        elif isinstance(k, SRaw):
            kj = SCALAR(k.e)
        elif getattr(k, "qual", None) == f"{M}._DictPlaceholder":
            kj = J.Ph
        else:
            raise Unsupported("index[...] key")
        return SBucket(self, kj)


class SBucket(Sym):
    def __init__(self, idx, kj):
        self.idx, self.kj = idx, kj

    def sym_getattr(self, ex, name):
        if name == "add":
            def add(x):
                if not isinstance(x, SId):
                    raise Unsupported("bucket.add of a non-id")
                cur, kj, e = self.idx.IN, self.kj, x.e
                self.idx.IN = lambda k, y: z3.Or(cur(k, y), z3.And(keyeq(k, kj), y == e))
                self.idx.ctx.ghost["bi_adds"].append((kj, e))
            return NativeStub(add, "set.add")
        raise Unsupported(f"bucket.{name}")


class BuildIdxCtx(Ctx):
    def instantiate(self, interp, rc, args, kw):
        if rc.name == "_TypedSetDefaultDict" and not args and not kw:
            interp.ex.assumptions_used.add("_TypedSetDefaultDict: a bucket is reached by every key that is keyeq to the one it was created with (dict semantics with floats kept apart)")
            o = SBuildIdx(self)
            self.ghost["idx"] = o
            return o
        return NotImplemented


def stub_to_hashable(interp, b):
    o = b["obj"]
    if isinstance(o, SRaw):
        return SJ(TOHASH(o.e))
    raise Unsupported("_to_hashable argument")


class BuildIndexFn(Contract):
    target = f"{M}._SearchIndexer.build_index"
    properties = ("C06", "C18")
    ctx_class = BuildIdxCtx
    callees = {"signac._utility._to_hashable": stub_to_hashable}

    def cases(self):
        return [{"key": k} for k in ("a", "a.b", "sp.a.b")]

    def nav(self, case, d):
        """(defined, value) of the dotted key in raw document d"""
        ok, v = z3.BoolVal(True), d
        for n in case["key"].split("."):
            ok = z3.And(ok, RDICT(v), RHAS(v, z3.StringVal(n)))
            v = RGET(v, z3.StringVal(n))
        return ok, v

    def spec(self, case, upto):
        j = z3.Int("bj")

        def f(k, x):
            ok, v = self.nav(case, BI_DOC(j))
            return z3.Exists([j], z3.And(0 <= j, j < upto, BI_ID(j) == x, ok, keyeq(k, KEYJ(v))))
        return f

    def loops(self, case):
        k = z3.Const("bk", J)
        x = z3.Const("bx", Id)

        def cur_in(interp, fr):
            v = interp.lookup(fr, "index")
            if not isinstance(v, SBuildIdx):
                raise Unsupported("index is not the typed dict under construction")
            return v

        def inv(interp, fr, i, seq):
            o = cur_in(interp, fr)
            s = self.spec(case, i)
            jj = z3.Int("ij")
            clean = z3.ForAll([jj], z3.Implies(z3.And(0 <= jj, jj < i), z3.Not(RHAS(BI_DOC(jj), z3.StringVal(case["key"]))))) if "." in case["key"] else z3.BoolVal(True)
            return z3.And(z3.ForAll([k, x], o.IN(k, x) == s(k, x)), clean)

        def hv(interp, fr, tag):
            o = cur_in(interp, fr)
            f = z3.Function(interp.ex.fresh_name("IN"), J, Id, z3.BoolSort())
            o.IN = lambda kk, xx, f=f: f(kk, xx)
        return {"items": LoopSpec("documents", inv, havoc={"$index": hv}, scratch=("_id", "doc", "v", "n"), heap_frame=lambda interp, fr, w: None)}

    def setup(self, interp, case):
        ex = interp.ex
        a, b = z3.Ints("ia ib")
        v = z3.Const("rv", Raw)
        ex.assume(z3.And(BI_N >= 0, z3.ForAll([a, b], z3.Implies(z3.And(0 <= a, a < b, b < BI_N), BI_ID(a) != BI_ID(b))),
                         z3.ForAll([a], z3.Implies(z3.And(0 <= a, a < BI_N), RDICT(BI_DOC(a)))), z3.ForAll([v], z3.Not(z3.And(RDICT(v), RLIST(v))))))
        return [SIndexerSelf(), case["key"]], {}, {}

    def post(self, interp, case, pre, outcome):
        from signac.errors import InvalidKeyError
        ex, g = interp.ex, interp.ctx.ghost
        j = z3.Int("pj")
        dotted = "." in case["key"]
        bad = z3.Exists([j], z3.And(0 <= j, j < BI_N, RHAS(BI_DOC(j), z3.StringVal(case["key"])))) if dotted else z3.BoolVal(False)
        if outcome[0] == "return":
            r = outcome[1]
            if not isinstance(r, SBuildIdx):
                ex.oblige(self.oname("ensures:returns_the_index"), False, note=repr(r))
                return
            k, x = z3.Const("pk", J), z3.Const("px", Id)
            s = self.spec(case, BI_N)
            ex.oblige(self.oname("ensures:a_document_id_is_under_key_k_iff_the_document_has_a_value_under_the_dotted_key_whose_index_key_is_k"), z3.ForAll([k, x], r.IN(k, x) == s(k, x)))
            ex.oblige(self.oname("ensures:no_document_spells_the_dotted_key_as_one_literal_key"), z3.Not(bad))
        else:
            e = outcome[1]
            ex.oblige(self.oname("raises:InvalidKeyError_only_if_a_document_has_the_dotted_key_as_one_literal_key"), z3.And(z3.BoolVal(isinstance(e, InvalidKeyError)), bad), note=repr(e))


CONTRACTS.append(BuildIndexFn())
