"""Sidecar contract for signac._config._load_config (C19, C20): which files make up the configuration a project is opened with, and in
which order.  The dependency ConfigObj is not executed: `_Config(...)` is an accumulator that records what is merged into it, and
`_read_config_file` (under test elsewhere: bounded layer c19 / c20) is a token naming the file read.  What the contract pins down is the
composition: the user-level file first, the project's own `.signac/config` last, so that every value the project declares -- its
schema_version above all -- wins over the defaults and values of `~/.signacrc`."""
import os

import z3

from pyvc.core import NativeStub, SBool, Sym, Unsupported
from pyvc.verify import Contract, Ctx

CFG = "signac._config"


class PathTok(Sym):
    def __init__(self, what):
        self.what = what

    def sym_eq(self, ex, other):
        return isinstance(other, PathTok) and other.what == self.what

    def sym_truth(self, ex):
        return True

    def sym_hashable(self):
        return True

    def __repr__(self):
        return f"<{self.what}>"


class CfgRead(Sym):
    """the validated content of one configuration file"""

    def __init__(self, of):
        self.of = of

    def __repr__(self):
        return f"config-of{self.of}"


class CfgAcc(Sym):
    def __init__(self):
        self.merged = []

    def sym_truth(self, ex):
        raise Unsupported("truth value of a configuration")

    def sym_getattr(self, ex, name):
        if name == "merge":
            def merge(other):
                if not isinstance(other, CfgRead):
                    raise Unsupported("merge of something that was not read from a file")
                self.merged.append(other.of)
            return NativeStub(merge, "ConfigObj.merge")
        raise Unsupported(f"_Config.{name}")


class LoadCtx(Ctx):
    def __init__(self, contract, case):
        super().__init__(contract, case)
        from signac import _config
        self.user_fn = _config.USER_CONFIG_FN
        self.externals[os.getcwd] = lambda interp: PathTok("cwd")
        self.externals[os.path.isfile] = self.x_isfile
        self.callee_contracts[f"{CFG}._get_project_config_fn"] = lambda interp, b: PathTok(("project-config-of", getattr(b["path"], "what", b["path"])))
        self.callee_contracts[f"{CFG}._read_config_file"] = self.read

    def name_of(self, fn):
        if isinstance(fn, str) and fn == self.user_fn:
            return "user"
        if isinstance(fn, PathTok) and isinstance(fn.what, tuple) and fn.what[0] == "project-config-of":
            return fn.what
        raise Unsupported(f"configuration file name {fn!r}")

    def x_isfile(self, interp, fn):
        n = self.name_of(fn)
        return SBool(z3.Bool("the_user_level_file_exists" if n == "user" else "the_project_config_file_exists"))

    def read(self, interp, b):
        n = self.name_of(b["filename"])
        self.ghost.setdefault("read", []).append(n)
        return CfgRead(n)

    def instantiate(self, interp, rc, args, kw):
        if rc.name == "_Config":
            if args:
                raise Unsupported("_Config(file) outside _read_config_file")
            acc = CfgAcc()
            self.ghost.setdefault("made", []).append(acc)
            return acc
        return NotImplemented


class LoadConfig(Contract):
    target = f"{CFG}._load_config"
    properties = ("C19", "C20")
    ctx_class = LoadCtx

    def cases(self):
        return [{"path": "given"}, {"path": None}]

    def setup(self, interp, case):
        return [PathTok("the-project-directory") if case["path"] else None], {}, {}

    def post(self, interp, case, pre, outcome):
        ex = interp.ex
        if outcome[0] != "return":
            ex.oblige(self.oname("raises:nothing_of_its_own"), False, note=repr(outcome[1]))
            return
        r = outcome[1]
        proj = ("project-config-of", "the-project-directory" if case["path"] else "cwd")
        u, p = z3.Bool("the_user_level_file_exists"), z3.Bool("the_project_config_file_exists")
        if not isinstance(r, CfgAcc):
            ex.oblige(self.oname("ensures:returns_the_composite_configuration"), False, note=repr(r))
            return
        m = r.merged
        ex.oblige(self.oname("ensures:the_project's_own_config_file_is_merged_iff_it_exists,_and_merged_last_(its_values_win_over_the_user-level_file)"),
                  z3.And(p == z3.BoolVal(proj in m), z3.BoolVal(proj not in m or (m[-1] == proj and m.count(proj) == 1))), note=repr(m))
        ex.oblige(self.oname("ensures:the_user-level_file_is_merged_iff_it_exists,_once"), z3.And(u == z3.BoolVal("user" in m), z3.BoolVal(m.count("user") <= 1)), note=repr(m))
        ex.oblige(self.oname("ensures:nothing_else_is_merged"), z3.BoolVal(all(x in ("user", proj) for x in m)), note=repr(m))


CONTRACTS = [LoadConfig()]
