"""Sidecar contract for signac.schema._build_job_statepoint_index (C18): which state point keys the schema reports.

Abstractions (all uninterpreted): a job document DOC(id) is seen through the sequence of its dotted keys KAT(doc, t), t < NP(doc) (contract
of _nested_dicts_to_dotted_keys); a key either lies in the state point namespace or not (ISSP: its first dotted component is "sp");
index.build_index(key) is a token with NVALS(key) distinct values and NFIRST(key) ids under the first of them.  Iterating a Python set /
sorting the keys of a dict visits each element exactly once (trusted)."""
import z3

from pyvc.core import CutSeq, NativeStub, RaiseSignal, SBool, SInt, Sym, Unsupported
from pyvc.interp import LoopSpec
from pyvc.theory_j import Id, SId, SymSet
from pyvc.verify import Contract, Ctx

SCH = "signac.schema"

KeyS = z3.DeclareSort("KeyS")
Doc = z3.DeclareSort("Doc")
IDAT = z3.Function("IDAT", z3.IntSort(), Id)
DOC = z3.Function("DOC", Id, Doc)
NP = z3.Function("NP", Doc, z3.IntSort())
KAT = z3.Function("KAT", Doc, z3.IntSort(), KeyS)
FIRST = z3.Function("FIRST", KeyS, z3.StringSort())     # first dotted component of a key


def ISSP(k):
    return FIRST(k) == z3.StringVal("sp")
NVALS = z3.Function("NVALS", KeyS, z3.IntSort())
NFIRST = z3.Function("NFIRST", KeyS, z3.IntSort())
N = z3.Int("n_jobs")


class SKey(Sym):
    def __init__(self, e):
        self.e = e

    def sym_hashable(self):
        return True

    def sym_isinstance(self, ex, cls):
        return cls in (str, object)

    def sym_getattr(self, ex, name):
        if name == "split":
            def split(sep):
                if sep != ".":
                    raise Unsupported("split on another separator")
                return SSplit(self.e)
            return NativeStub(split, "str.split")
        if name in ("lstrip", "rstrip", "strip", "replace", "removeprefix", "removesuffix", "partition", "rpartition", "lower", "upper"):
            # any other string operation on the key: some derived string (what it is exactly does not matter: it is not "the key without sp.")
            return NativeStub(lambda *a, **k: (f"str.{name}-of-key", self.e) + tuple(a), f"str.{name}")
        raise Unsupported(f"str.{name} on a dotted key")

    def sym_getitem(self, ex, k):
        if isinstance(k, slice) and k.start == len("sp.") and k.stop is None and k.step is None:
            return ("key-without-sp-prefix", self.e)
        if isinstance(k, slice) and all(x is None or isinstance(x, int) for x in (k.start, k.stop, k.step)):
            return ("slice-of-key", self.e, k.start, k.stop, k.step)
        raise Unsupported("key subscript shape")


class SSplit(Sym):
    def __init__(self, k):
        self.k = k

    def sym_getitem(self, ex, i):
        if i == 0:
            return SFirstComp(self.k)
        raise Unsupported("component index")


class SFirstComp(Sym):
    def __init__(self, k):
        self.k = k

    def sym_eq(self, ex, other):
        if isinstance(other, str):
            return SBool(FIRST(self.k) == z3.StringVal(other))
        raise Unsupported("comparison of the first key component with this value")


class SKeySet(SymSet):
    """dotted_keys: iteration visits each member once, in an unspecified order"""

    def sym_iter(self, ex):
        n = z3.Int(ex.fresh_name("n_keys"))
        en = z3.Function(ex.fresh_name("ENUM"), z3.IntSort(), KeyS)
        enum_axioms(ex, n, en, self.member)
        self.n, self.en = n, en

        cs = CutSeq(n, lambda interp, i: SKey(en(i)), label="keys")
        cs.en = en
        return cs


def enum_axioms(ex, n, en, member):
    k = z3.Const("ek", KeyS)
    a, b = z3.Ints("ea eb")
    ex.assume(n >= 0)
    ex.assume(z3.ForAll([k], member(k) == z3.Exists([a], z3.And(0 <= a, a < n, en(a) == k))))
    ex.assume(z3.ForAll([a, b], z3.Implies(z3.And(0 <= a, a < b, b < n), en(a) != en(b))))


class SKeyMap(Sym):
    """indexes: dotted key -> index.build_index(key)"""

    def __init__(self, dom):
        self.dom = dom

    def sym_setitem(self, ex, k, v):
        if not (isinstance(k, SKey) and isinstance(v, SBuilt) and v.k.eq(k.e)):
            raise Unsupported("indexes[key] = something other than index.build_index(key)")
        cur = self.dom
        self.dom = lambda x, cur=cur, e=k.e: z3.Or(cur(x), x == e)

    def sym_getitem(self, ex, k):
        if not isinstance(k, SKey):
            raise Unsupported("indexes[...] key")
        if not ex.decide(self.dom(k.e), "indexes:has-key"):
            raise RaiseSignal(KeyError(k))
        built = ex.ghost_built.setdefault(str(k.e), SBuilt(k.e)) if hasattr(ex, "ghost_built") else SBuilt(k.e)
        return built


class SBuilt(Sym):
    def __init__(self, k):
        self.k = k
        self.popped = []

    def sym_len(self, ex):
        return SInt(NVALS(self.k))

    def sym_getattr(self, ex, name):
        if name == "keys":
            return NativeStub(lambda: SValIter(self.k), "index.keys")
        if name == "pop":
            def pop(key, *default):
                self.popped.append((key, default))
            return NativeStub(pop, "index.pop")
        raise Unsupported(f"built index .{name}")

    def sym_getitem(self, ex, v):
        if isinstance(v, SFirstVal) and v.k.eq(self.k):
            return SIdsUnder(self.k)
        raise Unsupported("built index subscript")


class SValIter(Sym):
    def __init__(self, k):
        self.k = k


class SFirstVal(Sym):
    def __init__(self, k):
        self.k = k

    def sym_hashable(self):
        return True


class SIdsUnder(Sym):
    def __init__(self, k):
        self.k = k

    def sym_len(self, ex):
        return SInt(NFIRST(self.k))


class SIndexer(Sym):
    def sym_len(self, ex):
        return SInt(N)

    def sym_getattr(self, ex, name):
        if name == "find":
            return NativeStub(lambda *a: SIds() if not a else (_ for _ in ()).throw(Unsupported("find(filter)")), "index.find")
        if name == "build_index":
            return NativeStub(lambda key: SBuilt(key.e) if isinstance(key, SKey) else (_ for _ in ()).throw(Unsupported("build_index argument")), "index.build_index")
        raise Unsupported(f"index.{name}")

    def sym_getitem(self, ex, k):
        if isinstance(k, SId):
            return SDocTok(DOC(k.e))
        raise Unsupported("index[...] key")


class SIds(Sym):
    def sym_iter(self, ex):
        def at(interp, i):
            interp.ctx.ghost["outer_i"] = i
            return SId(IDAT(i))
        return CutSeq(N, at, label="ids")


class SDocTok(Sym):
    def __init__(self, e):
        self.e = e


class SPairs(Sym):
    def __init__(self, d):
        self.d = d

    def sym_iter(self, ex):
        return CutSeq(NP(self.d), lambda interp, t: (SKey(KAT(self.d, t)), "value"), label="pairs")


class SchemaCtx(Ctx):
    def __init__(self, contract, case):
        super().__init__(contract, case)
        self.externals[set] = lambda interp, *a: SKeySet(lambda x: z3.BoolVal(False), KeyS) if not a else (_ for _ in ()).throw(Unsupported("set(x)"))

    def next_of(self, interp, v, rest):
        if isinstance(v, SValIter) and not rest:
            return SFirstVal(v.k)
        raise Unsupported("next() of this value")

    def builtin_hook(self, interp, f, args, kw):
        if f is sorted and len(args) == 1 and isinstance(args[0], SKeyMap):
            m = args[0]
            interp.ctx.ghost["sort_key"] = kw.get("key")
            return SSortedKeys(m)
        return super().builtin_hook(interp, f, args, kw)


class SSortedKeys(Sym):
    def __init__(self, m):
        self.m = m

    def sym_iter(self, ex):
        n = z3.Int(ex.fresh_name("n_sorted"))
        en = z3.Function(ex.fresh_name("SORTED"), z3.IntSort(), KeyS)
        enum_axioms(ex, n, en, self.m.dom)

        def at(interp, i):
            interp.ctx.ghost["cur3"] = en(i)
            interp.ctx.ghost["yielded"] = []
            return SKey(en(i))
        return CutSeq(n, at, label="sorted")


def stub_flatten(interp, b):
    d = b["d"]
    if isinstance(d, SDocTok) and b.get("key") is None:
        return SPairs(d.e)
    raise Unsupported("_nested_dicts_to_dotted_keys on this value")


class StripPrefix(Contract):
    """_strip_prefix over an arbitrary key (z3 string): the name a state point key is reported under -- in detected schemas, export paths and
    linked views -- is the indexed key 'sp.<name>' without its first three characters, whatever <name> contains (also 'sp.' again: a nested
    key under a parent whose name ends in 'sp')"""
    target = f"{SCH}._strip_prefix"
    properties = ("C16", "C17", "C18")
    prefer_cvc5 = True

    def setup(self, interp, case):
        from pyvc.theory_str import SStr
        name = z3.String("state_point_key_name")
        return [SStr(z3.Concat(z3.StringVal("sp."), name))], {}, {"name": name}

    def post(self, interp, case, pre, outcome):
        from pyvc.theory_str import SStr
        ex = interp.ex
        if outcome[0] != "return":
            ex.oblige(self.oname("raises:nothing"), False, note=repr(outcome[1]))
            return
        r = outcome[1]
        ex.oblige(self.oname("ensures:sp.<name>_is_reported_as_<name>_for_every_name"), r.e == pre["name"] if isinstance(r, SStr) else z3.BoolVal(False), note=repr(r)[:100])


class BuildJobStatepointIndex(Contract):
    target = f"{SCH}._build_job_statepoint_index"
    properties = ("C17", "C18")
    ctx_class = SchemaCtx
    inline = (f"{SCH}._strip_prefix",)
    callees = {"signac._utility._nested_dicts_to_dotted_keys": stub_flatten}

    def cases(self):
        return [{"exclude_const": False}, {"exclude_const": True}]

    def loops(self, case):
        k = z3.Const("lk", KeyS)
        j, t = z3.Ints("lj lt")

        def keys_of_first(upto):
            return lambda x: z3.Exists([j, t], z3.And(0 <= j, j < upto, 0 <= t, t < NP(DOC(IDAT(j))), KAT(DOC(IDAT(j)), t) == x))

        def dk(interp, fr):
            v = interp.lookup(fr, "dotted_keys")
            if not isinstance(v, SymSet):
                raise Unsupported("dotted_keys is not a set")
            return v

        def inv_ids(interp, fr, i, seq):
            c = dk(interp, fr)
            return z3.ForAll([k], c.member(k) == keys_of_first(i)(k))

        def inv_pairs(interp, fr, tt, seq):
            c = dk(interp, fr)
            m = interp.ctx.ghost["outer_i"]
            d = DOC(IDAT(m))
            return z3.ForAll([k], c.member(k) == z3.Or(keys_of_first(m)(k), z3.Exists([t], z3.And(0 <= t, t < tt, t < NP(d), KAT(d, t) == k))))

        def hv_dk(interp, fr, tag):
            f = z3.Function(interp.ex.fresh_name(tag), KeyS, z3.BoolSort())
            return SKeySet(lambda x, f=f: f(x), KeyS)

        def idx(interp, fr):
            v = interp.lookup(fr, "indexes")
            if isinstance(v, dict) and not v:
                return lambda x: z3.BoolVal(False)
            if isinstance(v, SKeyMap):
                return v.dom
            raise Unsupported("indexes is not a key map")

        def inv_keys(interp, fr, i, seq):
            en = seq.en
            dom = idx(interp, fr)
            return z3.ForAll([k], dom(k) == z3.Exists([j], z3.And(0 <= j, j < i, en(j) == k, ISSP(k))))

        def hv_idx(interp, fr, tag):
            f = z3.Function(interp.ex.fresh_name(tag), KeyS, z3.BoolSort())
            return SKeyMap(lambda x, f=f: f(x))

        def body3(interp, fr, writes):
            ex, g = interp.ex, interp.ctx.ghost
            key, ys = g["cur3"], g["yielded"]
            const = z3.And(NVALS(key) == 1, NFIRST(key) == N)
            skipped = z3.And(z3.BoolVal(case["exclude_const"]), const)
            ex.oblige(self.oname("body:a_key_is_left_out_iff_constants_are_excluded_and_it_has_one_value_shared_by_all_jobs"), z3.BoolVal(len(ys) == 0) == skipped, note=f"{len(ys)} yielded")
            if len(ys) == 1:
                y = ys[0]
                ok = isinstance(y, tuple) and len(y) == 2 and isinstance(y[0], tuple) and y[0][0] == "key-without-sp-prefix" and isinstance(y[1], SBuilt)
                ex.oblige(self.oname("body:reported_under_its_name_without_the_sp_prefix_with_the_value_index_of_that_key"),
                          z3.And(z3.BoolVal(ok), y[0][1] == key, y[1].k == key) if ok else z3.BoolVal(False), note=repr(y)[:200])
                if ok:
                    ex.oblige(self.oname("body:mapping_valued_entries_(placeholder)_are_removed_from_the_reported_values"),
                              z3.BoolVal(any(getattr(p[0], "qual", None) == "signac._search_indexer._DictPlaceholder" for p in y[1].popped)), note=repr(y[1].popped))
            elif len(ys) > 1:
                ex.oblige(self.oname("body:at_most_one_report_per_key"), False)
        def after_keys(interp, fr, seq):
            dom = idx(interp, fr)
            interp.ex.oblige(self.oname("ensures:the_keys_considered_are_exactly_the_state_point_keys_occurring_in_some_indexed_job"),
                             z3.ForAll([k], dom(k) == z3.And(ISSP(k), keys_of_first(N)(k))))
        return {"ids": LoopSpec("jobs", inv_ids, havoc={"dotted_keys": hv_dk}, scratch=("_id", "doc", "key", "_")),
                "pairs": LoopSpec("doc-keys", inv_pairs, havoc={"dotted_keys": hv_dk}, scratch=("key", "_")),
                "keys": LoopSpec("dotted-keys", inv_keys, havoc={"indexes": hv_idx}, scratch=("key",), after=after_keys),
                "sorted": LoopSpec("report", lambda interp, fr, i, seq: z3.BoolVal(True), scratch=("key", "statepoint_key", "statepoint_values"), heap_frame=body3)}

    def setup(self, interp, case):
        ex = interp.ex
        d = z3.Const("ad", Doc)
        k = z3.Const("ak", KeyS)
        ex.assume(z3.And(N >= 0, z3.ForAll([d], NP(d) >= 0), z3.ForAll([k], z3.And(NVALS(k) >= 0, NFIRST(k) >= 0))))
        interp.ctx.ghost["yielded"] = []
        return [case["exclude_const"], SIndexer()], {}, {}

    def yield_hook(self, interp, case, pre):
        return lambda v: interp.ctx.ghost["yielded"].append(v)

    def post(self, interp, case, pre, outcome):
        ex, g = interp.ex, interp.ctx.ghost
        if outcome[0] != "return":
            ex.oblige(self.oname("raises:nothing"), False, note=repr(outcome[1]))
            return


CONTRACTS = [StripPrefix(), BuildJobStatepointIndex()]
