"""Sidecar contracts for signac/project.py: listing, membership, state point lookup, check, cache (C02 C03 C07 C08 C09 C10)."""
import errno
import gzip
import json
import os

import z3

from pyvc.core import CutSeq, NativeStub, OpaqueStr, RaiseSignal, SBool, SInt, Sym, Unsupported
from pyvc.interp import LoopSpec, Obj
from pyvc.theory_fs import (CALC, EMPTY, FS, JD, NONEV, PF, Data, LIn, LJob, LPF, LProj, LWs, Name, Node, PName, SPv, SymOSError, canon, jsonok, parsed)
from pyvc.theory_j import EX_idx, FA_id, FA_idx, Id, SId, SymSet, as_symset
from pyvc.verify import Contract

from .job import FSContract, GETTERS, jd_frame, stub_job_init, stub_open_job_by_sp
from .jobfs import JOB, PRJ, JobCtx, SCache, SSP, mk_job, mk_project, spv_of

WN = z3.DeclareSort("WN")                                  # names of workspace directory entries
wn_exact = z3.Function("wn_exact", WN, z3.BoolSort())      # the name is exactly 32 chars of [0-9a-f]  (a job id)
wn_prefix = z3.Function("wn_prefix", WN, z3.BoolSort())    # the name starts with 32 chars of [0-9a-f]
wn_id = z3.Function("wn_id", WN, Id)                       # the id spelled by an exact name
ID_PATTERN = "[a-f0-9]{32}"


class SWsName(Sym):
    def __init__(self, e):
        self.e = e

    def sym_isinstance(self, ex, cls):
        return cls in (str, object)

    def sym_hashable(self):
        return True


class WsListing(Sym):
    """os.listdir(workspace): n distinct entry names."""

    def __init__(self, ex, fs, p):
        self.n = z3.Int(ex.fresh_name("n_ws"))
        self.name = z3.Function(ex.fresh_name("wname"), z3.IntSort(), WN)
        a, b = z3.Ints("la lb")
        w = z3.Const("lw", WN)
        ex.assume(self.n >= 0)
        ex.assume(z3.ForAll([a, b], z3.Implies(z3.And(0 <= a, a < b, b < self.n), self.name(a) != self.name(b))))
        ex.assume(z3.ForAll([w], z3.Implies(wn_exact(w), wn_prefix(w))))
        # exactly-id-named entries of the workspace are the job directories (ids <-> names is a bijection)
        ex.assume(FA_id(lambda i: fs.dirs[JD.mk(p, i)] == EX_idx(0, self.n, lambda k: z3.And(wn_exact(self.name(k)), wn_id(self.name(k)) == i))))
        w2 = z3.Const("lw2", WN)
        ex.assume(z3.ForAll([w, w2], z3.Implies(z3.And(wn_exact(w), wn_exact(w2), wn_id(w) == wn_id(w2)), w == w2)))
        ex.assumptions_used.add("workspace children whose name is exactly a job id are directories (the job directories)")

    def listed(self, w):
        return EX_idx(0, self.n, lambda k: self.name(k) == w)

    def sym_iter(self, ex):
        return CutSeq(self.n, lambda interp, i: SWsName(self.name(i)), label="os.listdir(self.workspace)")


class WNSet:
    """ghost: set of yielded workspace names (characteristic function)"""

    def __init__(self, member):
        self.member = member


class SIdSeq(Sym):
    """Result of Project._job_dirs() / _find_job_ids(None): the job ids of the workspace, each once (callee view)."""

    def __init__(self, ex, fs, p, label="job_ids"):
        self.n = z3.Int(ex.fresh_name("n_ids"))
        ex.lengths.append(self.n)
        self.at = z3.Function(ex.fresh_name("idat"), z3.IntSort(), Id)
        self.label = label
        a, b = z3.Ints("sa sb")
        ex.assume(self.n >= 0)
        ex.assume(z3.ForAll([a, b], z3.Implies(z3.And(0 <= a, a < b, b < self.n), self.at(a) != self.at(b))))
        ex.assume(FA_id(lambda i: fs.dirs[JD.mk(p, i)] == EX_idx(0, self.n, lambda k: self.at(k) == i)))
        self.fs, self.p = fs, p

    def sym_iter(self, ex):
        def at(interp, i):
            interp.ctx.ghost["cur_job_id"] = self.at(i)
            return SId(self.at(i))
        return CutSeq(self.n, at, label=self.label)

    def sym_len(self, ex):
        return SInt(self.n)

    def sym_truth(self, ex):
        return self.n > 0

    def member(self, x):
        return EX_idx(0, self.n, lambda k: self.at(k) == x)


class ProjCtx(JobCtx):
    def __init__(self, contract, case):
        super().__init__(contract, case)
        self.externals[os.listdir] = self.x_listdir
        self.externals[os.path.islink] = lambda interp, loc: SBool(z3.Bool(interp.ex.fresh_name("islink")))
        self.externals[os.path.dirname] = self.x_dirname
        self.externals[open] = self.x_open
        self.externals[gzip.open] = self.x_gzopen
        self.externals[json.loads] = self.x_json_loads
        self.externals[json.dumps] = self.x_json_dumps
        import time
        self.externals[time.time] = lambda interp: 0.0

    def x_dirname(self, interp, loc):
        if isinstance(loc, LWs):
            return LProj(loc.p)
        if isinstance(loc, str):
            return os.path.dirname(loc)
        raise Unsupported("dirname of this location")

    def x_listdir(self, interp, loc):
        ex = interp.ex
        if not isinstance(loc, LWs):
            raise Unsupported("os.listdir of something other than the workspace")
        if not ex.decide(self.fs.ws[loc.p], "listdir:workspace-exists"):
            raise self.enoent()
        self.fault(interp, "listdir")
        lst = self.ghost.get("listing")
        if lst is None:
            lst = WsListing(ex, self.fs, loc.p)
            self.ghost["listing"] = lst
        return lst

    def builtin_hook(self, interp, f, args, kw):
        slf = getattr(f, "__self__", None)
        if type(slf).__name__ == "Pattern" and args and isinstance(args[0], SWsName):
            if slf.pattern != ID_PATTERN:
                raise Unsupported(f"job id pattern is {slf.pattern!r}, the contract's name abstraction is for {ID_PATTERN!r}")
            nm = f.__name__
            if nm == "match":
                return SBool(wn_prefix(args[0].e))
            if nm == "fullmatch":
                return SBool(wn_exact(args[0].e))
            raise Unsupported(f"regex method {nm} on a workspace entry name")
        return super().builtin_hook(interp, f, args, kw)

    # ---- reading files
    def x_open(self, interp, loc, mode="r", *a, **k):
        ex = interp.ex
        if mode != "rb" or a or k:
            return super().x_open(interp, loc, mode, *a, **k)
        if isinstance(loc, LIn):
            if not ex.decide(z3.And(self.fs.dirs[JD.mk(loc.p, loc.i)], Node.is_File(self.fs.node(loc))), "open:file-present"):
                raise self.enoent()
            self.fault(interp, "open")
            return SFileR(Node.data(self.fs.node(loc)))
        raise Unsupported("open of this location")

    def x_gzopen(self, interp, loc, mode="rb", *a, **k):
        ex = interp.ex
        if not isinstance(loc, LPF):
            raise Unsupported("gzip.open of this location")
        if mode == "rb":
            if not ex.decide(Node.is_File(self.fs.pf[PF.mk(loc.p, loc.n)]), "gzopen:file-present"):
                raise self.enoent()
            self.fault(interp, "gzopen")
            return SFileR(Node.data(self.fs.pf[PF.mk(loc.p, loc.n)]), gz=True)
        if mode == "wb":
            # creating/truncating the file is an effect of its own: the target is empty until data is written
            self.fault(interp, "gzopen-w")
            empty = ex.fresh("emptyfile", Data)
            ex.assume(z3.Not(cache_ok(empty)))
            self.effect(interp, f"create/truncate {loc.n}", self.fs.with_pf(loc.p, loc.n, Node.File(empty)))
            return SFileW(self, loc)
        raise Unsupported(f"gzip.open mode {mode!r}")

    def x_json_loads(self, interp, s, **k):
        ex = interp.ex
        if isinstance(s, SText):
            if s.kind == "cache":
                if not ex.decide(cache_ok(s.d), "json.loads:cache-ok"):
                    raise RaiseSignal(json.JSONDecodeError("x", "", 0))
                return SCacheVal(s.d)
            if not ex.decide(jsonok(s.d), "json.loads:ok"):
                raise RaiseSignal(json.JSONDecodeError("x", "", 0))
            return SSP(parsed(s.d))
        raise Unsupported("json.loads of this value")

    def x_json_dumps(self, interp, v, **k):
        if isinstance(v, SCache):
            if k:
                # an encoder option (default=, skipkeys=, a custom cls): what is written is no longer the strict JSON text of the cache
                self.ghost["cache_dump_options"] = sorted(k)
            return SDump(v.dom, v.val)
        raise Unsupported("json.dumps of this value")


# persistent cache file content: Data -> finite map Id -> SPv
cache_ok = z3.Function("cache_ok", Data, z3.BoolSort())
cache_domA = z3.Function("cache_dom", Data, z3.ArraySort(Id, z3.BoolSort()))
cache_valA = z3.Function("cache_val", Data, z3.ArraySort(Id, SPv))


def cache_dom(d, i):
    return cache_domA(d)[i]


def cache_val(d, i):
    return cache_valA(d)[i]


class SFileR(Sym):
    def __init__(self, d, gz=False):
        self.d, self.gz = d, gz

    def sym_with(self, interp, body):
        return body(self)

    def sym_getattr(self, ex, name):
        if name == "read":
            return NativeStub(lambda: SBytes(self.d, "cache" if self.gz else "json"), "file.read")
        raise Unsupported(f"file.{name}")


class SFileW(Sym):
    """gzip.open(..., "wb"): data reaches the disk while writing and -- completely -- only when the file is closed (end of the
    `with` block); until then the on-disk content is an incomplete (undecodable) prefix."""

    def __init__(self, ctx, loc):
        self.ctx, self.loc = ctx, loc
        self.pending = None

    def sym_with(self, interp, body):
        ex, ctx, loc = interp.ex, self.ctx, self.loc
        body(self)        # an exception leaves whatever prefix was written
        if self.pending is not None:
            data = self.pending
            if ctx.faults and ex.decide(None, "fault:close"):
                e = z3.Int(ex.fresh_name("errno"))
                ex.assume(z3.And(e != errno.ENOENT, e > 0))
                raise RaiseSignal(SymOSError(e))
            d = ex.fresh("written", Data)
            ex.assume(z3.And(cache_ok(d), cache_domA(d) == data.dom, cache_valA(d) == data.val))
            ctx.effect(interp, f"close: {loc.n} complete", ctx.fs.with_pf(loc.p, loc.n, Node.File(d)))

    def sym_getattr(self, ex, name):
        if name == "write":
            def write(interp, data):
                ctx, loc = self.ctx, self.loc
                if not isinstance(data, SBytes) or data.kind != "dump":
                    raise Unsupported("write of this value")
                torn = ex.fresh("torn", Data)
                ex.assume(z3.Not(cache_ok(torn)))
                ctx.effect(interp, f"write {loc.n} (incomplete until closed)", ctx.fs.with_pf(loc.p, loc.n, Node.File(torn)))
                if ctx.faults and ex.decide(None, "fault:write"):
                    e = z3.Int(ex.fresh_name("errno"))
                    ex.assume(z3.And(e != errno.ENOENT, e > 0))
                    raise RaiseSignal(SymOSError(e))
                self.pending = data
                return None
            return NativeStub(write, "file.write", wants_ex=True)
        raise Unsupported(f"file.{name}")


UTF8OK = z3.Function("utf8_decodable", Data, z3.BoolSort())


class SBytes(Sym):
    def __init__(self, d, kind, dom=None, val=None):
        self.d, self.kind, self.dom, self.val = d, kind, dom, val

    def sym_getattr(self, ex, name):
        if name == "decode":
            def decode(*a, **k):
                # bytes that are a JSON text are UTF-8; any other content may fail to decode: UnicodeDecodeError (a ValueError, not a JSONDecodeError)
                if not ex.decide(z3.Or(jsonok(self.d) if self.kind != "cache" else cache_ok(self.d), UTF8OK(self.d)), "bytes-decode:utf8"):
                    raise RaiseSignal(UnicodeDecodeError("utf-8", b"\xff", 0, 1, "invalid start byte"))
                return SText(self.d, self.kind)
            return NativeStub(decode, "bytes.decode")
        raise Unsupported(f"bytes.{name}")


class SText(Sym):
    def __init__(self, d, kind):
        self.d, self.kind = d, kind


class SDump(Sym):
    """json.dumps(self._sp_cache)"""

    def __init__(self, dom, val):
        self.dom, self.val = dom, val

    def sym_getattr(self, ex, name):
        if name == "encode":
            return NativeStub(lambda: SBytes(None, "dump", self.dom, self.val), "str.encode")
        raise Unsupported(f"str.{name}")


class SCacheVal(Sym):
    """decoded content of the persistent cache file"""

    def __init__(self, d):
        self.d = d

    def sym_is(self, ex, other):
        if other is None:
            return False
        raise Unsupported("is")

    def keyset(self):
        return SymSet.of_array(cache_domA(self.d))

    def sym_len(self, ex):
        return SInt(CARD(cache_domA(self.d)))


# SCache gains the operations project.py uses
def _cache_getattr(self, ex, name):
    if name == "update":
        def update(other):
            if not isinstance(other, SCacheVal):
                raise Unsupported("cache.update argument")
            dom, val = self.dom, self.val
            i = z3.Const("upd_i", Id)
            fd, fv = cache_domA(other.d), cache_valA(other.d)
            self.dom = z3.Lambda([i], z3.Or(dom[i], fd[i]))
            self.val = z3.Lambda([i], z3.If(fd[i], fv[i], val[i]))
        return NativeStub(update, "cache.update")
    return _cache_getattr_base(self, ex, name)


_cache_getattr_base = SCache.sym_getattr          # setdefault / get / pop (jobfs)
SCache.sym_getattr = _cache_getattr
CARD = z3.Function("CARD", z3.ArraySort(Id, z3.BoolSort()), z3.IntSort())      # number of keys of a finite map (a function of its key set)
SCache.sym_len = lambda self, ex: SInt(CARD(self.dom))


class PContract(FSContract):
    ctx_class = ProjCtx

    def fresh_project(self, interp, cache_read=True):
        ex, ctx = interp.ex, interp.ctx
        ctx.fs_init(ex)
        proj = mk_project(ex)
        proj.fields["_sp_cache_read"] = cache_read
        ex.assume(proj.fields["_sp_cache"].valid())
        return proj


# ============================================================================= Project._job_dirs


class JobDirs(PContract):
    target = f"{PRJ}.Project._job_dirs"
    properties = ("C02", "C03", "C07", "C08", "C09", "C12")

    def loops(self, case):
        def inv(interp, fr, i, seq):
            lst, Y = interp.ctx.ghost["listing"], interp.ctx.ghost["Y"]
            w = z3.Const("iw", WN)
            # from the property: only exactly-id-named entries count as jobs
            return z3.ForAll([w], Y.member(w) == EX_idx(0, i, lambda k: z3.And(lst.name(k) == w, wn_exact(w))))

        def hv(interp, fr, tag):
            f = z3.Function(interp.ex.fresh_name("Y"), WN, z3.BoolSort())
            interp.ctx.ghost["Y"] = WNSet(lambda w: f(w))
        return {"os.listdir(self.workspace)": LoopSpec("listing", inv, havoc={"$Y": hv}, scratch=("d",))}

    def setup(self, interp, case):
        proj = self.fresh_project(interp)
        interp.ctx.ghost["Y"] = WNSet(lambda w: z3.BoolVal(False))
        return [proj], {}, {"proj": proj, "p": proj.p}

    def yield_hook(self, interp, case, pre):
        def hook(v):
            if not isinstance(v, SWsName):
                raise Unsupported("_job_dirs yields something that is not a directory entry name")
            Y = interp.ctx.ghost["Y"]
            cur = Y.member
            interp.ctx.ghost["Y"] = WNSet(lambda w, cur=cur, e=v.e: z3.Or(cur(w), w == e))
        return hook

    def post(self, interp, case, pre, outcome):
        from signac.errors import WorkspaceError
        ex, ctx = interp.ex, interp.ctx
        p = pre["p"]
        ex.oblige(self.oname("frame:listing_reads_only"), ctx.fs.eq(ctx.fs0))
        Y, lst = ctx.ghost["Y"], ctx.ghost.get("listing")
        w = z3.Const("pw", WN)
        if outcome[0] == "return":
            if lst is None:
                ex.oblige(self.oname("ensures:missing_workspace_lists_nothing"), z3.And(z3.Not(ctx.fs0.ws[p]), z3.ForAll([w], z3.Not(Y.member(w)))))
            else:
                ex.oblige(self.oname("ensures:yields_exactly_the_entries_named_by_a_job_id"),
                          z3.ForAll([w], Y.member(w) == z3.And(lst.listed(w), wn_exact(w))))
        else:
            ex.oblige(self.oname("raises:only_WorkspaceError"), z3.BoolVal(isinstance(outcome[1], WorkspaceError)))


def stub_job_dirs(interp, b):
    """callee view: the ids of the job directories, each once (consequence of JobDirs.post + the name/id bijection)"""
    from signac.errors import WorkspaceError
    ex, ctx = interp.ex, interp.ctx
    proj = b["self"]
    if ctx.faults and ex.decide(None, "fault:listing"):
        raise RaiseSignal(WorkspaceError("injected"))
    return SIdSeq(ex, ctx.fs, proj.p)


def stub_find_job_ids_all(interp, b):
    if b.get("filter") is not None:
        raise Unsupported("_find_job_ids with a filter in this context")
    s = stub_job_dirs(interp, b)
    s.label = "self._find_job_ids()"
    return s


# ============================================================================= Project.__len__ / _contains_job_id / __contains__


class ProjLen(PContract):
    target = f"{PRJ}.Project.__len__"
    properties = ("C02", "C03", "C07", "C08")
    callees = {f"{PRJ}.Project._job_dirs": stub_job_dirs}
    faults = False

    def loops(self, case):
        def inv(interp, fr, k, seq):
            i = interp.lookup(fr, "i")
            return (i.e if isinstance(i, SInt) else z3.IntVal(i)) == k
        return {"enumerate(self._job_dirs(), 1)": LoopSpec("count", inv, havoc={"i": lambda interp, fr, tag: SInt(z3.Int(interp.ex.fresh_name("i")))}, scratch=("_",))}

    def make_ctx(self, case):
        ctx = super().make_ctx(case)

        def enumerate_of(interp, v, start):
            if isinstance(v, SIdSeq):
                ctx.ghost["seq"] = v
                return EnumSeq(v, start)
            raise Unsupported("enumerate of this value")
        ctx.enumerate_of = enumerate_of
        return ctx

    def setup(self, interp, case):
        proj = self.fresh_project(interp)
        return [proj], {}, {"proj": proj}

    def post(self, interp, case, pre, outcome):
        ex, ctx = interp.ex, interp.ctx
        if outcome[0] != "return":
            ex.oblige(self.oname("raises:nothing"), False, note=repr(outcome[1]))
            return
        seq = ctx.ghost.get("seq")
        r = outcome[1]
        ex.oblige(self.oname("ensures:length_is_the_number_of_job_directories"),
                  (r.e if isinstance(r, SInt) else z3.IntVal(r)) == seq.n if seq is not None and isinstance(r, (SInt, int)) else z3.BoolVal(False))
        ex.oblige(self.oname("frame:reads_only"), ctx.fs.eq(ctx.fs0))


class EnumSeq(Sym):
    def __init__(self, seq, start):
        self.seq, self.start = seq, start

    def sym_iter(self, ex):
        return CutSeq(self.seq.n, lambda interp, i: (SInt(i + self.start), SId(self.seq.at(i))), label="enumerate(self._job_dirs(), 1)")


class ContainsJobId(PContract):
    target = f"{PRJ}.Project._contains_job_id"
    properties = ("C02", "C03", "C07", "C08")
    faults = False

    def setup(self, interp, case):
        proj = self.fresh_project(interp)
        i = z3.Const("id_q", Id)
        return [proj, SId(i)], {}, {"p": proj.p, "i": i}

    def post(self, interp, case, pre, outcome):
        ex, ctx = interp.ex, interp.ctx
        if outcome[0] != "return":
            ex.oblige(self.oname("raises:nothing"), False, note=repr(outcome[1]))
            return
        r = outcome[1]
        ex.oblige(self.oname("ensures:true_iff_the_job_directory_exists"),
                  r.e == ctx.fs0.dirs[JD.mk(pre["p"], pre["i"])] if isinstance(r, SBool) else z3.BoolVal(False))
        ex.oblige(self.oname("frame:reads_only"), ctx.fs.eq(ctx.fs0))


def stub_contains_job_id(interp, b):
    """callee view of Project._contains_job_id (ContainsJobId.post)"""
    i = b["job_id"]
    if not isinstance(i, SId):
        raise Unsupported("_contains_job_id argument")
    return SBool(interp.ctx.fs.dirs[JD.mk(b["self"].p, i.e)])


class OpenJobById(PContract):
    """Project.open_job(id=...) for an id the cache does not know: a full id, or an abbreviated one resolved against the job directories"""
    target = f"{PRJ}.Project.open_job"
    properties = ("C02", "C05", "C08", "C09")
    inline = GETTERS + (f"{JOB}.Job.__init__", f"{JOB}.Job._initialize_lazy_properties")
    faults = False
    assumptions = ("abbreviated ids: only `full_id.startswith(prefix)` is observed (HASPFX), the prefix is shorter than a full id",)

    def cases(self):
        return [{"by": "full-id-not-cached"}, {"by": "abbreviated-id"}, {"by": "full-id-cached"}]

    def make_ctx(self, case):
        ctx = super().make_ctx(case)
        ctx.callee_contracts[f"{PRJ}.Project._find_job_ids"] = stub_find_job_ids_all
        ctx.callee_contracts[f"{PRJ}.Project._contains_job_id"] = stub_contains_job_id
        return ctx

    def setup(self, interp, case):
        from .jobfs import SIdPrefix
        ex, ctx = interp.ex, interp.ctx
        proj = self.fresh_project(interp)
        ctx.overrides[(JOB, "RLock")] = NativeStub(lambda: None, "RLock")
        i = z3.Const("id_arg", Id)
        if case["by"] == "full-id-not-cached":
            ex.assume(z3.Not(proj.fields["_sp_cache"].dom[i]))
            arg = SId(i)
        elif case["by"] == "full-id-cached":
            # the cache knows the id -- which says nothing about the workspace: entries survive remove() and id changes
            ex.assume(z3.And(proj.fields["_sp_cache"].dom[i], proj.fields["_sp_cache"].valid()))
            arg = SId(i)
        else:
            arg = SIdPrefix()
            ex.assume(z3.And(arg.n >= 1, arg.n < 32))
        return [proj], {"id": arg}, {"i": i, "proj": proj, "p": proj.p}

    def post(self, interp, case, pre, outcome):
        from .jobfs import HASPFX
        ex, ctx = interp.ex, interp.ctx
        fs0, p, proj = ctx.fs0, pre["p"], pre["proj"]
        ex.oblige(self.oname("frame:open_job_writes_nothing_to_disk"), ctx.fs.eq(fs0))
        P = lambda x: z3.And(fs0.dirs[JD.mk(p, x)], HASPFX(x))
        x, y = z3.Consts("ox oy", Id)
        none = z3.ForAll([x], z3.Not(P(x)))
        two = z3.Exists([x, y], z3.And(x != y, P(x), P(y)))
        if outcome[0] == "return":
            j = outcome[1]
            ok = isinstance(j, Obj) and j.cls.name == "Job" and isinstance(j.fields.get("_id"), SId) and j.fields.get("_project") is proj
            ex.oblige(self.oname("ensures:returns_a_job_handle_of_this_project"), z3.BoolVal(ok))
            if not ok:
                return
            m = j.fields["_id"].e
            dk = j.fields.get("_directory_known")
            dk = dk.e if isinstance(dk, SBool) else z3.BoolVal(bool(dk))
            ex.oblige(self.oname("ensures:the_handle_takes_its_directory_for_granted_only_if_the_job_directory_exists"), z3.Implies(dk, fs0.dirs[JD.mk(p, m)]))
            if case["by"] == "full-id-cached":
                ex.oblige(self.oname("ensures:a_cached_id_is_opened_with_the_cached_state_point"), m == pre["i"])
                return
            if case["by"] == "full-id-not-cached":
                ex.oblige(self.oname("ensures:a_full_id_is_opened_iff_its_job_directory_exists"), z3.And(m == pre["i"], fs0.dirs[JD.mk(p, m)]))
            else:
                ex.oblige(self.oname("ensures:an_abbreviated_id_resolves_to_the_only_job_directory_it_abbreviates"),
                          z3.And(P(m), z3.ForAll([x], z3.Implies(P(x), x == m))))
        else:
            e = outcome[1]
            if case["by"] == "full-id-not-cached":
                ex.oblige(self.oname("raises:KeyError_iff_no_such_job_directory"), z3.And(z3.BoolVal(isinstance(e, KeyError)), z3.Not(fs0.dirs[JD.mk(p, pre["i"])])), note=repr(e))
            elif isinstance(e, KeyError):
                ex.oblige(self.oname("raises:KeyError_iff_no_job_directory_has_the_prefix"), none)
            elif isinstance(e, LookupError):
                ex.oblige(self.oname("raises:LookupError_iff_the_prefix_is_ambiguous_among_the_job_directories"), two)
            else:
                ex.oblige(self.oname("raises:only_KeyError_or_LookupError"), False, note=repr(e))


    def witness(self, case, model, ob):
        if case.get("by") != "abbreviated-id":
            return None
        return {"script": WITNESS_PREFIX, "input": "40 jobs, fresh Project with some state points already in the in-memory cache; every prefix of every id"}


WITNESS_PREFIX = r'''
import os, sys, tempfile
sys.path.insert(0, os.environ.get("PYVC_REPO", "/repo"))
import signac
with tempfile.TemporaryDirectory() as d:
    p = signac.init_project(d)
    ids = sorted(p.open_job({"a": i}).init().id for i in range(40))
    for warm in (0, 1, 7):
        q = signac.Project(d)
        for i in ids[:warm] + ids[20:20 + warm]:
            q.open_job(id=i).statepoint()          # these ids are now in the in-memory cache
        for full in ids:
            for n in range(1, 32):
                pre = full[:n]
                m = [i for i in ids if i.startswith(pre)]
                try:
                    got = q.open_job(id=pre).id
                except KeyError:
                    got = "KeyError"
                except LookupError:
                    got = "LookupError"
                want = m[0] if len(m) == 1 else ("LookupError" if m else "KeyError")
                assert got == want, (pre, got, want, warm)
print("ok")
'''


class ProjContains(PContract):
    target = f"{PRJ}.Project.__contains__"
    properties = ("C02", "C03", "C07", "C08")
    inline = GETTERS + (f"{PRJ}.Project._contains_job_id",)
    faults = False

    def setup(self, interp, case):
        proj = self.fresh_project(interp)
        job = mk_job(interp, proj, "me")
        return [proj, job], {}, {"p": proj.p, "me": job.me}

    def post(self, interp, case, pre, outcome):
        ex, ctx = interp.ex, interp.ctx
        if outcome[0] != "return":
            ex.oblige(self.oname("raises:nothing"), False, note=repr(outcome[1]))
            return
        r = outcome[1]
        ex.oblige(self.oname("ensures:membership_iff_job_directory_exists"),
                  r.e == ctx.fs0.dirs[JD.mk(pre["p"], pre["me"])] if isinstance(r, SBool) else z3.BoolVal(False))


# ============================================================================= Project._get_statepoint_from_workspace / _get_statepoint


class GetSPFromWorkspace(PContract):
    target = f"{PRJ}.Project._get_statepoint_from_workspace"
    properties = ("C01", "C08", "C09")

    def cases(self):
        return [{"validate": True}, {"validate": False}]

    def setup(self, interp, case):
        proj = self.fresh_project(interp)
        i = z3.Const("id_q", Id)
        interp.ex.assume(CALC(NONEV) != i)
        kw = {} if case["validate"] else {"validate": False}
        return [proj, SId(i)], kw, {"p": proj.p, "i": i}

    def post(self, interp, case, pre, outcome):
        from signac.errors import JobsCorruptedError
        ex, ctx = interp.ex, interp.ctx
        fs0, p, i = ctx.fs0, pre["p"], pre["i"]
        k = JD.mk(p, i)
        n = fs0.ent[k][Name.SP]
        readable = z3.And(fs0.dirs[k], Node.is_File(n), jsonok(Node.data(n)))
        ok = z3.And(readable, CALC(parsed(Node.data(n))) == i) if case["validate"] else readable
        ex.oblige(self.oname("frame:reads_only"), ctx.fs.eq(fs0))
        if outcome[0] == "return":
            v = outcome[1]
            ex.oblige(self.oname("ensures:returns_the_parsed_file_content_only_if_it_validates"),
                      z3.And(ok, v.e == parsed(Node.data(n))) if isinstance(v, SSP) else z3.BoolVal(False))
        else:
            exc = outcome[1]
            if isinstance(exc, JobsCorruptedError):
                ids = getattr(exc, "job_ids", None)
                named = isinstance(ids, list) and len(ids) == 1 and isinstance(ids[0], SId)
                ex.oblige(self.oname("raises:JobsCorruptedError_names_the_job_and_the_directory_exists"),
                          z3.And(fs0.dirs[k], ids[0].e == i) if named else z3.BoolVal(False))
            elif isinstance(exc, KeyError):
                ex.oblige(self.oname("raises:KeyError_only_if_there_is_no_such_directory"), z3.Not(fs0.dirs[k]))
            else:
                ex.oblige(self.oname("raises:no_other_exception"), False, note=repr(exc))


def stub_get_sp_from_ws(interp, b):
    """callee view of _get_statepoint_from_workspace (clauses of GetSPFromWorkspace.post)"""
    from signac.errors import JobsCorruptedError
    ex, ctx = interp.ex, interp.ctx
    proj, jid, validate = b["self"], b["job_id"], b["validate"]
    if not isinstance(validate, bool):
        raise Unsupported("symbolic validate")
    p, i = proj.p, jid.e
    fs = ctx.fs
    k = JD.mk(p, i)
    n = fs.ent[k][Name.SP]
    readable = z3.And(fs.dirs[k], Node.is_File(n), jsonok(Node.data(n)))
    ok = z3.And(readable, CALC(parsed(Node.data(n))) == i) if validate else readable
    if ex.decide(ok, "sp-from-ws:ok"):
        if not (ctx.faults and ex.decide(None, "fault:sp-from-ws")):
            return SSP(parsed(Node.data(n)))
    if ex.decide(fs.dirs[k], "sp-from-ws:dir-exists"):
        raise RaiseSignal(JobsCorruptedError([jid]))
    raise RaiseSignal(KeyError(jid))


class GetSP(PContract):
    target = f"{PRJ}.Project._get_statepoint"
    properties = ("C01", "C08", "C09")

    def make_ctx(self, case):
        ctx = super().make_ctx(case)
        ctx.callee_contracts[f"{PRJ}.Project._get_statepoint_from_workspace"] = stub_get_sp_from_ws
        ctx.callee_contracts[f"{PRJ}.Project._read_cache"] = lambda interp, b: stub_read_cache(interp, b)
        return ctx

    def cases(self):
        # cache_read=False: the first look-up of a session, which merges the persistent cache file (possibly stale: it may lack jobs that
        # exist and name jobs that are gone) into the in-memory cache before looking the id up
        return [{"validate": v, "cache_read": r} for r in (True, False) for v in (True, False)]

    def setup(self, interp, case):
        proj = self.fresh_project(interp, cache_read=case["cache_read"])
        ex, ctx = interp.ex, interp.ctx
        i = z3.Const("id_q", Id)
        ex.assume(CALC(NONEV) != i)
        kw = {} if case["validate"] else {"validate": False}
        c = proj.fields["_sp_cache"]
        n = ctx.fs0.pf[PF.mk(proj.p, PName.CACHE)]
        ex.assume(z3.Implies(z3.And(Node.is_File(n), cache_ok(Node.data(n))), file_valid(Node.data(n))))
        return [proj, SId(i)], kw, {"proj": proj, "p": proj.p, "i": i, "dom0": c.dom, "val0": c.val, "node": n}

    def post(self, interp, case, pre, outcome):
        from signac.errors import JobsCorruptedError
        ex, ctx = interp.ex, interp.ctx
        fs0, p, i, proj = ctx.fs0, pre["p"], pre["i"], pre["proj"]
        c = proj.fields["_sp_cache"]
        k = JD.mk(p, i)
        n = fs0.ent[k][Name.SP]
        cn = pre["node"]
        d = Node.data(cn)
        if case["cache_read"]:
            hit, hitval = pre["dom0"][i], pre["val0"][i]
        else:
            in_file = z3.And(Node.is_File(cn), cache_ok(d), cache_dom(d, i))
            hit, hitval = z3.Or(pre["dom0"][i], in_file), z3.If(in_file, cache_val(d, i), pre["val0"][i])
        ex.oblige(self.oname("frame:reads_only"), ctx.fs.eq(fs0))
        if case["validate"]:
            ex.oblige(self.oname("inv:cache_entries_hash_to_their_key"), c.valid())
        if outcome[0] == "return":
            v = outcome[1]
            ex.oblige(self.oname("ensures:cache_hit_or_validated_workspace_value"),
                      z3.If(hit, v.e == hitval, z3.And(fs0.dirs[k], Node.is_File(n), jsonok(Node.data(n)), v.e == parsed(Node.data(n))))
                      if isinstance(v, SSP) else z3.BoolVal(False))
            if case["validate"]:
                # transparency: whether it came from the cache or from disk, the value hashes to the id
                ex.oblige(self.oname("ensures:result_hashes_to_the_id"), CALC(v.e) == i if isinstance(v, SSP) else z3.BoolVal(False))
            ex.oblige(self.oname("ensures:result_registered_in_the_cache"), z3.And(c.dom[i], c.val[i] == v.e) if isinstance(v, SSP) else z3.BoolVal(False))
        else:
            exc = outcome[1]
            if not case["cache_read"] and isinstance(exc, (SymOSError, json.JSONDecodeError)):
                # the cache file itself cannot be read / decoded (the rejection of _read_cache, passed on)
                ex.oblige(self.oname("raises:cache_file_errors_only_for_an_unreadable_cache_file"),
                          z3.Or(z3.BoolVal(isinstance(exc, SymOSError)), z3.And(Node.is_File(cn), z3.Not(cache_ok(d)))))
                ex.oblige(self.oname("raises:cache_unchanged"), z3.And(c.dom == pre["dom0"], c.val == pre["val0"]))
                return
            # a job that exists is found whatever the cache file says: a miss in a stale cache file goes to the workspace
            ex.oblige(self.oname("raises:only_on_a_cache_miss"), z3.Not(hit))
            ex.oblige(self.oname("raises:JobsCorruptedError_or_KeyError"), z3.BoolVal(isinstance(exc, (JobsCorruptedError, KeyError))))
            ex.oblige(self.oname("raises:KeyError_only_if_there_is_no_such_directory"), z3.Implies(z3.BoolVal(isinstance(exc, KeyError)), z3.Not(fs0.dirs[k])))
            if case["cache_read"]:
                ex.oblige(self.oname("raises:cache_unchanged"), z3.And(c.dom == pre["dom0"], c.val == pre["val0"]))


# ============================================================================= Project.check


class SIdBag(Sym):
    """a list of ids used as a collection (the `corrupted` accumulator): characteristic function + non-emptiness"""

    def __init__(self, member):
        self.member = member

    def sym_truth(self, ex):
        return SymSet(self.member).nonempty()

    def sym_getattr(self, ex, name):
        if name in ("extend", "append"):
            def ext(x):
                items = [x] if name == "append" else x
                if isinstance(items, SIdBag):
                    o, cur = items.member, self.member
                    self.member = lambda y: z3.Or(cur(y), o(y))
                    return None
                if not isinstance(items, list) or not all(isinstance(e, SId) for e in items):
                    raise Unsupported("extend with non-ids")
                cur = self.member
                es = [e.e for e in items]
                self.member = lambda y: z3.Or(cur(y), *[y == e for e in es])
                return None
            return NativeStub(ext, "list." + name)
        raise Unsupported(f"list.{name}")


def bag_view(v):
    if isinstance(v, SIdBag):
        return v.member
    if isinstance(v, list):
        es = [e.e for e in v]
        return lambda y: z3.Or(*[y == e for e in es]) if es else z3.BoolVal(False)
    raise Unsupported("id collection view")


def stub_get_sp(interp, b):
    """callee view of Project._get_statepoint (clauses of GetSP.post): a cache hit is returned as is, a miss goes to the workspace"""
    ex = interp.ex
    proj, jid = b["self"], b["job_id"]
    c = proj.fields["_sp_cache"]
    if ex.decide(c.dom[jid.e], "get_sp:cache-hit"):
        return SSP(c.val[jid.e])
    v = stub_get_sp_from_ws(interp, {"self": proj, "job_id": jid, "validate": b["validate"]})
    c.sym_setitem(ex, jid, v)
    return v


class ProjCheck(PContract):
    target = f"{PRJ}.Project.check"
    properties = ("C03", "C09", "C11")
    callees = {f"{PRJ}.Project._find_job_ids": stub_find_job_ids_all, f"{PRJ}.Project._get_statepoint_from_workspace": stub_get_sp_from_ws,
               f"{PRJ}.Project._get_statepoint": stub_get_sp, f"{JOB}.calc_id": lambda interp, b: interp.ctx.stub_calc_id(interp, b)}
    faults = False

    def loops(self, case):
        def inv(interp, fr, i, seq):
            ctx = interp.ctx
            mem = bag_view(interp.lookup(fr, "corrupted"))
            s, p, fs = ctx.ghost["ids"], ctx.ghost["p"], ctx.fs0
            return FA_id(lambda x: mem(x) == EX_idx(0, i, lambda k: z3.And(s.at(k) == x, z3.Not(fs.valid(p, x)))))

        def hv(interp, fr, tag):
            f = z3.Function(interp.ex.fresh_name("corr"), Id, z3.BoolSort())
            return SIdBag(lambda x: f(x))
        return {"self._find_job_ids()": LoopSpec("jobs", inv, havoc={"corrupted": hv}, scratch=("job_id", "error"))}

    def make_ctx(self, case):
        ctx = super().make_ctx(case)
        orig = ctx.callee_contracts[f"{PRJ}.Project._find_job_ids"]

        def wrapped(interp, b):
            s = orig(interp, b)
            interp.ctx.ghost["ids"] = s
            return s
        ctx.callee_contracts[f"{PRJ}.Project._find_job_ids"] = wrapped
        return ctx

    def setup(self, interp, case):
        proj = self.fresh_project(interp)
        interp.ctx.ghost["p"] = proj.p
        # ids of job directories are hashes of mappings, never of None (md5('null')): stated for the listed ids only
        interp.ex.assume(FA_id(lambda x: z3.Implies(interp.ctx.fs0.dirs[JD.mk(proj.p, x)], CALC(NONEV) != x)))
        return [proj], {}, {"proj": proj, "p": proj.p}

    def post(self, interp, case, pre, outcome):
        from signac.errors import JobsCorruptedError
        ex, ctx = interp.ex, interp.ctx
        fs0, p = ctx.fs0, pre["p"]
        ex.oblige(self.oname("frame:reads_only"), ctx.fs.eq(fs0))
        damaged = lambda x: z3.And(fs0.dirs[JD.mk(p, x)], z3.Not(fs0.valid(p, x)))
        if outcome[0] == "return":
            ex.oblige(self.oname("ensures:returns_normally_only_if_every_job_validates"), FA_id(lambda x: z3.Not(damaged(x))))
        else:
            exc = outcome[1]
            if not isinstance(exc, JobsCorruptedError):
                ex.oblige(self.oname("raises:only_JobsCorruptedError"), False, note=repr(exc))
                return
            ids = getattr(exc, "job_ids", None)
            try:
                mem = bag_view(ids)
            except BaseException:
                ex.oblige(self.oname("raises:JobsCorruptedError_carries_ids"), False)
                return
            ex.oblige(self.oname("raises:JobsCorruptedError_names_exactly_the_damaged_jobs"), FA_id(lambda x: mem(x) == damaged(x)))


CONTRACTS = [JobDirs(), ProjLen(), ContainsJobId(), ProjContains(), GetSPFromWorkspace(), GetSP(), ProjCheck()]


# ============================================================================= persistent state point cache: _read_cache / update_cache


def file_valid(d):
    """validity of a cache file content: every entry hashes to its key (the file is only ever written from a valid in-memory cache)"""
    return FA_id(lambda i: z3.Implies(cache_dom(d, i), CALC(cache_val(d, i)) == i))


def _setify(self, interp, v):
    if isinstance(v, SCache):
        return SymSet.of_array(v.dom)
    if isinstance(v, SCacheVal):
        return v.keyset()
    if isinstance(v, SIdSeq):
        return SymSet(lambda i: v.member(i))
    if isinstance(v, SymSet):
        return v.copy()
    raise Unsupported("set() of this value")


ProjCtx.setify = _setify


class ReadCache(PContract):
    target = f"{PRJ}.Project._read_cache"
    properties = ("C08", "C10")

    def setup(self, interp, case):
        proj = self.fresh_project(interp)
        ex, ctx = interp.ex, interp.ctx
        n = ctx.fs0.pf[PF.mk(proj.p, PName.CACHE)]
        ex.assume(z3.Implies(z3.And(Node.is_File(n), cache_ok(Node.data(n))), file_valid(Node.data(n))))
        c = proj.fields["_sp_cache"]
        return [proj], {}, {"proj": proj, "p": proj.p, "dom0": c.dom, "val0": c.val, "node": n}

    def post(self, interp, case, pre, outcome):
        ex, ctx = interp.ex, interp.ctx
        proj, n = pre["proj"], pre["node"]
        c = proj.fields["_sp_cache"]
        ex.oblige(self.oname("frame:reads_only"), ctx.fs.eq(ctx.fs0))
        if not isinstance(c, SCache):
            # the in-memory cache must stay an object of its own: update_cache compares the file's content (the returned snapshot)
            # with the in-memory cache *after* reconciling the latter with the workspace -- an alias makes that comparison trivial
            ex.oblige(self.oname("ensures:the_in-memory_cache_does_not_alias_the_snapshot_returned_to_the_caller"), False, note=f"_sp_cache is now a {type(c).__name__}")
            return
        ex.oblige(self.oname("inv:cache_entries_hash_to_their_key"), c.valid())
        if outcome[0] == "return":
            v = outcome[1]
            ex.oblige(self.oname("ensures:the_in-memory_cache_does_not_alias_the_snapshot_returned_to_the_caller"), z3.BoolVal(v is not c))
            if v is None:
                ex.oblige(self.oname("ensures:None_only_if_there_is_no_cache_file"), z3.And(z3.Not(Node.is_File(n)), c.dom == pre["dom0"], c.val == pre["val0"]))
            else:
                d = Node.data(n)
                ex.oblige(self.oname("ensures:returns_the_decoded_file"), z3.And(Node.is_File(n), cache_ok(d), v.d == d) if isinstance(v, SCacheVal) else z3.BoolVal(False))
                ex.oblige(self.oname("ensures:memory_cache_is_merged_with_the_file"),
                          FA_id(lambda i: z3.And(c.dom[i] == z3.Or(pre["dom0"][i], cache_dom(d, i)),
                                                 z3.Implies(c.dom[i], c.val[i] == z3.If(cache_dom(d, i), cache_val(d, i), pre["val0"][i])))))
        else:
            exc = outcome[1]
            ex.oblige(self.oname("raises:only_read_errors_or_an_undecodable_file"),
                      z3.Or(z3.BoolVal(isinstance(exc, SymOSError)), z3.And(Node.is_File(n), z3.Not(cache_ok(Node.data(n))))))
            ex.oblige(self.oname("raises:memory_cache_unchanged"), z3.And(c.dom == pre["dom0"], c.val == pre["val0"]))


def stub_read_cache(interp, b):
    ex, ctx = interp.ex, interp.ctx
    proj = b["self"]
    c = proj.fields["_sp_cache"]
    n = ctx.fs.pf[PF.mk(proj.p, PName.CACHE)]
    if not ex.decide(Node.is_File(n), "read_cache:file-present"):
        return None
    d = Node.data(n)
    if ctx.faults and ex.decide(None, "fault:read_cache"):
        e = z3.Int(ex.fresh_name("errno"))
        ex.assume(z3.And(e != errno.ENOENT, e > 0))
        raise RaiseSignal(SymOSError(e))
    if not ex.decide(cache_ok(d), "read_cache:decodable"):
        raise RaiseSignal(json.JSONDecodeError("x", "", 0))
    v = SCacheVal(d)
    c.sym_getattr(ex, "update").f(v)
    return v


def stub_update_in_memory_cache(interp, b):
    """callee view of _update_in_memory_cache: the in-memory cache ends up with exactly the workspace ids, new entries validated
    from the workspace (thread pool modelled as a sequential map: assumption)"""
    from signac.errors import JobsCorruptedError
    ex, ctx = interp.ex, interp.ctx
    proj = b["self"]
    p, c, fs = proj.p, proj.fields["_sp_cache"], ctx.fs
    ex.assumptions_used.add("_update_in_memory_cache through its contract (UpdateInMemoryCache, contracts/memcache.py): afterwards the in-memory cache has exactly the workspace ids, each entry hashing to its id")
    nd = z3.Array(ex.fresh_name("cdom_m"), Id, z3.BoolSort())
    nv = z3.Array(ex.fresh_name("cval_m"), Id, SPv)
    dom0, val0 = c.dom, c.val
    D = ctx.ghost.get("Darr")
    if D is None:
        D = z3.Array(ex.fresh_name("D"), Id, z3.BoolSort())
        ex.assume(FA_id(lambda i: D[i] == fs.dirs[JD.mk(p, i)]))
        ctx.ghost["Darr"] = D
    if ctx.faults and ex.decide(None, "update_in_memory_cache:raises"):
        ex.assume(FA_id(lambda i: z3.Implies(nd[i], CALC(nv[i]) == i)))
        c.dom, c.val = nd, nv
        raise RaiseSignal(JobsCorruptedError([SId(ex.fresh("bad", Id))]))
    ex.assume(z3.And(nd == D, FA_id(lambda i: z3.Implies(nd[i], z3.And(CALC(nv[i]) == i, z3.Implies(dom0[i], nv[i] == val0[i]))))))
    changed = dom0 != nd
    c.dom, c.val = nd, nv
    if ex.decide(changed, "update_in_memory_cache:changed"):
        return ("to_add", "to_remove")
    return None


class UpdateCache(PContract):
    target = f"{PRJ}.Project.update_cache"
    properties = ("C01", "C08", "C09", "C10")
    shard_bits = 2
    callees = {f"{PRJ}.Project._read_cache": stub_read_cache, f"{PRJ}.Project._update_in_memory_cache": stub_update_in_memory_cache}

    def make_ctx(self, case):
        ctx = super().make_ctx(case)
        import time
        ctx.externals[time.time] = lambda interp: 0.0
        return ctx

    def setup(self, interp, case):
        proj = self.fresh_project(interp)
        ex, ctx = interp.ex, interp.ctx
        p = proj.p
        n = ctx.fs0.pf[PF.mk(p, PName.CACHE)]
        ex.assume(z3.Implies(z3.And(Node.is_File(n), cache_ok(Node.data(n))), file_valid(Node.data(n))))
        ex.assume(z3.Not(Node.is_Sub(n)))
        pre = {"proj": proj, "p": p, "node": n}
        ctx.ghost["pre"] = pre
        return [proj], {}, pre

    def crash_invariant(self, interp, ctx, label, fs):
        pre = ctx.ghost.get("pre")
        if not pre:
            return
        ex = interp.ex
        p, n0 = pre["p"], pre["node"]
        n = fs.pf[PF.mk(p, PName.CACHE)]
        fs0 = ctx.fs0
        proj = pre["proj"]
        # at every instant the cache file is the complete old content or a complete new content: never torn, never empty
        ex.oblige(self.oname("crash:cache_file_is_complete_old_or_complete_new"),
                  z3.Or(n == n0, z3.And(Node.is_File(n), cache_ok(Node.data(n)), file_valid(Node.data(n)))))
        ex.oblige(self.oname("crash:nothing_but_the_cache_and_its_temp_file_is_touched"),
                  z3.And(fs.dirs == fs0.dirs, fs.ent == fs0.ent, fs.ws == fs0.ws,
                         fs.pf == z3.Store(z3.Store(fs0.pf, PF.mk(p, PName.CACHE), n), PF.mk(p, PName.CACHETMP), fs.pf[PF.mk(p, PName.CACHETMP)])))

    def post(self, interp, case, pre, outcome):
        from signac.errors import JobsCorruptedError
        ex, ctx = interp.ex, interp.ctx
        fs0, fs, p, proj = ctx.fs0, ctx.fs, pre["p"], pre["proj"]
        n0, n = pre["node"], fs.pf[PF.mk(p, PName.CACHE)]
        c = proj.fields["_sp_cache"]
        Darr = ctx.ghost.get("Darr")
        if Darr is None:
            Darr = z3.Array(ex.fresh_name("D"), Id, z3.BoolSort())
            ex.assume(FA_id(lambda i: Darr[i] == fs0.dirs[JD.mk(p, i)]))
        D = lambda i: Darr[i]
        ex.oblige(self.oname("frame:job_directories_untouched"), z3.And(fs.dirs == fs0.dirs, fs.ent == fs0.ent, fs.ws == fs0.ws))
        # the file is trusted by later sessions (open_job by id takes a cached state point as the job's): what goes into it is the strict
        # JSON text of the cache -- a value that is not JSON is refused (TypeError), never replaced by some text standing in for it
        ex.oblige(self.oname("ensures:the_cache_file_is_the_strict_JSON_encoding_of_the_cache_(no_fallback_for_values_that_are_not_JSON)"),
                  z3.BoolVal("cache_dump_options" not in ctx.ghost), note=str(ctx.ghost.get("cache_dump_options")))
        if outcome[0] == "return":
            d = Node.data(n)
            exact = z3.And(Node.is_File(n), cache_ok(d), cache_domA(d) == Darr, FA_id(lambda i: z3.Implies(D(i), CALC(cache_val(d, i)) == i)))
            ex.oblige(self.oname("ensures:cache_file_lists_exactly_the_workspace_ids_with_valid_state_points"), exact)
            ex.oblige(self.oname("ensures:no_temp_file_left"), fs.pf[PF.mk(p, PName.CACHETMP)] == fs0.pf[PF.mk(p, PName.CACHETMP)])
            r = outcome[1]
            d0 = Node.data(n0)
            was_exact = z3.And(Node.is_File(n0), cache_ok(d0), cache_domA(d0) == Darr)
            ex.oblige(self.oname("ensures:nothing_to_do_reported_iff_the_file_was_already_exact"),
                      z3.BoolVal(r is None) == was_exact if (r is None or isinstance(r, (SInt, int))) else z3.BoolVal(False))
            ex.oblige(self.oname("ensures:nothing_written_when_nothing_to_do"), z3.Implies(z3.BoolVal(r is None), fs.eq(fs0)))
        else:
            exc = outcome[1]
            ex.oblige(self.oname("raises:cache_file_unchanged_or_complete"), z3.Or(n == n0, z3.And(Node.is_File(n), cache_ok(Node.data(n)))))
            ex.oblige(self.oname("raises:only_modelled_errors"), z3.BoolVal(isinstance(exc, (SymOSError, JobsCorruptedError, json.JSONDecodeError))))


CONTRACTS += [ReadCache(), UpdateCache()]


# ============================================================================= Project.repair  (per-iteration triple)


class ProjRepair(PContract):
    """repair(): verified as a per-iteration triple for an arbitrary job id and an arbitrary well-formed workspace state:
    no exception escapes the loop body, only the directories `job_id` / `correct_id` are touched, and the job's data files
    (everything but the state point file) are carried over intact.  'Every repairable job ends up repaired' needs a totality
    clause of Job.init and is bounded-only."""
    target = f"{PRJ}.Project.repair"
    properties = ("C09", "C11")
    shard_bits = 4
    callees = {f"{PRJ}.Project._read_cache": stub_read_cache,
               f"{PRJ}.Project.open_job": stub_open_job_by_sp, f"{JOB}.Job.init": stub_job_init}

    def make_ctx(self, case):
        ctx = super().make_ctx(case)

        def get_sp(interp, b):
            # callee view of _get_statepoint(job_id, validate=False) (clauses of GetSP.post)
            from signac.errors import JobsCorruptedError
            ex = interp.ex
            proj, jid = b["self"], b["job_id"]
            if b["validate"] is not False:
                raise Unsupported("repair must look state points up without validation")
            c = proj.fields["_sp_cache"]
            if ex.decide(c.dom[jid.e], "get_sp:cache-hit"):
                return SSP(c.val[jid.e])
            v = stub_get_sp_from_ws(interp, {"self": proj, "job_id": jid, "validate": False})
            c.sym_setitem(ex, jid, v)
            return v
        ctx.callee_contracts[f"{PRJ}.Project._get_statepoint"] = get_sp
        ctx.callee_contracts[f"{PRJ}.Project._get_statepoint_from_workspace"] = stub_get_sp_from_ws
        orig_open = stub_open_job_by_sp

        def open_job(interp, b):
            # the cache is authoritative for a job it knows: a (possibly foreign but valid JSON) state point file must not win over it
            ex = interp.ex
            proj, sp = b["self"], b["statepoint"]
            jid = ctx.ghost.get("cur_job_id")
            c0 = ctx.ghost.get("cache0")
            if jid is not None and c0 is not None and sp is not None:
                ex.oblige(self.oname("call[open_job]:a_job_known_to_the_cache_is_restored_from_the_cache"),
                          z3.Implies(c0[0][jid], spv_of(sp) == c0[1][jid]))
            return orig_open(interp, b)
        ctx.callee_contracts[f"{PRJ}.Project.open_job"] = open_job

        def find_all(interp, b):
            s = stub_find_job_ids_all(interp, b)
            s.label = "job_ids"
            return s
        ctx.callee_contracts[f"{PRJ}.Project._find_job_ids"] = find_all
        return ctx

    def loops(self, case):
        def inv(interp, fr, i, seq):
            return z3.BoolVal(True)

        def hv_fs(interp, fr, tag):
            ctx, ex = interp.ctx, interp.ex
            f = FS.fresh(ex.fresh_name("iter"))
            for a in f.wf():
                ex.assume(a)
            ctx.fs = f
            ctx.ghost["fs_iter0"] = f
            ctx.ghost["in_body"] = True
            c = ctx.ghost["proj"].fields["_sp_cache"]
            ctx.ghost["cache0"] = (c.dom, c.val)

        def hv_bag(interp, fr, tag):
            f = z3.Function(interp.ex.fresh_name("corr"), Id, z3.BoolSort())
            return SIdBag(lambda x: f(x))

        def body_post(interp, fr, writes):
            ctx, ex = interp.ctx, interp.ex
            fs0, fs, p = ctx.ghost["fs_iter0"], ctx.fs, ctx.ghost["p"]
            jid = interp.lookup(fr, "job_id").e
            cid = fr.vars.get("correct_id")
            cid = cid.e if isinstance(cid, SId) else jid
            kj, kc = JD.mk(p, jid), JD.mk(p, cid)
            j = z3.Const("rp_j", JD)
            nm = z3.Const("rp_nm", Name)
            ex.oblige(self.oname("body:only_the_job_and_its_correct_directory_are_touched"),
                      z3.And(z3.ForAll([j], z3.Implies(z3.And(j != kj, j != kc), z3.And(fs.dirs[j] == fs0.dirs[j], fs.ent[j] == fs0.ent[j]))), fs.pf == fs0.pf))
            same_data = lambda a, b: z3.ForAll([nm], z3.Implies(nm != Name.SP, a[nm] == b[nm]))
            ex.oblige(self.oname("body:documents_and_data_files_of_the_job_are_carried_over_intact"),
                      z3.Implies(fs0.dirs[kj], z3.Or(z3.And(fs.dirs[kj], same_data(fs.ent[kj], fs0.ent[kj])),
                                                     z3.And(z3.Not(fs.dirs[kj]), fs.dirs[kc], same_data(fs.ent[kc], fs0.ent[kj])))))
            ex.oblige(self.oname("body:an_occupied_correct_directory_is_never_clobbered"),
                      z3.Implies(z3.And(kc != kj, fs0.dirs[kc], fs0.ent[kc] != EMPTY), same_data(fs.ent[kc], fs0.ent[kc])))
            # C11 "never forge a job": when the move of a mis-keyed directory fails, nothing is created under the correct id either
            ex.oblige(self.oname("body:a_directory_under_the_correct_id_comes_into_being_only_by_moving_the_job_there_(no_empty_job_is_forged_when_the_move_fails)"),
                      z3.Implies(z3.And(kc != kj, z3.Not(fs0.dirs[kc]), fs.dirs[kc]), z3.Not(fs.dirs[kj])))

        return {"job_ids": LoopSpec("jobs", inv, havoc={"$fs": hv_fs, "corrupted": hv_bag},
                                    scratch=("job_id", "statepoint", "correct_id", "invalid_wd", "correct_wd", "job", "error", "error2"), heap_frame=lambda i, f, w: body_post(i, f, w))}

    def cases(self):
        return [{"ids": "all"}, {"ids": "given"}]

    def setup(self, interp, case):
        proj = self.fresh_project(interp)
        ex, ctx = interp.ex, interp.ctx
        ctx.ghost["p"] = proj.p
        ctx.ghost["proj"] = proj
        n = ctx.fs0.pf[PF.mk(proj.p, PName.CACHE)]
        ex.assume(z3.Implies(z3.And(Node.is_File(n), cache_ok(Node.data(n))), file_valid(Node.data(n))))
        ctx.overrides[(JOB, "RLock")] = NativeStub(lambda: None, "RLock")
        kw = {}
        if case["ids"] == "given":
            s = SIdSeq.__new__(SIdSeq)
            s.n = z3.Int("n_given")
            s.at = z3.Function("given_at", z3.IntSort(), Id)
            s.label = "job_ids"
            ex.assume(s.n >= 0)
            kw["job_ids"] = s
        return [proj], kw, {"proj": proj, "p": proj.p}

    def post(self, interp, case, pre, outcome):
        from signac.errors import JobsCorruptedError
        ex, ctx = interp.ex, interp.ctx
        if outcome[0] == "raise":
            exc = outcome[1]
            in_body = ctx.ghost.get("in_body", False)
            if isinstance(exc, JobsCorruptedError) and isinstance(getattr(exc, "job_ids", None), SIdBag):
                ex.oblige(self.oname("raises:final_report_only_if_some_job_could_not_be_repaired"), SymSet(exc.job_ids.member).nonempty())
            elif isinstance(exc, SymOSError) or (not in_body and not isinstance(exc, JobsCorruptedError)):
                pass    # reading the cache / listing failed before any repair was attempted
            else:
                ex.oblige(self.oname("body:no_exception_escapes_the_repair_of_one_job"), False, note=repr(exc))


CONTRACTS += [ProjRepair()]


# ============================================================================= JobsCursor: len / contains / iter / getitem describe one id set


class SFilterTok(Sym):
    """a non-empty parsed filter mapping (opaque)"""

    def sym_truth(self, ex):
        return True

    def sym_eq(self, ex, other):
        return isinstance(other, SFilterTok) and other is self


class CursorContract(PContract):
    properties = ("C07",)
    faults = False
    inline = GETTERS + (f"{PRJ}.JobsCursor._ids", f"{PRJ}.JobsCursor._id_set", f"{PRJ}._JobsCursorIterator.__init__", f"{JOB}.Job.__init__")

    def cases(self):
        return [{"filter": f, "cached": c} for f in (False, True) for c in (False, True)]

    def mk(self, interp, case):
        ex, ctx = interp.ex, interp.ctx
        proj = self.fresh_project(interp)
        rp = interp.repo
        cur = Obj(rp.classes[f"{PRJ}.JobsCursor"])
        flt = SFilterTok() if case["filter"] else None
        S = SIdSeq(ex, ctx.fs, proj.p, "ids")           # ids for filter None: the listing
        if case["filter"]:
            S = SIdSeq.__new__(SIdSeq)
            S.n = z3.Int("n_sel")
            S.at = z3.Function("sel_at", z3.IntSort(), Id)
            S.label = "ids"
            a, b = z3.Ints("ca cb")
            ex.assume(z3.And(S.n >= 0, z3.ForAll([a, b], z3.Implies(z3.And(0 <= a, a < b, b < S.n), S.at(a) != S.at(b)))))
        ctx.ghost.update({"S": S, "proj": proj, "flt": flt, "calls": 0})
        cur.fields.update(_project=proj, _filter=flt, _id_cache=S if case["cached"] else None, _id_set_cache=None)

        def find(interp_, b):
            ok = b["self"] is proj and b["filter"] is flt
            ex.oblige(self.oname("call[_find_job_ids]:with_the_cursor's_own_filter"), z3.BoolVal(ok))
            ctx.ghost["calls"] += 1
            return S
        ctx.callee_contracts[f"{PRJ}.Project._find_job_ids"] = find
        lst = SIdSeq(ex, ctx.fs, proj.p, "listing")
        ctx.callee_contracts[f"{PRJ}.Project.__len__"] = lambda interp_, b: SInt(lst.n)
        ctx.callee_contracts[f"{PRJ}.Project.__contains__"] = lambda interp_, b: SBool(ctx.fs.dirs[JD.mk(proj.p, b["job"].fields["_id"].e)])
        ctx.ghost["lst"] = lst
        ctx.overrides[(JOB, "RLock")] = NativeStub(lambda: None, "RLock")
        return cur, proj, S

    def make_ctx(self, case):
        ctx = super().make_ctx(case)
        ctx.setify = lambda interp, v: SymSet(lambda i: v.member(i)) if isinstance(v, SIdSeq) else (_ for _ in ()).throw(Unsupported("set()"))
        return ctx


class CursorLen(CursorContract):
    target = f"{PRJ}.JobsCursor.__len__"

    def setup(self, interp, case):
        cur, proj, S = self.mk(interp, case)
        return [cur], {}, {"S": S}

    def post(self, interp, case, pre, outcome):
        ex, g = interp.ex, interp.ctx.ghost
        r = outcome[1] if outcome[0] == "return" else None
        S = pre["S"]
        # two duplicate-free enumerations of the same set (the job directories) have the same length
        ex.assume(z3.Implies(z3.BoolVal(not case["filter"]), g["lst"].n == S.n), why="two duplicate-free listings of one workspace have equal length (Lean: nodup_same_set_length in /verif/lean/Meta.lean, re-checked in the thorough tier)")
        ex.oblige(self.oname("ensures:length_is_the_size_of_the_selected_id_set"), r.e == S.n if isinstance(r, SInt) else z3.BoolVal(False))


class CursorContains(CursorContract):
    target = f"{PRJ}.JobsCursor.__contains__"

    def setup(self, interp, case):
        cur, proj, S = self.mk(interp, case)
        job = mk_job(interp, proj, "q", lazy=True, cached=False, path_known=False)
        return [cur, job], {}, {"S": S, "job": job}

    def post(self, interp, case, pre, outcome):
        ex = interp.ex
        r = outcome[1] if outcome[0] == "return" else None
        rb = r.e if isinstance(r, SBool) else (z3.BoolVal(r) if isinstance(r, bool) else None)
        ex.oblige(self.oname("ensures:membership_iff_the_job_id_is_in_the_selected_id_set"), rb == pre["S"].member(pre["job"].me) if rb is not None else z3.BoolVal(False))


class CursorGetitem(CursorContract):
    target = f"{PRJ}.JobsCursor.__getitem__"

    def make_ctx(self, case):
        ctx = super().make_ctx(case)

        def sym_index(ex, o, k):
            raise Unsupported("index")
        return ctx

    def setup(self, interp, case):
        cur, proj, S = self.mk(interp, case)
        i = z3.Int("index")
        interp.ex.assume(z3.And(i >= 0, i < S.n))
        S.sym_getitem = lambda ex, k, S=S: SId(S.at(k.e)) if isinstance(k, SInt) else (_ for _ in ()).throw(Unsupported("slice of a symbolic id list"))
        return [cur, SInt(i)], {}, {"S": S, "i": i, "proj": proj}

    def post(self, interp, case, pre, outcome):
        ex = interp.ex
        j = outcome[1] if outcome[0] == "return" else None
        ok = isinstance(j, Obj) and j.cls.name == "Job" and isinstance(j.fields.get("_id"), SId) and j.fields.get("_project") is pre["proj"]
        ex.oblige(self.oname("ensures:indexing_returns_the_handle_of_the_i-th_selected_id"), j.fields["_id"].e == pre["S"].at(pre["i"]) if ok else z3.BoolVal(False))


CONTRACTS += [CursorLen(), CursorContains(), CursorGetitem()]


# ============================================================================= Project._build_index (what the search index is built from)


class BuildIndex(PContract):
    target = f"{PRJ}.Project._build_index"
    properties = ("C06", "C18")
    faults = False
    callees = {f"{PRJ}.Project._find_job_ids": stub_find_job_ids_all, f"{PRJ}.Project._get_statepoint": stub_get_sp}

    def cases(self):
        return [{"include": False}, {"include": True}]

    def loops(self, case):
        inv = lambda interp, fr, i, seq: z3.BoolVal(True)

        def body(interp, fr, writes):
            ctx, ex = interp.ctx, interp.ex
            g = ctx.ghost
            ys = g["yielded"]
            jid = g.get("cur_job_id")
            p = g["p"]
            ok = len(ys) == 1 and isinstance(ys[0], tuple) and len(ys[0]) == 2 and isinstance(ys[0][0], SId) and isinstance(ys[0][1], dict)
            ex.oblige(self.oname("body:every_listed_job_is_indexed_exactly_once"), z3.BoolVal(ok), note=f"{len(ys)} entries yielded for one job")
            if not ok:
                return
            yid, doc = ys[0]
            ex.oblige(self.oname("body:entry_is_keyed_by_the_job_id"), yid.e == jid)
            sp = doc.get("sp")
            ex.oblige(self.oname("body:entry_carries_the_job's_state_point_under_'sp'"), z3.BoolVal(isinstance(sp, SSP) and set(doc) <= {"sp", "doc"}))
            n = ctx.fs.ent[JD.mk(p, jid)][Name.DOC]
            has_file = z3.And(ctx.fs.dirs[JD.mk(p, jid)], Node.is_File(n))
            if case["include"]:
                ex.oblige(self.oname("body:document_included_iff_the_document_file_exists"), z3.BoolVal("doc" in doc) == has_file)
                if "doc" in doc:
                    d = doc["doc"]
                    ex.oblige(self.oname("body:included_document_is_the_parsed_file_content"), d.e == parsed(Node.data(n)) if isinstance(d, SSP) else z3.BoolVal(False))
            else:
                ex.oblige(self.oname("body:no_document_unless_requested"), z3.BoolVal("doc" not in doc))
            g["yielded"].clear()
        return {"self._find_job_ids()": LoopSpec("jobs", inv, havoc={}, scratch=("job_id", "doc", "fn_document", "file", "error"), heap_frame=body)}

    def setup(self, interp, case):
        proj = self.fresh_project(interp)
        interp.ctx.ghost.update({"p": proj.p, "yielded": []})
        return [proj], {"include_job_document": case["include"]}, {}

    def yield_hook(self, interp, case, pre):
        return lambda v: interp.ctx.ghost["yielded"].append(v)

    def post(self, interp, case, pre, outcome):
        ex, ctx = interp.ex, interp.ctx
        ex.oblige(self.oname("frame:reads_only"), ctx.fs.eq(ctx.fs0))
        if outcome[0] == "raise":
            import json as _json
            ex.oblige(self.oname("raises:only_lookup_or_decode_errors"), z3.BoolVal(isinstance(outcome[1], (KeyError, _json.JSONDecodeError, UnicodeDecodeError)) or type(outcome[1]).__name__ in ("JobsCorruptedError", "WorkspaceError")), note=repr(outcome[1]))


CONTRACTS += [BuildIndex()]


# ============================================================================= Project.detect_schema: which jobs the summary is computed from


class SIdxTok(Sym):
    """a _SearchIndexer with a concrete key list (ids as plain strings) and opaque per-job documents"""

    def __init__(self, keys):
        self.keys = list(keys)

    def sym_getattr(self, ex, name):
        if name == "keys":
            return NativeStub(lambda: list(self.keys), "index.keys")
        raise Unsupported(f"index.{name}")

    def sym_getitem(self, ex, k):
        if k in self.keys:
            return ("docs-of", k)
        raise RaiseSignal(KeyError(k))


class DetectSchema(PContract):
    target = f"{PRJ}.Project.detect_schema"
    properties = ("C18",)
    faults = False
    inline = GETTERS + ("signac.schema.ProjectSchema.__init__",)

    def cases(self):
        return [{"subset": s, "exclude_const": e} for s in (None, "empty", "some", "unknown-ids") for e in (False, True)]

    def make_ctx(self, case):
        ctx = super().make_ctx(case)
        g = ctx.ghost
        ALL = ["id1", "id2", "id3"]
        g["all"] = ALL
        ctx.callee_contracts[f"{PRJ}.Project._build_index"] = lambda interp, b: ("build_index", b["include_job_document"])

        def inst(interp, rc, args, kw):
            if rc.name == "_SearchIndexer":
                a = args[0]
                if isinstance(a, tuple) and a and a[0] == "build_index":
                    g["include_doc"] = a[1]
                    return SIdxTok(ALL)
                items = list(a)
                return SIdxTok([k for k, _ in items])
            return NotImplemented
        ctx.instantiate = inst

        def bjsi(interp, b):
            g["handed"] = b["index"]
            g["exclude_const"] = b["exclude_const"]
            return []
        ctx.callee_contracts["signac.schema._build_job_statepoint_index"] = bjsi
        return ctx

    def setup(self, interp, case):
        proj = self.fresh_project(interp)
        sub = {None: None, "empty": [], "some": ["id3", "id1"], "unknown-ids": ["id2", "zzz"]}[case["subset"]]
        return [proj], {"exclude_const": case["exclude_const"], "subset": sub}, {"sub": sub}

    def post(self, interp, case, pre, outcome):
        ex, g = interp.ex, interp.ctx.ghost
        if outcome[0] != "return":
            ex.oblige(self.oname("raises:nothing"), False, note=repr(outcome[1]))
            return
        h = g.get("handed")
        want = g["all"] if pre["sub"] is None else [i for i in g["all"] if i in pre["sub"]]
        ex.oblige(self.oname("ensures:schema_is_computed_from_exactly_the_selected_existing_jobs_(an_empty_selection_selects_nothing)"),
                  z3.BoolVal(isinstance(h, SIdxTok) and sorted(h.keys) == sorted(want)), note=f"index keys {getattr(h, 'keys', None)}, selection {pre['sub']}")
        ex.oblige(self.oname("ensures:exclude_const_is_forwarded_and_documents_are_not_indexed"),
                  z3.BoolVal(g.get("exclude_const") is case["exclude_const"] and g.get("include_doc") is False))


CONTRACTS += [DetectSchema(), OpenJobById()]
