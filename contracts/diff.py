"""Sidecar contract for signac.diff.diff_jobs (C18): set algebra on flattened (key, value) pairs.
Unbounded in the content of the state points; the number of jobs is enumerated 0..3 (stated bound on the argument count)."""
import z3

from pyvc.core import NativeStub, Sym, Unsupported
from pyvc.interp import Obj
from pyvc.theory_fs import SPv
from pyvc.theory_j import SId, SymSet
from pyvc.verify import Contract

from .jobfs import JOB, JobCtx, SSP, mk_job, mk_project

Pair = z3.DeclareSort("Pair")                                  # a (dotted key, hashable value) pair
PAIRS = z3.Function("PAIRS", SPv, Pair, z3.BoolSort())         # flattening of a state point (contract of _nested_dicts_to_dotted_keys)


class SPairSeq(Sym):
    def __init__(self, sp):
        self.sp = sp


class SPairDict(Sym):
    def __init__(self, s):
        self.s = s


class SNested(Sym):
    """_dotted_dict_to_nested_dicts(dict(pairs)): determined by the pair set"""

    def __init__(self, s):
        self.s = s


class DiffCtx(JobCtx):
    def setify(self, interp, v):
        if isinstance(v, SPairSeq):
            sp = v.sp
            return SymSet(lambda x: PAIRS(sp, x), Pair)
        return super().setify(interp, v)

    def dictify(self, interp, v):
        if isinstance(v, SymSet) and v.sort is Pair:
            return SPairDict(v)
        return super().dictify(interp, v)

    def builtin_hook(self, interp, f, args, kw):
        if f is set.intersection and args and all(isinstance(a, SymSet) for a in args):
            ms = [a.member for a in args]
            return SymSet(lambda x: z3.And(*[m(x) for m in ms]), Pair)
        return super().builtin_hook(interp, f, args, kw)


def stub_flatten(interp, b):
    d = b["d"]
    if isinstance(d, SSP) and b.get("key") is None:
        return SPairSeq(d.e)
    raise Unsupported("_nested_dicts_to_dotted_keys on this value")


def stub_nest(interp, b):
    d = b["dotted_dict"]
    if isinstance(d, SPairDict) and b.get("delimiter_nested", ".") == ".":
        return SNested(d.s)
    raise Unsupported("_dotted_dict_to_nested_dicts on this value")


class DiffJobs(Contract):
    target = "signac.diff.diff_jobs"
    properties = ("C18",)
    ctx_class = DiffCtx
    inline = (f"{JOB}.Job.id", f"{JOB}.Job.statepoint", f"{JOB}.Job.path", f"{JOB}.Job._statepoint_filename")
    callees = {"signac._utility._nested_dicts_to_dotted_keys": stub_flatten, "signac._utility._dotted_dict_to_nested_dicts": stub_nest}
    assumptions = ("argument count enumerated 0..3 (bounded in the number of jobs, unbounded in their content)", "jobs passed have pairwise distinct ids")

    def cases(self):
        return [{"n": n} for n in range(4)]

    def setup(self, interp, case):
        ex, ctx = interp.ex, interp.ctx
        ctx.fs_init(ex)
        ctx.faults = False
        proj = mk_project(ex)
        jobs = [mk_job(interp, proj, f"j{k}", lazy=False, path_known=True) for k in range(case["n"])]
        for a in range(len(jobs)):
            for b in range(a + 1, len(jobs)):
                ex.assume(jobs[a].me != jobs[b].me)
        return jobs, {}, {"jobs": jobs}

    def post(self, interp, case, pre, outcome):
        ex = interp.ex
        jobs = pre["jobs"]
        if outcome[0] != "return":
            ex.oblige(self.oname("raises:nothing"), False, note=repr(outcome[1]))
            return
        r = outcome[1]
        if not isinstance(r, dict):
            ex.oblige(self.oname("ensures:returns_a_dict"), False)
            return
        if not jobs:
            ex.oblige(self.oname("ensures:no_jobs_give_an_empty_diff"), z3.BoolVal(r == {}))
            return
        keys = list(r)
        ok = len(keys) == len(jobs) and all(isinstance(k, SId) for k in keys)
        ex.oblige(self.oname("ensures:one_entry_per_job_id"), z3.BoolVal(ok))
        if not ok:
            return
        x = z3.Const("dx", Pair)
        common = z3.And(*[PAIRS(j.sp, x) for j in jobs])
        for j, k in zip(jobs, keys):
            v = r[k]
            ex.oblige(self.oname("ensures:entries_keyed_by_the_job_ids_in_order"), k.e == j.me)
            ex.oblige(self.oname("ensures:each_diff_is_exactly_the_pairs_not_shared_by_all_jobs"),
                      z3.ForAll([x], v.s.member(x) == z3.And(PAIRS(j.sp, x), z3.Not(common))) if isinstance(v, SNested) else z3.BoolVal(False))
            if isinstance(v, SNested):
                ex.oblige(self.oname("ensures:common_part_plus_diff_reconstructs_the_state_point"),
                          z3.ForAll([x], z3.Or(v.s.member(x), common) == PAIRS(j.sp, x)))


CONTRACTS = [DiffJobs()]
