"""Sidecar contract for signac.diff.diff_jobs (C18): set algebra on flattened (key, value) pairs.
Unbounded in the content of the state points; the number of jobs is enumerated 0..3 (stated bound on the argument count)."""
import z3

from pyvc.core import NativeStub, Sym, Unsupported
from pyvc.interp import Obj
from pyvc.theory_fs import SPv
from pyvc.theory_j import SId, SymSet
from pyvc.verify import Contract

from .jobfs import JOB, JobCtx, SSP, mk_job, mk_project

Pair = z3.DeclareSort("Pair")                                  # a (dotted key, hashable value) pair
PAIRS = z3.Function("PAIRS", SPv, Pair, z3.BoolSort())         # flattening of a state point (contract of _nested_dicts_to_dotted_keys)


class SPairSeq(Sym):
    def __init__(self, sp):
        self.sp = sp


class SPairDict(Sym):
    def __init__(self, s):
        self.s = s


class SNested(Sym):
    """_dotted_dict_to_nested_dicts(dict(pairs)): determined by the pair set"""

    def __init__(self, s):
        self.s = s


# _nested_dicts_to_dotted_keys reports an empty mapping as a leaf value *unconverted* (only lists are made hashable by it): a caller that puts
# the pairs into a set has to convert the values first
HASHABLE_CLAUSE = "signac.diff.diff_jobs#ensures:leaf_values_are_made_hashable_before_the_pairs_are_put_into_a_set_(an_empty_mapping_is_a_leaf_value)"


class SPairPart(Sym):
    """the key / the value / the hashable form of the value of one generic flattened pair"""

    def __init__(self, x, part):
        self.x, self.part = x, part


def stub_to_hashable(interp, b):
    o = b["obj"]
    if isinstance(o, SPairPart) and o.part in ("value", "hashable-value"):
        return SPairPart(o.x, "hashable-value")
    raise Unsupported("_to_hashable on this value")


class DiffCtx(JobCtx):
    def comprehension(self, interp, node, frame):
        import ast
        if isinstance(node, ast.SetComp) and len(node.generators) == 1 and not node.generators[0].ifs:
            g = node.generators[0]
            it = interp.ev(g.iter, frame)
            if isinstance(it, SPairSeq):
                # {f(key, value) for key, value in <flattened state point>}: evaluated for one generic pair; the result is the pair set of the
                # state point iff every pair is kept as (its key, its value or the hashable form of its value) -- a Pair is compared as the
                # hashable form anyway, _to_hashable being the identity on everything that is hashable already
                x = z3.Const(interp.ex.fresh_name("gen_pair"), Pair)
                f = interp._comp_frame(frame)
                interp.assign_target(g.target, (SPairPart(x, "key"), SPairPart(x, "value")), f)
                el = interp.ev(node.elt, f)
                ok = isinstance(el, tuple) and len(el) == 2 and all(isinstance(e, SPairPart) and e.x is x for e in el) \
                    and el[0].part == "key" and el[1].part in ("value", "hashable-value")
                if not ok:
                    raise Unsupported(f"set of something other than the flattened pairs: {el!r}"[:200])
                interp.ex.oblige(HASHABLE_CLAUSE, z3.BoolVal(el[1].part == "hashable-value"))
                sp = it.sp
                return SymSet(lambda y: PAIRS(sp, y), Pair)
        return super().comprehension(interp, node, frame)

    def setify(self, interp, v):
        if isinstance(v, SPairSeq):
            # set(<flattened pairs>) as they come: raises TypeError for a state point holding an empty mapping (finding F31)
            interp.ex.oblige(HASHABLE_CLAUSE, False)
            sp = v.sp
            return SymSet(lambda x: PAIRS(sp, x), Pair)
        return super().setify(interp, v)

    def dictify(self, interp, v):
        if isinstance(v, SymSet) and v.sort is Pair:
            return SPairDict(v)
        return super().dictify(interp, v)

    def builtin_hook(self, interp, f, args, kw):
        if f is set.intersection and args and all(isinstance(a, SymSet) for a in args):
            ms = [a.member for a in args]
            return SymSet(lambda x: z3.And(*[m(x) for m in ms]), Pair)
        return super().builtin_hook(interp, f, args, kw)


def stub_flatten(interp, b):
    d = b["d"]
    if isinstance(d, SSP) and b.get("key") is None:
        return SPairSeq(d.e)
    raise Unsupported("_nested_dicts_to_dotted_keys on this value")


def stub_nest(interp, b):
    d = b["dotted_dict"]
    if isinstance(d, SPairDict) and b.get("delimiter_nested", ".") == ".":
        return SNested(d.s)
    raise Unsupported("_dotted_dict_to_nested_dicts on this value")


class DiffJobs(Contract):
    target = "signac.diff.diff_jobs"
    properties = ("C18",)
    ctx_class = DiffCtx
    inline = (f"{JOB}.Job.id", f"{JOB}.Job.statepoint", f"{JOB}.Job.path", f"{JOB}.Job._statepoint_filename")
    callees = {"signac._utility._nested_dicts_to_dotted_keys": stub_flatten, "signac._utility._dotted_dict_to_nested_dicts": stub_nest,
               "signac._utility._to_hashable": stub_to_hashable}
    assumptions = ("argument count enumerated 0..3 (bounded in the number of jobs, unbounded in their content)", "jobs passed have pairwise distinct ids")

    def cases(self):
        return [{"n": n} for n in range(4)]

    def setup(self, interp, case):
        ex, ctx = interp.ex, interp.ctx
        ctx.fs_init(ex)
        ctx.faults = False
        proj = mk_project(ex)
        jobs = [mk_job(interp, proj, f"j{k}", lazy=False, path_known=True) for k in range(case["n"])]
        for a in range(len(jobs)):
            for b in range(a + 1, len(jobs)):
                ex.assume(jobs[a].me != jobs[b].me)
        return jobs, {}, {"jobs": jobs}

    def post(self, interp, case, pre, outcome):
        ex = interp.ex
        jobs = pre["jobs"]
        if outcome[0] != "return":
            ex.oblige(self.oname("raises:nothing"), False, note=repr(outcome[1]))
            return
        r = outcome[1]
        if not isinstance(r, dict):
            ex.oblige(self.oname("ensures:returns_a_dict"), False)
            return
        if not jobs:
            ex.oblige(self.oname("ensures:no_jobs_give_an_empty_diff"), z3.BoolVal(r == {}))
            return
        keys = list(r)
        ok = len(keys) == len(jobs) and all(isinstance(k, SId) for k in keys)
        ex.oblige(self.oname("ensures:one_entry_per_job_id"), z3.BoolVal(ok))
        if not ok:
            return
        x = z3.Const("dx", Pair)
        common = z3.And(*[PAIRS(j.sp, x) for j in jobs])
        for j, k in zip(jobs, keys):
            v = r[k]
            ex.oblige(self.oname("ensures:entries_keyed_by_the_job_ids_in_order"), k.e == j.me)
            ex.oblige(self.oname("ensures:each_diff_is_exactly_the_pairs_not_shared_by_all_jobs"),
                      z3.ForAll([x], v.s.member(x) == z3.And(PAIRS(j.sp, x), z3.Not(common))) if isinstance(v, SNested) else z3.BoolVal(False))
            if isinstance(v, SNested):
                ex.oblige(self.oname("ensures:common_part_plus_diff_reconstructs_the_state_point"),
                          z3.ForAll([x], z3.Or(v.s.member(x), common) == PAIRS(j.sp, x)))


CONTRACTS = [DiffJobs()]
