"""Rely/guarantee contracts for C12: actor functions verified under interference by the other actors of the property's script set
(Project(), open_job(sp).init(), document writes to other jobs, listings) at file-system-call granularity.

Before every file-system call of the verified function the ghost FS is replaced by any state the rely allows; every effect of the
function is proved to be a rely step for the others (guarantee).  Obligations: no exception escapes, the postcondition holds in the
final state, every own effect is within the guarantee."""
import z3

from pyvc.core import NativeStub, RaiseSignal, SBool, Sym, Unsupported
from pyvc.interp import Obj
from pyvc.theory_fs import CALC, EMPTY, FS, JD, NONEV, LJob, LPF, LProj, LWs, Name, Node, PName, SPv, jsonok, parsed
from pyvc.theory_j import Id
from pyvc.verify import Contract

from .config import GateCtx, SConfig, SVer
from .job import FSContract, GETTERS
from .jobfs import JOB, PRJ, JobCtx, mk_job, mk_project

CFG = "signac._config"


def rely_step(F, G, p, i):
    k = JD.mk(p, i)
    n0, n1 = F.ent[k][Name.SP], G.ent[k][Name.SP]
    return z3.And(z3.Implies(F.ws[p], G.ws[p]), z3.Implies(F.dirs[k], G.dirs[k]), z3.Implies(Node.is_File(n0), Node.is_File(n1)),
                  z3.Or(n1 == n0, z3.And(Node.is_File(n1), jsonok(Node.data(n1)), CALC(parsed(Node.data(n1))) == i)),
                  G.ent[k] == z3.Store(F.ent[k], Name.SP, n1))


class RGContract(FSContract):
    properties = ("C12",)
    faults = False
    level = "proof"

    def make_ctx(self, case):
        ctx = super().make_ctx(case)
        ctx.rg = True
        ctx.faults = False
        return ctx

    def guarantee(self, interp, ctx, label, F, G):
        for (p, i, sp) in ctx.ghost.get("rg_ids", []):
            interp.ex.oblige(self.oname("guarantee:every_own_effect_is_a_step_the_other_actors_can_rely_on"), rely_step(F, G, p, i), note=label)

    def start_ok(self, ex, fs0, p, me):
        """the workspace passes check(): a job directory that has a state point file has a valid one"""
        k = JD.mk(p, me)
        n = fs0.ent[k][Name.SP]
        ex.assume(z3.Implies(n != Node.Absent, fs0.valid(p, me)))
        ex.assume(z3.Implies(z3.Not(fs0.dirs[k]), fs0.ent[k] == EMPTY))


class MkdirPRG(RGContract):
    target = "signac._utility._mkdir_p"

    def setup(self, interp, case):
        ex, ctx = interp.ex, interp.ctx
        proj = mk_project(ex)
        me = z3.Const("id_me", Id)
        ctx.fs_init(ex, keys=[(proj.p, me)])
        which = ex.choose(2, "arg")
        loc = LJob(proj.p, me) if which == 0 else LWs(proj.p)
        ctx.ghost["rg_ids"] = [(proj.p, me, None)]
        ctx.ghost["rg_projects"] = [proj.p]
        return [loc], {}, {"loc": loc, "p": proj.p, "me": me}

    def post(self, interp, case, pre, outcome):
        ex, ctx = interp.ex, interp.ctx
        loc, fs = pre["loc"], ctx.fs
        if outcome[0] == "raise":
            ex.oblige(self.oname("rg:no_exception_escapes_when_another_actor_creates_the_directory_first"), False, note=repr(outcome[1]))
            return
        ex.oblige(self.oname("rg:directory_exists_on_return"), fs.dirs[JD.mk(loc.p, loc.i)] if isinstance(loc, LJob) else fs.ws[loc.p])


class JobInitRG(RGContract):
    """open_job(sp).init() raced by other processes initialising the same or other jobs"""
    target = f"{JOB}.Job.init"
    inline = GETTERS + (f"{JOB}.Job.statepoint", f"{JOB}._StatePointDict.__init__", f"{JOB}._StatePointDict.load", f"{JOB}._StatePointDict.save",
                        f"{PRJ}.Project._register", "signac._utility._mkdir_p")
    shard_bits = 2

    def setup(self, interp, case):
        ex, ctx = interp.ex, interp.ctx
        proj = mk_project(ex)
        ctx.fs_init(ex, keys=[(proj.p, z3.Const("id_me", Id))])
        job = mk_job(interp, proj, "me", cached=True)       # a handle obtained from open_job(statepoint)
        p, me = proj.p, job.me
        self.start_ok(ex, ctx.fs0, p, me)
        ex.assume(z3.Implies(job.fields["_directory_known"].e, ctx.fs0.dirs[JD.mk(p, me)]))
        ctx.ghost["rg_ids"] = [(p, me, job.sp)]
        ctx.ghost["rg_projects"] = [p]
        return [job], {}, {"job": job, "p": p, "me": me}

    def post(self, interp, case, pre, outcome):
        ex, ctx = interp.ex, interp.ctx
        if outcome[0] == "raise":
            ex.oblige(self.oname("rg:no_exception_escapes_under_any_interleaving"), False, note=repr(outcome[1]))
            return
        ex.oblige(self.oname("rg:job_directory_holds_a_valid_state_point_on_return"), ctx.fs.valid(pre["p"], pre["me"]))


class SProjectConfig(Sym):
    pass


class ProjInitCtx(JobCtx):
    def builtin_hook(self, interp, f, args, kw):
        if f is int and len(args) == 1 and isinstance(args[0], SVer):
            from pyvc.core import SInt
            return SInt(args[0].v)
        return super().builtin_hook(interp, f, args, kw)

    def instantiate(self, interp, rc, args, kw):
        if rc.name == "_ProjectConfig":
            return args[0]
        return NotImplemented


class ProjectInitRG(RGContract):
    """Project(path) raced by other processes opening the same project (workspace directory created concurrently)"""
    target = f"{PRJ}.Project.__init__"
    properties = ("C05", "C12", "C19", "C20")
    ctx_class = ProjInitCtx
    inline = GETTERS + (f"{CFG}._get_project_config_fn", f"{PRJ}.Project._check_schema_compatibility", f"{PRJ}.Project.config", "signac._utility._mkdir_p")

    def cases(self):
        return [{"version": 2}, {"version": "other"}]

    def make_ctx(self, case):
        import os
        ctx = super().make_ctx(case)
        def abspath(interp, p):
            # the normalised spelling of the path: a new value, marked (every handle on a project must spell its file names the same way)
            if isinstance(p, LProj):
                n = LProj(p.p)
                n.normalised = True
                return n
            return p
        ctx.externals[os.path.abspath] = abspath
        ctx.overrides[(PRJ, "RLock")] = NativeStub(lambda: None, "RLock")
        v = z3.IntVal(2) if case["version"] == 2 else z3.Int("declared_version")
        ctx.ghost["v"] = v
        ctx.callee_contracts[f"{CFG}._load_config"] = lambda interp_, b: SConfig(v)
        return ctx

    def setup(self, interp, case):
        ex, ctx = interp.ex, interp.ctx
        ctx.fs_init(ex, keys=[])
        import os
        join0 = ctx.externals[os.path.join]

        def join(interp_, *parts):
            from .config import SCfgValue
            if any(isinstance(x, SCfgValue) for x in parts):
                # where a project keeps its jobs is not configurable: discovery (get_job, get_project from inside a job directory) and every
                # other session look for <path>/workspace
                ctx.ghost["path_from_configuration"] = repr(parts)
                parts = tuple("workspace" if isinstance(x, SCfgValue) else x for x in parts)
            r = join0(interp_, *parts)
            try:
                r.normalised = bool(getattr(parts[0], "normalised", False))      # spelled from the normalised path or from the raw argument
            except AttributeError:
                pass
            return r
        ctx.externals[os.path.join] = join
        rp = interp.repo
        rp.load(PRJ)
        o = Obj(rp.classes[f"{PRJ}.Project"])
        p = z3.Const("proj_p", Id.__class__ and __import__("pyvc.theory_fs", fromlist=["Proj"]).Proj)
        from pyvc.theory_fs import PF
        ex.assume(Node.is_File(ctx.fs0.pf[PF.mk(p, PName.CONFIG)]))     # the project exists: its config file is there (and nobody removes it)
        if case["version"] != 2:
            ex.assume(ctx.ghost["v"] != 2)
        ctx.ghost["rg_ids"] = []
        ctx.ghost["rg_projects"] = [p]
        o.p = p
        return [o, LProj(p)], {}, {"o": o, "p": p}

    def guarantee(self, interp, ctx, label, F, G):
        p = ctx.ghost["rg_projects"][0]
        interp.ex.oblige(self.oname("guarantee:only_ever_creates_the_workspace_directory"),
                         z3.And(G.dirs == F.dirs, G.ent == F.ent, G.pf == F.pf, z3.Implies(F.ws[p], G.ws[p])), note=label)

    def post(self, interp, case, pre, outcome):
        from signac.errors import IncompatibleSchemaVersion
        ex, ctx = interp.ex, interp.ctx
        if case["version"] != 2:
            ex.oblige(self.oname("ensures:other_schema_versions_are_refused_before_anything_is_created"),
                      z3.And(z3.BoolVal(outcome[0] == "raise" and isinstance(outcome[1], IncompatibleSchemaVersion)), z3.BoolVal(ctx.ex_effects(interp) == 0)))
            return
        if outcome[0] == "raise":
            ex.oblige(self.oname("rg:no_exception_escapes_when_another_process_creates_the_workspace_first"), False, note=repr(outcome[1]))
            return
        ex.oblige(self.oname("rg:workspace_exists_on_return"), ctx.fs.ws[pre["p"]])
        ex.oblige(self.oname("ensures:the_workspace_is_<path>/workspace_whatever_the_configuration_holds"), z3.BoolVal("path_from_configuration" not in ctx.ghost),
                  note=str(ctx.ghost.get("path_from_configuration")))
        f = pre["o"].fields
        ok = isinstance(f.get("_workspace"), LWs) and isinstance(f.get("_path"), LProj)
        ex.oblige(self.oname("ensures:handle_bound_to_the_project_directory_and_its_workspace"), z3.BoolVal(ok))
        ex.oblige(self.oname("ensures:project_path_and_workspace_path_are_spelled_from_the_normalised_path_(all_handles_name_the_same_files_alike)"),
                  z3.BoolVal(ok and getattr(f["_path"], "normalised", False) is True and getattr(f["_workspace"], "normalised", False) is True))


def _ex_effects(self, interp):
    return len(interp.ex.effects)


JobCtx.ex_effects = _ex_effects

CONTRACTS = [MkdirPRG(), JobInitRG(), ProjectInitRG()]
