"""Sidecar contracts for the copy / pickle protocol of signac.job.Job (C03, C04): __getstate__, __setstate__, __deepcopy__.

A handle is a heap object with named fields.  What is proved (for lazy and materialised handles, with and without cached state point,
known and unknown path):
__getstate__   the state is every attribute of the handle except the lock, by identity (a shallow copy / pickle therefore shares the
               state point object); the handle itself is unchanged;
__setstate__   the new handle has exactly the attributes of the state plus a lock of its own, and it is entered once more into the list
               of handles of the state point object (which is how an id change reaches every shallow copy); a lazy handle is
               materialised by the statepoint getter first (callee view);
__deepcopy__   the result is a new Job registered in the memo *before* any attribute is copied (cycles through the state point object's
               handle list end there), every attribute but the lock is the deep copy (same memo) of the original's attribute, nothing is
               dropped or added, the lock is a fresh one, and the original is unchanged."""
import copy

import z3

from pyvc.core import NativeStub, SBool, Sym, Unsupported
from pyvc.interp import Obj
from pyvc.verify import Contract

from .job import FSContract, GETTERS, JOB, RLockStub
from .jobfs import mk_job, mk_project, mk_spdict
from pyvc.theory_fs import LIn, Name


class DeepCopyOf(Sym):
    def __init__(self, v):
        self.v = v


def fields_snapshot(o):
    return dict(o.fields)


def same_fields(a, b):
    return set(a) == set(b) and all(a[k] is b[k] or (not isinstance(a[k], (Obj, Sym)) and type(a[k]) is type(b[k]) and a[k] == b[k] and not isinstance(a[k], list)) for k in a)


class CopyCtxMixin:
    pass


class JobGetstate(FSContract):
    target = f"{JOB}.Job.__getstate__"
    properties = ("C03", "C04", "C05", "C10")      # an open document handle travels with the state as it is (same file, same write concern)

    def setup(self, interp, case):
        ex, ctx = interp.ex, interp.ctx
        ctx.fs_init(ex)
        proj = mk_project(ex)
        job = mk_job(interp, proj, "me")
        job.fields["_lock"] = RLockStub()
        if ex.decide(None, "pre:document handle open"):
            from .jobfs import SDoc
            job.fields["_document"] = SDoc(LIn(proj.p, job.me, Name.DOC), True)
        return [job], {}, {"job": job, "before": fields_snapshot(job)}

    def post(self, interp, case, pre, outcome):
        ex, ctx = interp.ex, interp.ctx
        job, before = pre["job"], pre["before"]
        ex.oblige(self.oname("frame:no_file_system_effect"), ctx.fs.eq(ctx.fs0))
        if outcome[0] != "return":
            ex.oblige(self.oname("raises:nothing"), False, note=repr(outcome[1]))
            return
        st = outcome[1]
        want = {k: v for k, v in before.items() if k != "_lock"}
        ok = isinstance(st, dict) and set(st) == set(want) and all(st[k] is want[k] for k in want)
        ex.oblige(self.oname("ensures:the_state_is_every_attribute_but_the_lock,_by_identity_(the_state_point_object_is_shared)"), z3.BoolVal(bool(ok)), note=repr(sorted(st) if isinstance(st, dict) else st)[:200])
        ex.oblige(self.oname("frame:the_handle_keeps_all_its_attributes_including_the_lock"), z3.BoolVal(set(job.fields) == set(before) and all(job.fields[k] is before[k] for k in before)))


def stub_statepoint_getter(interp, b):
    """callee view of the statepoint property (its own contract: SPGetter): a materialised handle returns its object; a lazy one is
    materialised (the object lists the handle) -- the load may also fail, which is the getter's business"""
    job = b["self"]
    interp.ctx.ghost.setdefault("getter_calls", []).append(job)
    if job.fields.get("_statepoint_requires_init") is False:
        sd = job.fields["_statepoint"]
    else:
        sd = mk_spdict(interp, job, interp.ctx.ghost["sp_of"][id(job)])
        job.fields["_statepoint"] = sd
        job.fields["_statepoint_requires_init"] = False
    interp.ctx.ghost["jobs_at_getter"] = list(sd.fields.get("_jobs", []))
    return sd


class JobSetstate(FSContract):
    target = f"{JOB}.Job.__setstate__"
    properties = ("C03", "C04")
    assumptions = ("synced_collections: attribute access on a collection object whose attributes are not restored yet (mid-unpickle) raises RecursionError",)
    callees = {f"{JOB}.Job.statepoint": stub_statepoint_getter}

    def cases(self):
        return [{"restored": True}, {"restored": False}]

    def make_ctx(self, case):
        ctx = super().make_ctx(case)
        from threading import RLock
        ctx.externals[RLock] = lambda interp: RLockStub()
        base = ctx.dep_getattr

        def dep_getattr(interp, o, name):
            # synced_collections' __getattr__ (dependency): a missing attribute is looked up through self._data; on an object whose
            # attributes have not been restored yet that lookup re-enters __getattr__ without end
            if isinstance(o, Obj) and o.cls.name == "_StatePointDict" and not o.fields:
                from pyvc.core import RaiseSignal
                raise RaiseSignal(RecursionError(f"attribute {name} of a state point object that is not restored yet"))
            return base(interp, o, name)
        ctx.dep_getattr = dep_getattr
        return ctx

    def setup(self, interp, case):
        ex, ctx = interp.ex, interp.ctx
        ctx.fs_init(ex)
        proj = mk_project(ex)
        src = mk_job(interp, proj, "me")            # the handle whose state is being installed (its sibling, for a shallow copy)
        src.fields["_lock"] = RLockStub()
        rp = interp.repo
        new = Obj(rp.classes[f"{JOB}.Job"])
        state = {k: v for k, v in src.fields.items() if k != "_lock"}
        ctx.ghost["sp_of"] = {id(new): src.sp}
        sd = src.fields.get("_statepoint")
        jobs0 = None
        if sd is not None:
            if not case["restored"]:
                # unpickling a cycle: the state point object exists but its attributes have not been restored yet
                sd.fields.clear()
            jobs0 = list(sd.fields.get("_jobs", []))
        elif not case["restored"]:
            from pyvc.core import PathEnd
            raise PathEnd()
        return [new, state], {}, {"new": new, "state": dict(state), "sd": sd, "jobs0": jobs0, "src": src}

    def post(self, interp, case, pre, outcome):
        ex, ctx = interp.ex, interp.ctx
        new, state, sd, jobs0 = pre["new"], pre["state"], pre["sd"], pre["jobs0"]
        ex.oblige(self.oname("frame:no_file_system_effect"), ctx.fs.eq(ctx.fs0))
        if outcome[0] != "return":
            ex.oblige(self.oname("raises:nothing_(also_while_the_shared_state_point_object_is_not_restored_yet)"), False, note=repr(outcome[1])[:200])
            return
        f = new.fields
        lazy = state["_statepoint_requires_init"] is True
        keep = [k for k in state if not (lazy and k in ("_statepoint_requires_init",))]
        ok = all(k in f and f[k] is state[k] for k in keep) and set(f) - set(state) <= {"_lock", "_statepoint"}
        ex.oblige(self.oname("ensures:the_handle_has_exactly_the_attributes_of_the_state_(by_identity)_plus_a_lock"), z3.BoolVal(bool(ok)), note=repr(sorted(f))[:200])
        ex.oblige(self.oname("ensures:the_lock_is_a_new_one"), z3.BoolVal(isinstance(f.get("_lock"), RLockStub) and f["_lock"] is not pre["src"].fields["_lock"]))
        sdn = f.get("_statepoint")
        okj = isinstance(sdn, Obj) and isinstance(sdn.fields.get("_jobs"), list) and "jobs_at_getter" in ctx.ghost
        if okj:
            jl, base = sdn.fields["_jobs"], ctx.ghost["jobs_at_getter"]
            okj = len(jl) == len(base) + 1 and all(a is b for a, b in zip(jl, base)) and jl[-1] is new
        ex.oblige(self.oname("ensures:the_handle_is_appended_once_to_the_state_point_object's_list_of_handles,_the_other_entries_stay"), z3.BoolVal(bool(okj)))
        if sd is not None:
            ex.oblige(self.oname("ensures:a_materialised_state_point_object_is_shared,_not_replaced"), z3.BoolVal(sdn is sd))


class JobDeepcopy(FSContract):
    target = f"{JOB}.Job.__deepcopy__"
    properties = ("C03", "C04", "C05", "C10")      # the document handle of the copy is the deep copy of the original's (same file, same write concern)

    def make_ctx(self, case):
        ctx = super().make_ctx(case)
        from threading import RLock
        g = ctx.ghost
        g["copies"] = []
        ctx.externals[RLock] = lambda interp: RLockStub()

        def deepcopy(interp, v, memo=None):
            g["copies"].append((v, memo, dict(memo) if isinstance(memo, dict) else None))
            if v is None or isinstance(v, (bool, int, str)):
                return v
            return DeepCopyOf(v)
        ctx.externals[copy.deepcopy] = deepcopy
        return ctx

    def setup(self, interp, case):
        ex, ctx = interp.ex, interp.ctx
        ctx.fs_init(ex)
        proj = mk_project(ex)
        job = mk_job(interp, proj, "me")
        job.fields["_lock"] = RLockStub()
        if ex.decide(None, "pre:document handle already open"):
            from .jobfs import SDoc
            from pyvc.theory_fs import LIn, Name
            job.fields["_document"] = SDoc(LIn(proj.p, job.me, Name.DOC), True)
        memo = {}
        return [job, memo], {}, {"job": job, "before": fields_snapshot(job), "memo": memo}

    def post(self, interp, case, pre, outcome):
        ex, ctx = interp.ex, interp.ctx
        job, before, memo = pre["job"], pre["before"], pre["memo"]
        copies = ctx.ghost["copies"]
        ex.oblige(self.oname("frame:no_file_system_effect"), ctx.fs.eq(ctx.fs0))
        if outcome[0] != "return":
            ex.oblige(self.oname("raises:nothing"), False, note=repr(outcome[1])[:200])
            return
        r = outcome[1]
        isnew = isinstance(r, Obj) and r is not job and r.cls is job.cls
        ex.oblige(self.oname("ensures:the_result_is_a_new_Job"), z3.BoolVal(isnew))
        if not isnew:
            return
        ex.oblige(self.oname("ensures:the_copy_is_registered_in_the_memo_before_any_attribute_is_copied_(cycles_end_there)"),
                  z3.BoolVal(memo.get(id(job)) is r and all(c[1] is memo and c[2] is not None and c[2].get(id(job)) is r for c in copies)), note=repr(len(copies)))
        want = {k: v for k, v in before.items() if k != "_lock"}
        f = r.fields

        def is_copy_of(c, v):
            return (c is v) if (v is None or isinstance(v, (bool, int, str))) else (isinstance(c, DeepCopyOf) and c.v is v)
        ok = set(f) == set(want) | {"_lock"} and all(is_copy_of(f[k], want[k]) for k in want)
        ex.oblige(self.oname("ensures:every_attribute_but_the_lock_is_the_deep_copy_of_the_original's,_none_dropped_or_added"), z3.BoolVal(bool(ok)),
                  note=repr(sorted(set(f) ^ (set(want) | {"_lock"})))[:200])
        ex.oblige(self.oname("ensures:the_lock_is_a_new_one"), z3.BoolVal(isinstance(f.get("_lock"), RLockStub) and f["_lock"] is not before["_lock"]))
        ex.oblige(self.oname("frame:the_original_is_unchanged"), z3.BoolVal(set(job.fields) == set(before) and all(job.fields[k] is before[k] for k in before)))


class JobCopy(FSContract):
    """copy.copy(job): the shallow copy shares the state point object with the original -- which therefore has to exist afterwards also
    for a handle that was lazy (defect F28: it was instantiated for the copy only)"""
    target = f"{JOB}.Job.__copy__"
    properties = ("C03", "C04")
    inline = GETTERS + (f"{JOB}.Job.__getstate__", f"{JOB}.Job.__setstate__")
    callees = {f"{JOB}.Job.statepoint": stub_statepoint_getter}

    def make_ctx(self, case):
        ctx = super().make_ctx(case)
        from threading import RLock
        ctx.externals[RLock] = lambda interp: RLockStub()
        return ctx

    def setup(self, interp, case):
        ex, ctx = interp.ex, interp.ctx
        ctx.fs_init(ex)
        proj = mk_project(ex)
        job = mk_job(interp, proj, "me")
        job.fields["_lock"] = RLockStub()
        if job.fields["_statepoint_requires_init"] is True and ex.decide(None, "pre:a stale state point object is still attached to the lazy handle"):
            # e.g. after Job.move(): the handle is lazy again but the attribute of the former state point object is still there
            job.fields["_statepoint"] = mk_spdict(interp, job, job.sp)
            job.fields["_statepoint"].fields["_jobs"] = []

        class SpOf(dict):
            def __missing__(s, key):
                return job.sp
        ctx.ghost["sp_of"] = SpOf()
        return [job], {}, {"job": job, "before": fields_snapshot(job)}

    def post(self, interp, case, pre, outcome):
        ex, ctx = interp.ex, interp.ctx
        job, before = pre["job"], pre["before"]
        ex.oblige(self.oname("frame:no_file_system_effect"), ctx.fs.eq(ctx.fs0))
        if outcome[0] != "return":
            ex.oblige(self.oname("raises:nothing_of_its_own"), False, note=repr(outcome[1])[:200])
            return
        c = outcome[1]
        isnew = isinstance(c, Obj) and c is not job and c.cls is job.cls
        ex.oblige(self.oname("ensures:the_result_is_a_new_Job"), z3.BoolVal(isnew))
        if not isnew:
            return
        sd = job.fields.get("_statepoint")
        shared = isinstance(sd, Obj) and c.fields.get("_statepoint") is sd and job.fields.get("_statepoint_requires_init") is False and c.fields.get("_statepoint_requires_init") is False
        ex.oblige(self.oname("ensures:the_original's_state_point_object_exists_and_is_shared_with_the_copy"), z3.BoolVal(bool(shared)))
        if shared:
            jl = sd.fields.get("_jobs")
            ex.oblige(self.oname("ensures:the_state_point_object_lists_the_original_and_the_copy_(an_id_change_reaches_both)"),
                      z3.BoolVal(isinstance(jl, list) and any(x is job for x in jl) and any(x is c for x in jl)))
        same = all(k in c.fields and (c.fields[k] is job.fields[k]) for k in job.fields if k != "_lock") and set(c.fields) == set(job.fields)
        ex.oblige(self.oname("ensures:every_other_attribute_is_shared_by_identity"), z3.BoolVal(bool(same)), note=repr(sorted(set(c.fields) ^ set(job.fields))))
        ex.oblige(self.oname("ensures:the_copy_has_a_lock_of_its_own"), z3.BoolVal(isinstance(c.fields.get("_lock"), RLockStub) and c.fields["_lock"] is not job.fields["_lock"]))
        keep = [k for k in before if k not in ("_statepoint", "_statepoint_requires_init")]
        ex.oblige(self.oname("frame:the_original_keeps_its_other_attributes"), z3.BoolVal(all(job.fields[k] is before[k] for k in keep)))


CONTRACTS = [JobGetstate(), JobSetstate(), JobDeepcopy(), JobCopy()]
