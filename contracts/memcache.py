"""Sidecar contract for Project._update_in_memory_cache (C08): afterwards the in-memory cache holds exactly the workspace ids, every entry
hashes to its key, entries that stay keep their value, and the return value says whether anything changed.

The thread pool is modelled as a map: `pool.map(f, chunk)` calls f once on every element of the chunk (some order; an exception of a call
propagates).  f's effect is obtained by executing the real closure on an ARBITRARY element of the chunk and checking that it writes only
that element's own cache entry; the effect on the whole chunk is the pointwise generalisation.  `_split_and_print_progress` is used
through its contract (contracts/chunks.py): the chunks tile the list, every element in exactly one chunk."""
import z3

from pyvc.core import CutSeq, NativeStub, RaiseSignal, SBool, SInt, Sym, Unsupported
from pyvc.interp import LoopSpec
from pyvc.theory_fs import CALC, JD, SPv
from pyvc.theory_j import FA_id, Id, SId, SymSet

from .jobfs import PRJ, SCache, SSP
from .project import PContract, SIdSeq, stub_get_sp_from_ws, stub_job_dirs

CH = z3.Function("CH", z3.IntSort(), Id, z3.BoolSort())       # id x is in chunk i
N_CH = z3.Int("n_chunks")


class SChunk(Sym):
    def __init__(self, i):
        self.i = i

    def member(self, x):
        return CH(self.i, x)


class SChunks(Sym):
    def sym_iter(self, ex):
        def at(interp, i):
            interp.ctx.ghost["chunk_i"] = i
            return SChunk(i)
        return CutSeq(N_CH, at, label="chunks")


class SIdList(Sym):
    def __init__(self, member):
        self.member = member


class SPool(Sym):
    def __init__(self, ctx):
        self.ctx = ctx

    def sym_with(self, interp, body):
        return body(self)

    def sym_getattr(self, ex, name):
        if name == "map":
            return NativeStub(lambda interp, f, chunk: self.ctx.pool_map(interp, f, chunk), "pool.map", wants_ex=True)
        raise Unsupported(f"pool.{name}")


class MemCacheCtx:
    pass


class UpdateInMemoryCache(PContract):
    target = f"{PRJ}.Project._update_in_memory_cache"
    properties = ("C01", "C08", "C09")
    callees = {f"{PRJ}.Project._job_dirs": stub_job_dirs, f"{PRJ}.Project._get_statepoint_from_workspace": stub_get_sp_from_ws}
    solver_timeout_ms = 6000

    def make_ctx(self, case):
        import time
        from multiprocessing.pool import ThreadPool
        ctx = super().make_ctx(case)
        g = ctx.ghost
        ctx.externals[time.time] = lambda interp: 0.0
        ctx.externals[ThreadPool] = lambda interp, *a, **k: SPool(ctx)
        ctx.setify = lambda interp, v: (SymSet(lambda i: v.member(i)) if isinstance(v, SIdSeq) else SymSet(lambda i, d=v.dom: d[i]) if isinstance(v, SCache)
                                        else v.copy() if isinstance(v, SymSet) else (_ for _ in ()).throw(Unsupported("set() of this value")))
        ctx.listify = lambda ex, v, f: SIdList(v.member) if isinstance(v, SymSet) and f is list else (_ for _ in ()).throw(Unsupported("list() of this value"))

        def split(interp, b):
            ex = interp.ex
            it, nc = b["iterable"], b["num_chunks"]
            if not isinstance(it, SIdList):
                raise Unsupported("_split_and_print_progress iterable")
            nce = nc.e if isinstance(nc, SInt) else z3.IntVal(nc)
            ex.oblige(self.oname("call[_split_and_print_progress]:requires_a_positive_number_of_chunks"), nce >= 1)
            g["split_of"] = it.member
            a, c = z3.Ints("ka kc")
            ex.assumptions_used.add("_split_and_print_progress contract (SplitProgress): the chunks tile the list -- every element is in exactly one chunk")
            ex.assume(z3.And(N_CH >= 1, FA_id(lambda x: it.member(x) == z3.Exists([a], z3.And(0 <= a, a < N_CH, CH(a, x)))),
                             z3.ForAll([a, c], FA_id(lambda x: z3.Implies(z3.And(0 <= a, a < c, c < N_CH), z3.Not(z3.And(CH(a, x), CH(c, x))))))))
            return SChunks()
        ctx.callee_contracts[f"{PRJ}._split_and_print_progress"] = split

        def pool_map(interp, f, chunk):
            ex = interp.ex
            if not isinstance(chunk, SChunk):
                raise Unsupported("pool.map over something that is not a chunk")
            ex.assumptions_used.add("ThreadPool.map(f, chunk): f is called once on every element of the chunk; the calls touch disjoint cache entries (checked on an arbitrary element)")
            c = g["proj"].fields["_sp_cache"]
            dom0, val0 = c.dom, c.val
            x0 = z3.Const(ex.fresh_name("elem"), Id)
            ex.assume(chunk.member(x0))
            try:
                interp.call(f, [SId(x0)], {})
            except RaiseSignal:
                # some call fails: the calls that did run added valid entries of this chunk
                nd = z3.Array(ex.fresh_name("cdom_part"), Id, z3.BoolSort())
                nv = z3.Array(ex.fresh_name("cval_part"), Id, SPv)
                ex.assume(FA_id(lambda x: z3.And(z3.Implies(dom0[x], z3.And(nd[x], nv[x] == val0[x])), z3.Implies(nd[x], z3.Or(dom0[x], chunk.member(x))),
                                                 z3.Implies(z3.And(nd[x], z3.Not(dom0[x])), CALC(nv[x]) == x))))
                c.dom, c.val = nd, nv
                raise
            v0 = z3.simplify(c.val[x0])
            ex.oblige(self.oname("call[pool.map]:a_call_writes_only_the_cache_entry_of_its_own_id"),
                      z3.And(c.dom == z3.Store(dom0, x0, True), c.val == z3.Store(val0, x0, v0)))
            ex.oblige(self.oname("call[pool.map]:the_entry_written_hashes_to_its_id"), CALC(v0) == x0)
            # pointwise generalisation over the chunk
            nd = z3.Array(ex.fresh_name("cdom_map"), Id, z3.BoolSort())
            nv = z3.Array(ex.fresh_name("cval_map"), Id, SPv)
            ex.assume(FA_id(lambda x: z3.And(nd[x] == z3.Or(dom0[x], chunk.member(x)), z3.Implies(z3.Not(chunk.member(x)), nv[x] == val0[x]),
                                             z3.Implies(chunk.member(x), CALC(nv[x]) == x))))
            c.dom, c.val = nd, nv
            return None
        ctx.pool_map = pool_map
        return ctx

    def builtin_hook_for(self, ctx):
        pass

    def loops(self, case):
        def cache(interp):
            return interp.ctx.ghost["proj"].fields["_sp_cache"]

        def inv_remove(interp, fr, i, seq):
            g = interp.ctx.ghost
            c = cache(interp)
            j = z3.Int("rj")
            return FA_id(lambda x: z3.And(c.dom[x] == z3.And(g["dom0"][x], z3.Not(z3.Exists([j], z3.And(0 <= j, j < i, seq.en(j) == x)))), c.val[x] == g["val0"][x]))

        def hv_cache(interp, fr, tag):
            c = cache(interp)
            c.dom = z3.Array(interp.ex.fresh_name("cdom_" + tag.replace("$", "")), Id, z3.BoolSort())
            c.val = z3.Array(interp.ex.fresh_name("cval_" + tag.replace("$", "")), Id, SPv)

        def inv_chunks(interp, fr, i, seq):
            g = interp.ctx.ghost
            c = cache(interp)
            j = z3.Int("cj")
            kept = lambda x: z3.And(g["dom0"][x], g["D"](x))
            return FA_id(lambda x: z3.And(c.dom[x] == z3.Or(kept(x), z3.Exists([j], z3.And(0 <= j, j < i, CH(j, x)))),
                                          z3.Implies(kept(x), c.val[x] == g["val0"][x]), z3.Implies(c.dom[x], CALC(c.val[x]) == x)))
        return {"to_remove": LoopSpec("remove", inv_remove, havoc={"$cache": hv_cache}, scratch=("id_",), heap_frame=lambda interp, fr, w: None),
                "chunks": LoopSpec("chunks", inv_chunks, havoc={"$cache": hv_cache}, scratch=("chunk",), heap_frame=lambda interp, fr, w: None)}

    def setup(self, interp, case):
        ex, ctx = interp.ex, interp.ctx
        proj = self.fresh_project(interp)
        g = ctx.ghost
        c = proj.fields["_sp_cache"]
        p = proj.p
        g.update(proj=proj, dom0=c.dom, val0=c.val, D=lambda x: ctx.fs0.dirs[JD.mk(p, x)])
        orig = ctx.builtin_hook

        def hook(interp_, f, args, kw):
            if f in (min, max) and len(args) == 2 and any(isinstance(a, SInt) for a in args):
                a, b = [x.e if isinstance(x, SInt) else z3.IntVal(x) for x in args]
                return SInt(z3.If(a <= b, a, b) if f is min else z3.If(a >= b, a, b))
            if f is int and len(args) == 1 and type(args[0]).__name__ == "SQuot":
                q = z3.Int(interp_.ex.fresh_name("quot"))
                a, b = args[0].a, args[0].b
                interp_.ex.assume(z3.Implies(z3.And(a >= 0, b > 0), z3.And(q * b <= a, a < (q + 1) * b, q >= 0)))
                return SInt(q)
            return orig(interp_, f, args, kw)
        ctx.builtin_hook = hook
        return [proj], {}, {"proj": proj, "p": p}

    def post(self, interp, case, pre, outcome):
        from signac.errors import JobsCorruptedError, WorkspaceError
        ex, ctx, g = interp.ex, interp.ctx, interp.ctx.ghost
        c = pre["proj"].fields["_sp_cache"]
        dom0, val0, D = g["dom0"], g["val0"], g["D"]
        ex.oblige(self.oname("frame:reads_only"), ctx.fs.eq(ctx.fs0))
        ex.oblige(self.oname("inv:cache_entries_hash_to_their_key"), c.valid())
        if outcome[0] == "return":
            ex.oblige(self.oname("ensures:the_in-memory_cache_holds_exactly_the_ids_of_the_job_directories"), FA_id(lambda x: c.dom[x] == D(x)))
            ex.oblige(self.oname("ensures:entries_that_stay_keep_their_value"), FA_id(lambda x: z3.Implies(z3.And(dom0[x], D(x)), c.val[x] == val0[x])))
            changed = z3.Not(FA_id(lambda x: dom0[x] == D(x)))
            r = outcome[1]
            if r is None:
                ex.oblige(self.oname("ensures:None_iff_the_cache_already_matched_the_workspace"), z3.Not(changed))
            else:
                ok = isinstance(r, tuple) and len(r) == 2 and all(isinstance(s, SymSet) for s in r)
                ex.oblige(self.oname("ensures:otherwise_reports_the_ids_added_and_removed"),
                          z3.And(changed, FA_id(lambda x: z3.And(r[0].member(x) == z3.And(D(x), z3.Not(dom0[x])), r[1].member(x) == z3.And(dom0[x], z3.Not(D(x)))))) if ok else z3.BoolVal(False))
        else:
            e = outcome[1]
            ex.oblige(self.oname("raises:only_a_listing_error_or_the_corruption_of_a_job_to_be_added"), z3.BoolVal(isinstance(e, (JobsCorruptedError, WorkspaceError))), note=repr(e))


CONTRACTS = [UpdateInMemoryCache()]
