"""Sidecar contracts for the small strategy / helper functions of signac/sync.py (C13, C14, C15):
DocSync.update, DocSync.ByKey.__init__, FileSync.Ask.__call__, _dircmp_deep.phase3, _identical_path, FileSync.keys."""
import os
import re

import z3

from pyvc.core import CutSeq, NativeStub, RaiseSignal, SBool, Sym, Unsupported
from pyvc.interp import LoopSpec, Obj
from pyvc.verify import Contract, Ctx

SY = "signac.sync"

DK = z3.DeclareSort("DocKey")
DV = z3.DeclareSort("DocVal")


class SDK(Sym):
    def __init__(self, e):
        self.e = e

    def sym_hashable(self):
        return True


PYEQ = z3.Function("doc_value_pyeq", DV, DV, z3.BoolSort())      # Python's == on document values: coarser than identity as JSON values (1 == True == 1.0)


class SDV(Sym):
    def __init__(self, e):
        self.e = e

    def sym_eq(self, ex, other):
        if isinstance(other, SDV):
            a = z3.Const("pyeq_a", DV)
            ex.assume(z3.ForAll([a], PYEQ(a, a)))
            return SBool(PYEQ(self.e, other.e))
        raise Unsupported("document value == something else")

    def sym_compare(self, ex, op, other, reflected=False):
        if op in ("Eq", "NotEq") and isinstance(other, SDV):
            r = self.sym_eq(ex, other)
            return r if op == "Eq" else SBool(z3.Not(r.e))
        raise Unsupported(f"compare {op} on document values")


class SSrcDoc(Sym):
    """source document: keys KEY(i), i < n (distinct), values SRC(key)"""

    def __init__(self, ex):
        self.n = z3.Int("n_src_keys")
        self.key = z3.Function("src_key", z3.IntSort(), DK)
        self.val = z3.Function("src_val", DK, DV)
        ex.assume(self.n >= 0)

    def has(self, k, upto=None):
        i = z3.Int("hk")
        return z3.Exists([i], z3.And(0 <= i, i < (self.n if upto is None else upto), self.key(i) == k))

    def sym_getattr(self, ex, name):
        if name == "keys":
            return NativeStub(lambda: SKeysOf(self), "doc.keys")
        raise Unsupported(f"doc.{name}")

    def sym_getitem(self, ex, k):
        if isinstance(k, SDK):
            return SDV(self.val(k.e))
        raise Unsupported("src[...] key")


class SKeysOf(Sym):
    def __init__(self, d):
        self.d = d

    def sym_iter(self, ex):
        return CutSeq(self.d.n, lambda interp, i: SDK(self.d.key(i)), label="src.keys()")


class SDstDoc(Sym):
    """destination document as a total map DocKey -> DocVal plus a domain (z3 arrays), mutated by item assignment only"""

    def __init__(self, dom, val):
        self.dom, self.val = dom, val

    def sym_setitem(self, ex, k, v):
        if not (isinstance(k, SDK) and isinstance(v, SDV)):
            raise Unsupported("dst[...] = shape")
        self.dom = z3.Store(self.dom, k.e, True)
        self.val = z3.Store(self.val, k.e, v.e)

    def sym_contains(self, ex, k):
        if not isinstance(k, SDK):
            raise Unsupported("`in dst` key")
        return SBool(self.dom[k.e])

    def sym_getitem(self, ex, k):
        if not isinstance(k, SDK):
            raise Unsupported("dst[...] key")
        if not ex.decide(self.dom[k.e], "dst-has-key"):
            raise RaiseSignal(KeyError(k))
        return SDV(self.val[k.e])


class DocSyncUpdate(Contract):
    target = f"{SY}.DocSync.update"
    properties = ("C13", "C14")

    def loops(self, case):
        k = z3.Const("uk", DK)

        def inv(interp, fr, i, seq):
            g = interp.ctx.ghost
            src, dst, d0, v0 = g["src"], g["dst"], g["dom0"], g["val0"]
            return z3.ForAll([k], z3.And(dst.dom[k] == z3.Or(d0[k], src.has(k, i)), dst.val[k] == z3.If(src.has(k, i), src.val(k), v0[k])))

        def hv(interp, fr, tag):
            dst = interp.ctx.ghost["dst"]
            dst.dom = z3.Array(interp.ex.fresh_name("dom_" + tag), DK, z3.BoolSort())
            dst.val = z3.Array(interp.ex.fresh_name("val_" + tag), DK, DV)
        return {"src.keys()": LoopSpec("keys", inv, havoc={"$dst": hv}, scratch=("key",))}

    def setup(self, interp, case):
        ex, g = interp.ex, interp.ctx.ghost
        src = SSrcDoc(ex)
        d0, v0 = z3.Array("dst_dom0", DK, z3.BoolSort()), z3.Array("dst_val0", DK, DV)
        dst = SDstDoc(d0, v0)
        g.update(src=src, dst=dst, dom0=d0, val0=v0)
        return [src, dst], {}, {}

    def post(self, interp, case, pre, outcome):
        ex, g = interp.ex, interp.ctx.ghost
        src, dst, d0, v0 = g["src"], g["dst"], g["dom0"], g["val0"]
        k = z3.Const("pk", DK)
        if outcome[0] != "return":
            ex.oblige(self.oname("raises:nothing"), False, note=repr(outcome[1]))
            return
        ex.oblige(self.oname("ensures:every_source_key_is_copied_with_its_source_value"), z3.ForAll([k], z3.Implies(src.has(k), z3.And(dst.dom[k], dst.val[k] == src.val(k)))))
        ex.oblige(self.oname("ensures:keys_only_the_destination_has_are_left_as_they_were"), z3.ForAll([k], z3.Implies(z3.Not(src.has(k)), z3.And(dst.dom[k] == d0[k], dst.val[k] == v0[k]))))


class ByKeyInit(Contract):
    target = f"{SY}.DocSync.ByKey.__init__"
    properties = ("C14", "C15")

    def cases(self):
        return [{"ks": "None"}, {"ks": "callable"}, {"ks": "regex"}]

    def make_ctx(self, case):
        ctx = super().make_ctx(case)
        ctx.externals[re.match] = lambda interp, pat, s, *a: ("re.match", pat, s, a)
        return ctx

    def setup(self, interp, case):
        rp = interp.repo
        rp.load(SY)
        o = Obj(rp.classes[f"{SY}.DocSync.ByKey"])
        g = interp.ctx.ghost
        g["user"] = NativeStub(lambda key: True, "user key strategy")
        ks = {"None": None, "callable": g["user"], "regex": "^a\\\\.b"}[case["ks"]]
        return [o], {"key_strategy": ks}, {"o": o, "ks": ks}

    def post(self, interp, case, pre, outcome):
        ex, o = interp.ex, pre["o"]
        if outcome[0] != "return":
            ex.oblige(self.oname("raises:nothing"), False, note=repr(outcome[1]))
            return
        st = o.fields.get("key_strategy")
        sk = o.fields.get("skipped_keys")
        ex.oblige(self.oname("ensures:no_key_counts_as_skipped_initially"), z3.BoolVal(isinstance(sk, set) and not sk), note=repr(sk))
        if case["ks"] == "regex":
            r = interp.call(st, ["the.key"], {}) if st is not None else None
            ex.oblige(self.oname("ensures:a_string_strategy_selects_the_keys_the_pattern_matches_from_their_start"), z3.BoolVal(r == ("re.match", pre["ks"], "the.key", ())), note=repr(r))
        else:
            ex.oblige(self.oname("ensures:any_other_strategy_is_stored_as_given"), z3.BoolVal(st is pre["ks"]), note=repr(st))


class AskCall(Contract):
    """FileSync.Ask: a file name answered once is never asked again and keeps its answer"""
    target = f"{SY}.FileSync.Ask.__call__"
    properties = ("C14",)

    def cases(self):
        return [{"known": k, "answer": a} for k in ("yes", "no", "unknown") for a in (True, False)]

    def make_ctx(self, case):
        ctx = super().make_ctx(case)
        g = ctx.ghost
        g["asked"] = []

        def ask(interp, b):
            g["asked"].append((b["question"], b.get("default")))
            return case["answer"]
        ctx.callee_contracts["signac._utility._query_yes_no"] = ask
        return ctx

    def setup(self, interp, case):
        rp = interp.repo
        rp.load(SY)
        o = Obj(rp.classes[f"{SY}.FileSync.Ask"])
        o.fields.update(yes={"other-yes"} | ({"fn"} if case["known"] == "yes" else set()), no={"other-no"} | ({"fn"} if case["known"] == "no" else set()))
        return [o, "SRC", "DST", "fn"], {}, {"o": o}

    def post(self, interp, case, pre, outcome):
        ex, g, o = interp.ex, interp.ctx.ghost, pre["o"]
        if outcome[0] != "return":
            ex.oblige(self.oname("raises:nothing"), False, note=repr(outcome[1]))
            return
        r, yes, no = outcome[1], o.fields["yes"], o.fields["no"]
        if case["known"] != "unknown":
            ex.oblige(self.oname("ensures:a_remembered_answer_is_returned_without_asking_and_without_changing_the_memory"),
                      z3.BoolVal(r is (case["known"] == "yes") and g["asked"] == [] and yes == {"other-yes"} | ({"fn"} if case["known"] == "yes" else set())
                                 and no == {"other-no"} | ({"fn"} if case["known"] == "no" else set())), note=repr((r, g["asked"], yes, no)))
        else:
            ok = r is case["answer"] and len(g["asked"]) == 1 and g["asked"][0][1] == "no" and "fn" in g["asked"][0][0]
            ok = ok and yes == {"other-yes"} | ({"fn"} if case["answer"] else set()) and no == {"other-no"} | (set() if case["answer"] else {"fn"})
            ex.oblige(self.oname("ensures:an_unknown_name_is_asked_once_(default_no),_the_answer_returned_and_remembered"), z3.BoolVal(bool(ok)), note=repr((r, g["asked"], yes, no)))


class DeepPhase3(Contract):
    """_dircmp_deep.phase3: common files are compared by content (shallow=False), and the three result lists are stored"""
    target = f"{SY}._dircmp_deep.phase3"
    properties = ("C13", "C15")

    def make_ctx(self, case):
        import filecmp
        ctx = super().make_ctx(case)
        g = ctx.ghost

        def cmpfiles(interp, a, b, common, shallow=True):
            g["call"] = (a, b, common, shallow)
            return ("SAME", "DIFF", "FUNNY")
        ctx.externals[filecmp.cmpfiles] = cmpfiles
        return ctx

    def setup(self, interp, case):
        rp = interp.repo
        rp.load(SY)
        o = Obj(rp.classes[f"{SY}._dircmp_deep"])
        o.fields.update(left="LEFT", right="RIGHT", common_files="COMMON")
        return [o], {}, {"o": o}

    def post(self, interp, case, pre, outcome):
        ex, g, o = interp.ex, interp.ctx.ghost, pre["o"]
        ok = outcome[0] == "return" and g.get("call") == ("LEFT", "RIGHT", "COMMON", False)
        ex.oblige(self.oname("ensures:common_files_of_the_two_directories_are_compared_by_content"), z3.BoolVal(bool(ok)), note=repr(g.get("call")))
        ex.oblige(self.oname("ensures:same_/_differing_/_uncomparable_files_are_stored_in_that_order"),
                  z3.BoolVal((o.fields.get("same_files"), o.fields.get("diff_files"), o.fields.get("funny_files")) == ("SAME", "DIFF", "FUNNY")))
        # class constant (read from the imported module of this tree): filecmp.dircmp computes its lazy attributes through `methodmap`;
        # the attributes the sync code reads (diff_files; same_files for symmetry) must be routed to the content comparison, or dircmp
        # falls back to its own shallow phase3 for them
        real = o.cls.real
        mm = getattr(real, "methodmap", {}) if real is not None else {}
        ex.oblige(self.oname("const:methodmap_routes_diff_files_and_same_files_to_the_content_comparison"),
                  z3.BoolVal(real is not None and all(mm.get(k) is real.__dict__.get("phase3") for k in ("same_files", "diff_files"))),
                  note=repr({k: getattr(mm.get(k), "__qualname__", mm.get(k)) for k in ("same_files", "diff_files")}))


class IdenticalPath(Contract):
    target = f"{SY}._identical_path"
    properties = ("C13",)

    def make_ctx(self, case):
        ctx = super().make_ctx(case)
        ctx.externals[os.path.realpath] = lambda interp, p: ("real", p)
        ctx.externals[os.path.abspath] = lambda interp, p: ("abs", p)
        return ctx

    def setup(self, interp, case):
        return ["A", "B"], {}, {}

    def post(self, interp, case, pre, outcome):
        # with injective tokens for realpath/abspath the two sides differ: the function must say so, and must say True for one and the same path
        interp.ex.oblige(self.oname("ensures:compares_the_absolute_real_paths_of_both_arguments"), z3.BoolVal(outcome == ("return", False)), note=repr(outcome))
        r2 = interp.call(interp.repo.func(self.target), ["A", "A"], {})
        interp.ex.oblige(self.oname("ensures:a_path_is_identical_to_itself"), z3.BoolVal(r2 is True), note=repr(r2))


CONTRACTS = [DocSyncUpdate(), ByKeyInit(), AskCall(), DeepPhase3(), IdenticalPath()]


# ============================================================================= Job.sync / Project.sync: direction and option forwarding


class Tk2(Sym):
    def __init__(self, name):
        self.name = name

    def __repr__(self):
        return f"<{self.name}>"

    # an option value is opaque: whatever a wrapper derives from it (a copy, a list of its elements, its truth value, a comparison with
    # None) is another value -- or no information at all
    def sym_iter(self, ex):
        return [Tk2(f"element-of-{self.name}")]

    def sym_is(self, ex, other):
        return self is other

    def sym_eq(self, ex, other):
        return self is other

    def sym_truth(self, ex):
        return z3.Bool(f"truthy_{self.name}")

    def sym_getattr(self, ex, name):
        if name in ("copy", "strip", "lower", "split", "items", "keys", "values"):
            return NativeStub(lambda *a, **k: Tk2(f"{name}-of-{self.name}"), f"opaque.{name}")
        raise Unsupported(f"attribute .{name} of an opaque option value")


class SyncFrontEnd(Contract):
    """x.sync(other, ...) synchronises FROM other INTO x and hands every option on unchanged"""
    properties = ("C13", "C14", "C15")

    def __init__(self, owner, callee, src_name, dst_name, opts):
        self.owner, self.callee, self.src_name, self.dst_name, self.opts = owner, callee, src_name, dst_name, opts
        self.target = f"{owner}.sync"
        super().__init__()

    def make_ctx(self, case):
        ctx = super().make_ctx(case)
        g = ctx.ghost
        g["res"] = Tk2("result")

        def stub(interp, b):
            g["got"] = dict(b)
            return g["res"]
        ctx.callee_contracts[self.callee] = stub
        g["wrapped_in"] = []

        def native_override(interp, f, args, kw):
            # the document buffering switches of the dependency: writes inside such a block do not reach the files until it is left, which
            # defeats the file-level backup / roll-back of the synchronisation
            name = getattr(f, "__qualname__", "") or getattr(f, "__name__", "")
            if name.endswith(("buffer_backend", "buffered", "buffer_all")) or "buffer" in name.lower():
                from pyvc.interp import TransparentCM
                g["wrapped_in"].append(name)
                return TransparentCM(None)
            return NotImplemented
        ctx.native_override = native_override
        return ctx

    def setup(self, interp, case):
        rp = interp.repo
        rp.load(self.owner.rsplit(".", 1)[0])
        o = Obj(rp.classes[self.owner])
        other = Tk2("other")
        kw = {k: Tk2(k) for k in self.opts}
        for extra in ("deep", "dry_run"):       # options that reach the callee through **kwargs
            kw[extra] = Tk2(extra)
        return [o, other], kw, {"o": o, "other": other, "kw": kw}

    def post(self, interp, case, pre, outcome):
        ex, g = interp.ex, interp.ctx.ghost
        got = g.get("got")
        ok = outcome[0] == "return" and got is not None
        if ok:
            flat = {k: v for k, v in got.items() if k != "kwargs"}
            flat.update(got.get("kwargs") or {})
            ex.oblige(self.oname("ensures:the_other_side_is_the_source_and_this_one_the_destination"),
                      z3.BoolVal(flat.get(self.src_name) is pre["other"] and flat.get(self.dst_name) is pre["o"]), note=repr({k: flat.get(k) for k in (self.src_name, self.dst_name)}))
            rest = {k: v for k, v in flat.items() if k not in (self.src_name, self.dst_name)}
            ex.oblige(self.oname("ensures:every_option_is_handed_on_unchanged"), z3.BoolVal(set(rest) >= set(pre["kw"]) and all(rest[k] is v for k, v in pre["kw"].items())), note=repr(rest)[:300])
            ex.oblige(self.oname("ensures:the_call_is_not_wrapped_in_a_document_buffering_block_(which_would_bypass_the_file-level_roll-back)"),
                      z3.BoolVal(g["wrapped_in"] == []), note=repr(g["wrapped_in"]))
        else:
            ex.oblige(self.oname("ensures:the_synchronisation_function_is_called"), False, note=repr(outcome))


CONTRACTS += [SyncFrontEnd("signac.job.Job", f"{SY}.sync_jobs", "src", "dst", ("strategy", "exclude", "doc_sync")),
              SyncFrontEnd("signac.project.Project", f"{SY}.sync_projects", "source", "destination", ("strategy", "exclude", "doc_sync", "selection"))]
