"""Sidecar contracts for signac/sync.py (C13, C14, C15)."""
import filecmp
import os
import re
import shutil

import z3

from pyvc.core import CutSeq, NativeStub, OpaqueStr, RaiseSignal, SBool, Sym, Unsupported
from pyvc.interp import LoopSpec, Obj
from pyvc.theory_j import EX_idx, FA_idx
from pyvc.verify import Contract, Ctx

SY = "signac.sync"

# ----------------------------------------------------------------------------- directory comparison model (one sub-directory level)
Fn = z3.DeclareSort("Fn")              # an entry name inside the compared sub-directory
Sub = z3.DeclareSort("Sub")            # a relative sub-directory of the job workspace
excl = z3.Function("excl", Fn, z3.BoolSort())              # some exclude pattern re.match()es the name
src_isfile = z3.Function("src_isfile", Sub, Fn, z3.BoolSort())
strat = z3.Function("strat", Sub, Fn, z3.BoolSort())       # what the strategy answers for (subdir/name)
subjoin = z3.Function("subjoin", Sub, Fn, Sub)             # os.path.join(subdir, name)


TOP = z3.Const("TOP", Sub)             # the job directory itself


class SFn(Sym):
    def __init__(self, e):
        self.e = e

    def sym_isinstance(self, ex, cls):
        return cls in (str, object)


class SSub(Sym):
    def __init__(self, e):
        self.e = e

    def sym_isinstance(self, ex, cls):
        return cls in (str, object)


class SNameSeq(Sym):
    def __init__(self, tag, label):
        self.n = z3.Int(f"n_{tag}")
        self.at = z3.Function(f"name_{tag}", z3.IntSort(), Fn)
        self.label = label

    def wf(self):
        a, b = z3.Ints("na nb")
        return [self.n >= 0, z3.ForAll([a, b], z3.Implies(z3.And(0 <= a, a < b, b < self.n), self.at(a) != self.at(b)))]

    def sym_iter(self, ex):
        return CutSeq(self.n, lambda interp, i: SFn(self.at(i)), label=self.label)

    def has(self, f):
        return EX_idx(0, self.n, lambda k: self.at(k) == f)


class SDiff(Sym):
    """filecmp.dircmp(a, b) / _dircmp_deep(a, b): left_only, diff_files, subdirs (trusted contract of filecmp)"""

    def __init__(self, deep, a, b):
        self.deep, self.a, self.b = deep, a, b
        self.left_only = SNameSeq("left_only", "diff.left_only")
        self.diff_files = SNameSeq("diff_files", "diff.diff_files")
        self.subdirs = SNameSeq("subdirs", "diff.subdirs")

    def sym_getattr(self, ex, name):
        if name in ("left_only", "diff_files", "subdirs"):
            return getattr(self, name)
        raise Unsupported(f"dircmp.{name}")


class SJobRef(Sym):
    def __init__(self, side):
        self.side = side

    def sym_getattr(self, ex, name):
        if name == "path":
            return SPath(self.side, None, None)
        if name == "fn":
            def fn(x):
                if isinstance(x, SSub):
                    return SPath(self.side, x, None)
                if isinstance(x, SRel):          # job.fn(os.path.join(subdir, name)) == os.path.join(job.path, subdir, name)
                    return SPath(self.side, x.sub, x.fn)
                if isinstance(x, SFn):           # a name directly under the job directory: no sub-directory
                    return SPath(self.side, SSub(TOP), x)
                raise Unsupported("job.fn argument")
            return NativeStub(fn, "job.fn")
        raise Unsupported(f"job.{name} in _sync_job_workspaces")


class SPath(Sym):
    def __init__(self, side, sub, fn):
        self.side, self.sub, self.fn = side, sub, fn


class SRel(Sym):
    def __init__(self, sub, fn):
        self.sub, self.fn = sub, fn


class SExclude(Sym):
    """the exclude list: only `bool(exclude)` and `any(re.match(p, fn) for p in exclude)` are observable"""

    def __init__(self):
        self.nonempty = z3.Bool("exclude_nonempty")

    def sym_truth(self, ex):
        return self.nonempty


class Effects:
    """ghost log of proxy calls made at this level: characteristic functions over names"""

    def __init__(self):
        self.copied = lambda f: z3.BoolVal(False)
        self.tree = lambda f: z3.BoolVal(False)
        self.recursed = lambda f: z3.BoolVal(False)
        self.bad = []

    def add(self, kind, e):
        cur = getattr(self, kind)
        setattr(self, kind, lambda f, cur=cur, e=e: z3.Or(cur(f), f == e))

    def havoc(self, ex, tag):
        for kind in ("copied", "tree", "recursed"):
            fn = z3.Function(ex.fresh_name(f"{kind}_{tag}"), Fn, z3.BoolSort())
            setattr(self, kind, lambda f, fn=fn: fn(f))


class SyncCtx(Ctx):
    def __init__(self, contract, case):
        super().__init__(contract, case)
        self.externals[filecmp.dircmp] = lambda interp, a, b, *r, **k: self.mk_diff(interp, False, a, b)
        self.externals[os.path.join] = self.x_join
        self.externals[os.path.isfile] = self.x_isfile
        self.externals[re.match] = lambda interp, p, s, *a: (_ for _ in ()).throw(Unsupported("re.match outside the exclude test"))

    def mk_diff(self, interp, deep, a, b):
        g = self.ghost
        ok = isinstance(a, SPath) and isinstance(b, SPath) and a.side == "src" and b.side == "dst" and a.fn is None and b.fn is None
        same_sub = ok and isinstance(a.sub, SSub) and isinstance(b.sub, SSub) and z3.eq(a.sub.e, g["sub"]) and z3.eq(b.sub.e, g["sub"])
        interp.ex.oblige(self.target + "#call[dircmp]:compares_source_and_destination_at_the_current_subdir", z3.BoolVal(bool(same_sub)))
        d = SDiff(deep, a, b)
        g["diff"] = d
        for seq in (d.left_only, d.diff_files, d.subdirs):
            for ax in seq.wf():
                interp.ex.assume(ax)
        interp.ex.assumptions_used.add("filecmp.dircmp contract: left_only / diff_files / subdirs are duplicate-free listings; `deep` = content comparison (class _dircmp_deep), "
                                       "shallow = size+mtime signature")
        return d

    def instantiate(self, interp, rc, args, kw):
        if rc.name == "_dircmp_deep":
            return self.mk_diff(interp, True, *args)
        return NotImplemented

    def x_join(self, interp, *parts):
        p0 = parts[0]
        if isinstance(p0, SPath) and p0.sub is None and len(parts) == 3 and isinstance(parts[1], SSub) and isinstance(parts[2], SFn):
            return SPath(p0.side, parts[1], parts[2])
        if isinstance(p0, SSub) and len(parts) == 2 and isinstance(parts[1], SFn):
            return SRel(p0, parts[1])
        raise Unsupported("os.path.join shape in _sync_job_workspaces")

    def x_isfile(self, interp, p):
        if isinstance(p, SPath) and p.side == "src" and p.fn is not None:
            return SBool(src_isfile(p.sub.e, p.fn.e))
        raise Unsupported("isfile shape")

    def comprehension(self, interp, node, frame):
        import ast
        # [re.match(p, fn) for p in exclude]  ->  a one-element list holding "some pattern matches fn"
        if isinstance(node, ast.ListComp) and len(node.generators) == 1:
            it = interp.ev(node.generators[0].iter, frame)
            if isinstance(it, SExclude):
                src_txt = ast.unparse(node.elt)
                tgt = node.generators[0].target
                if isinstance(tgt, ast.Name) and src_txt == f"re.match({tgt.id}, fn)":
                    fn = interp.lookup(frame, "fn")
                    return [SBool(excl(fn.e))]
                raise Unsupported(f"exclude test `{src_txt}` is not re.match(pattern, fn)")
        return NotImplemented


class SyncJobWorkspaces(Contract):
    """one directory level of the file walk (the recursive call is replaced by this contract on the sub-directory)"""
    target = f"{SY}._sync_job_workspaces"
    properties = ("C13", "C14", "C15")
    ctx_class = SyncCtx

    def cases(self):
        return [{"recursive": r, "deep": d, "strategy": s} for r in (True, False) for d in (False, True) for s in ("none", "some")]

    def loops(self, case):
        def E(interp):
            return interp.ctx.ghost["eff"]

        def D(interp):
            return interp.ctx.ghost["diff"]

        f = z3.Const("lf", Fn)

        def spec_left(interp, upto):
            d, sub = D(interp), interp.ctx.ghost["sub"]
            inpre = lambda x: EX_idx(0, upto, lambda k: d.left_only.at(k) == x)
            return (lambda x: z3.And(inpre(x), z3.Not(z3.And(interp.ctx.ghost["ex_nonempty"], excl(x))), src_isfile(sub, x)),
                    lambda x: z3.And(inpre(x), z3.Not(z3.And(interp.ctx.ghost["ex_nonempty"], excl(x))), z3.Not(src_isfile(sub, x)), z3.BoolVal(case["recursive"])))

        def spec_diff(interp, upto):
            d, sub = D(interp), interp.ctx.ghost["sub"]
            inpre = lambda x: EX_idx(0, upto, lambda k: d.diff_files.at(k) == x)
            if case["strategy"] == "none":
                return lambda x: z3.BoolVal(False)
            return lambda x: z3.And(inpre(x), z3.Not(z3.And(interp.ctx.ghost["ex_nonempty"], excl(x))), strat(sub, x))

        def none_ok(interp, upto):
            """without a strategy the walk only gets past excluded differing files"""
            d = D(interp)
            if case["strategy"] != "none":
                return z3.BoolVal(True)
            return FA_idx(0, upto, lambda k: z3.And(interp.ctx.ghost["ex_nonempty"], excl(d.diff_files.at(k))))

        def inv_left(interp, fr, i, seq):
            e = E(interp)
            c, t = spec_left(interp, i)
            return z3.ForAll([f], z3.And(e.copied(f) == c(f), e.tree(f) == t(f), z3.Not(e.recursed(f))))

        def inv_diff(interp, fr, i, seq):
            e, d = E(interp), D(interp)
            c, t = spec_left(interp, d.left_only.n)
            c2 = spec_diff(interp, i)
            return z3.And(none_ok(interp, i), z3.ForAll([f], z3.And(e.copied(f) == z3.Or(c(f), c2(f)), e.tree(f) == t(f), z3.Not(e.recursed(f)))))

        def inv_sub(interp, fr, i, seq):
            e, d = E(interp), D(interp)
            c, t = spec_left(interp, d.left_only.n)
            c2 = spec_diff(interp, d.diff_files.n)
            return z3.And(none_ok(interp, d.diff_files.n),
                          z3.ForAll([f], z3.And(e.copied(f) == z3.Or(c(f), c2(f)), e.tree(f) == t(f),
                                                e.recursed(f) == z3.And(z3.BoolVal(case["recursive"]), EX_idx(0, i, lambda k: d.subdirs.at(k) == f)))))

        hv = lambda interp, fr, tag: interp.ctx.ghost["eff"].havoc(interp.ex, tag)
        sc = ("fn", "fn_src", "fn_dst", "_subdir")
        return {"diff.left_only": LoopSpec("left_only", inv_left, havoc={"$eff": hv}, scratch=sc),
                "diff.diff_files": LoopSpec("diff_files", inv_diff, havoc={"$eff": hv}, scratch=sc),
                "diff.subdirs": LoopSpec("subdirs", inv_sub, havoc={"$eff": hv}, scratch=sc)}

    def setup(self, interp, case):
        ex, ctx = interp.ex, interp.ctx
        g = ctx.ghost
        sub = z3.Const("subdir", Sub)
        eff = Effects()
        excl_obj = SExclude()
        g.update({"sub": sub, "eff": eff, "ex_nonempty": excl_obj.nonempty})
        src, dst = SJobRef("src"), SJobRef("dst")

        def copy(a, b):
            ok = (isinstance(a, SPath) and isinstance(b, SPath) and a.side == "src" and b.side == "dst" and a.fn is not None and b.fn is not None
                  and z3.eq(a.fn.e, b.fn.e) and z3.eq(a.sub.e, sub) and z3.eq(b.sub.e, sub))
            ex.oblige(self.oname("call[copy]:source_entry_to_the_same_relative_place_in_the_destination"), z3.BoolVal(bool(ok)))
            if ok:
                eff.add("copied", a.fn.e)

        def copytree(a, b):
            ok = (isinstance(a, SPath) and isinstance(b, SPath) and a.side == "src" and b.side == "dst" and a.fn is not None and b.fn is not None
                  and z3.eq(a.fn.e, b.fn.e) and z3.eq(a.sub.e, sub) and z3.eq(b.sub.e, sub))
            ex.oblige(self.oname("call[copytree]:source_directory_to_the_same_relative_place_in_the_destination"), z3.BoolVal(bool(ok)))
            if ok:
                eff.add("tree", a.fn.e)

        def strategy(s, d, rel):
            ok = s is src and d is dst and isinstance(rel, SRel) and z3.eq(rel.sub.e, sub)
            ex.oblige(self.oname("call[strategy]:asked_about_(src,dst,subdir/name)"), z3.BoolVal(bool(ok)))
            return SBool(strat(sub, rel.fn.e)) if ok else False

        g["copy"], g["copytree"] = NativeStub(copy, "copy"), NativeStub(copytree, "copytree")
        g["strategy"] = NativeStub(strategy, "strategy") if case["strategy"] == "some" else None
        g["exclude"], g["src"], g["dst"] = excl_obj, src, dst

        def rec(interp_, b):
            # the recursive call, by contract: must forward every option unchanged and descend into subdir/_subdir
            sd = b["subdir"]
            name = interp_.lookup_sub = None
            ok = (b["src"] is src and b["dst"] is dst and b["strategy"] is g["strategy"] and b["exclude"] is excl_obj and b["copy"] is g["copy"]
                  and b["copytree"] is g["copytree"] and b["recursive"] is case["recursive"] and b["deep"] is case["deep"] and isinstance(sd, SRel) and z3.eq(sd.sub.e, sub))
            ex.oblige(self.oname("call[recursion]:forwards_strategy_exclude_proxy_recursive_deep_and_descends_into_subdir/name"), z3.BoolVal(bool(ok)))
            if ok:
                eff.add("recursed", sd.fn.e)
            return None
        self.recursive_stub = None
        ctx.callee_contracts[self.target] = rec
        kw = dict(src=src, dst=dst, strategy=g["strategy"], exclude=excl_obj, copy=g["copy"], copytree=g["copytree"], recursive=case["recursive"], deep=case["deep"], subdir=SSub(sub))
        return [], kw, {"eff": eff, "sub": sub}

    def make_ctx(self, case):
        ctx = super().make_ctx(case)
        orig_policy = ctx.policy

        def policy(qual):
            if qual == self.target and ctx.ghost.get("entered"):
                return "contract", ctx.callee_contracts[self.target]
            if qual == self.target:
                ctx.ghost["entered"] = True
                return "inline", None
            return orig_policy(qual)
        ctx.policy = policy
        ctx.ghost["entered"] = True   # the driver enters the target directly; every call from inside is the recursive one
        return ctx

    def post(self, interp, case, pre, outcome):
        from signac.errors import FileSyncConflict
        ex, ctx = interp.ex, interp.ctx
        g = ctx.ghost
        d, e, sub = g.get("diff"), g["eff"], g["sub"]
        f = z3.Const("pf", Fn)
        if d is None:
            ex.oblige(self.oname("ensures:directories_are_compared"), False)
            return
        ex.oblige(self.oname("ensures:deep_selects_content_comparison"), z3.BoolVal(d.deep is case["deep"]))
        nonex = lambda x: z3.Not(z3.And(g["ex_nonempty"], excl(x)))
        if outcome[0] == "return":
            ex.oblige(self.oname("ensures:left_only_files_copied_iff_not_excluded"),
                      z3.ForAll([f], z3.Implies(z3.And(d.left_only.has(f), src_isfile(sub, f)), e.copied(f) == nonex(f))))
            ex.oblige(self.oname("ensures:left_only_directories_copied_iff_recursive_and_not_excluded"),
                      z3.ForAll([f], z3.Implies(z3.And(d.left_only.has(f), z3.Not(src_isfile(sub, f))), e.tree(f) == z3.And(nonex(f), z3.BoolVal(case["recursive"])))))
            ex.oblige(self.oname("ensures:differing_file_overwritten_iff_not_excluded_and_strategy_says_so"),
                      z3.ForAll([f], z3.Implies(z3.And(d.diff_files.has(f), z3.Not(d.left_only.has(f))),
                                                e.copied(f) == (z3.And(nonex(f), strat(sub, f)) if case["strategy"] == "some" else z3.BoolVal(False)))))
            ex.oblige(self.oname("ensures:nothing_else_is_copied"),
                      z3.ForAll([f], z3.And(z3.Implies(e.copied(f), z3.Or(d.left_only.has(f), d.diff_files.has(f))), z3.Implies(e.tree(f), d.left_only.has(f)))))
            ex.oblige(self.oname("ensures:common_subdirectories_visited_iff_recursive"),
                      z3.ForAll([f], e.recursed(f) == z3.And(z3.BoolVal(case["recursive"]), d.subdirs.has(f))))
            if case["strategy"] == "none":
                ex.oblige(self.oname("ensures:without_strategy_returns_only_if_no_unexcluded_differing_file"),
                          z3.ForAll([f], z3.Implies(d.diff_files.has(f), z3.Not(nonex(f)))))
        else:
            exc = outcome[1]
            ok = isinstance(exc, FileSyncConflict) and case["strategy"] == "none"
            ex.oblige(self.oname("raises:FileSyncConflict_only_without_strategy"), z3.BoolVal(ok))
            if ok:
                # raised before any effect on that file: no differing file has been copied
                ex.oblige(self.oname("raises:FileSyncConflict_before_touching_any_differing_file"),
                          z3.ForAll([f], z3.Implies(z3.And(d.diff_files.has(f), z3.Not(d.left_only.has(f))), z3.Not(e.copied(f)))))
                fname = getattr(exc, "filename", None)
                ex.oblige(self.oname("raises:FileSyncConflict_names_an_unexcluded_differing_file"),
                          z3.And(d.diff_files.has(fname.e), nonex(fname.e)) if isinstance(fname, SFn) else z3.BoolVal(False))


CONTRACTS = [SyncJobWorkspaces()]


# ============================================================================= DocSync.ByKey.__call__  (one nesting level)
Doc = z3.DeclareSort("Doc")
Key = z3.DeclareSort("Key")
Val = z3.DeclareSort("Val")
DKN = z3.DeclareSort("DKN")                                   # a dotted key name / prefix string
d_has = z3.Function("d_has", Doc, Key, z3.BoolSort())
d_get = z3.Function("d_get", Doc, Key, Val)
v_eq = z3.Function("v_eq", Val, Val, z3.BoolSort())           # Python == on document values
v_ismap = z3.Function("v_ismap", Val, z3.BoolSort())          # isinstance(value, Mapping)
v_doc = z3.Function("v_doc", Val, Doc)                        # the mapping behind a mapping value
doc_eq = z3.Function("doc_eq", Doc, Doc, z3.BoolSort())       # src == dst on whole documents
cat = z3.Function("cat", DKN, Key, DKN)                       # root + key          (a full dotted key name)
catdot = z3.Function("catdot", DKN, Key, DKN)                 # root + key + "."    (the prefix for the next level)
keydot = z3.Function("keydot", Key, DKN)                      # key + "."           (what a buggy recursion would pass)
ROOT = z3.Const("ROOT", DKN)                                  # ""
ks = z3.Function("key_strategy", DKN, z3.BoolSort())          # truthiness of key_strategy(name)


class SKey(Sym):
    def __init__(self, e):
        self.e = e

    def sym_binop(self, ex, op, other, reflected=False):
        if op == "Add" and other == "." and not reflected:
            return SDKN(keydot(self.e))
        if op == "Add" and isinstance(other, SDKN) and reflected:
            return SDKN(cat(other.e, self.e), base=(other.e, self.e))
        if op == "Add" and other == "" and reflected:
            return SDKN(cat(ROOT, self.e), base=(ROOT, self.e))
        raise Unsupported("key string arithmetic")


class SDKN(Sym):
    def __init__(self, e, base=None):
        self.e, self.base = e, base

    def sym_binop(self, ex, op, other, reflected=False):
        if op == "Add" and isinstance(other, SKey) and not reflected:
            return SDKN(cat(self.e, other.e), base=(self.e, other.e))
        if op == "Add" and other == "." and not reflected and self.base is not None:
            return SDKN(catdot(*self.base))
        raise Unsupported("key string arithmetic")

    def sym_truth(self, ex):
        return self.e != ROOT      # only the empty string is falsy

    def sym_hashable(self):
        return True


class SVal(Sym):
    def __init__(self, e):
        self.e = e

    def sym_eq(self, ex, other):
        if isinstance(other, SVal):
            return SBool(v_eq(self.e, other.e))
        raise Unsupported("value ==")

    def sym_isinstance(self, ex, cls):
        from collections.abc import Mapping
        if cls is Mapping:
            return SBool(v_ismap(self.e))
        raise Unsupported("isinstance on a document value")


class SDocRef(Sym):
    """a document-like object: src (read only) or dst (gated proxy, or raw nested mapping)"""

    def __init__(self, e, role, gated, log):
        self.e, self.role, self.gated, self.log = e, role, gated, log

    def sym_eq(self, ex, other):
        if isinstance(other, SDocRef):
            return SBool(doc_eq(self.e, other.e))
        raise Unsupported("doc ==")

    def sym_contains(self, ex, k):
        if isinstance(k, SKey):
            return SBool(d_has(self.e, k.e))
        raise Unsupported("in doc")

    def sym_getitem(self, ex, k):
        if not isinstance(k, SKey):
            raise Unsupported("doc[...] key")
        v = SVal(d_get(self.e, k.e))
        v.origin = (self, k.e)
        return v

    def sym_setitem(self, ex, k, v):
        if self.role != "dst" or not isinstance(k, SKey) or not isinstance(v, SVal):
            raise Unsupported("doc[...] = ... shape")
        self.log.append((k.e, v.e, self.gated))

    def sym_getattr(self, ex, name):
        if name == "items" and self.role == "src":
            return NativeStub(lambda: SDocItems(self), "doc.items")
        if name == "dry_run" and self.gated:
            return DRY
        raise Unsupported(f"doc.{name}")

    def sym_isinstance(self, ex, cls):
        if getattr(cls, "__name__", "") == "_DocProxy":
            return bool(self.gated)
        from collections.abc import Mapping
        return cls in (Mapping, object)


class _Dry:
    """the proxy's dry_run flag (identity matters: the nested proxy must carry the same flag)"""


DRY = _Dry()


class SDocItems(Sym):
    def __init__(self, d):
        self.d = d

    def sym_iter(self, ex):
        n = z3.Int("n_srckeys")
        at = z3.Function("srckey", z3.IntSort(), Key)
        self.n, self.at = n, at
        d = self.d

        def elem(interp, i):
            v = SVal(d_get(d.e, at(i)))
            v.origin = (d, at(i))
            return (SKey(at(i)), v)
        interp_ghost = d.log  # noqa
        return CutSeq(n, elem, label="src.items()")


class ByKeyCtx(Ctx):
    def str_join(self, interp, sep, parts):
        return OpaqueStr()

    def dep_getattr(self, interp, o, name):
        raise Unsupported(f"attribute {name}")


class ByKeyCall(Contract):
    target = f"{SY}.DocSync.ByKey.__call__"
    properties = ("C13", "C14", "C15")
    ctx_class = ByKeyCtx
    inline = (f"{SY}._log_more", f"{SY}._DocProxy.__init__")

    def cases(self):
        return [{"strategy": s, "level": l} for s in ("none", "some") for l in ("top", "nested")]

    def loops(self, case):
        k = z3.Const("lk", Key)
        n = z3.Const("ln", DKN)

        def inv(interp, fr, i, seq):
            g = interp.ctx.ghost
            W, S, R = g["written"], g["skipset"].member, g["recursed"]
            items = g["items"]
            seen = lambda x: EX_idx(0, i, lambda j: items.at(j) == x)
            w, sk, rc = self.spec(case, g)
            return z3.And(z3.ForAll([k], W(k) == z3.And(seen(k), w(k))), z3.ForAll([k], R(k) == z3.And(seen(k), rc(k))),
                          z3.ForAll([n], S(n) == z3.Or(g["skipped0"](n), z3.Exists([k], z3.And(seen(k), sk(k), n == cat(g["root"], k))))))

        def hv(interp, fr, tag):
            g, ex = interp.ctx.ghost, interp.ex
            fw = z3.Function(ex.fresh_name("W"), Key, z3.BoolSort())
            fr_ = z3.Function(ex.fresh_name("R"), Key, z3.BoolSort())
            fs = z3.Function(ex.fresh_name("S"), DKN, z3.BoolSort())
            g["written"], g["recursed"], g["skipped"] = (lambda x: fw(x)), (lambda x: fr_(x)), (lambda x: fs(x))
            g["skipset"].member = g["skipped"]
            g["log"].clear()
            g["reclog"].clear()
        return {"src.items()": LoopSpec("keys", inv, havoc={"$ghost": hv}, scratch=("key", "value"), heap_frame=lambda interp, fr, writes: self.flush(interp, fr))}

    @staticmethod
    def spec(case, g):
        """what must happen to source key k at this level (from the property)"""
        src, dst, root = g["src"].e, g["dst"].e, g["root"]
        differs = lambda x: z3.And(d_has(dst, x), z3.Not(v_eq(d_get(dst, x), d_get(src, x))))
        selected = (lambda x: ks(cat(root, x))) if case["strategy"] == "some" else (lambda x: z3.BoolVal(False))
        written = lambda x: z3.Or(z3.Not(d_has(dst, x)), z3.And(differs(x), z3.Not(v_ismap(d_get(src, x))), selected(x)))
        skipped = lambda x: z3.And(differs(x), z3.Not(v_ismap(d_get(src, x))), z3.Not(selected(x)))
        recursed = lambda x: z3.And(differs(x), v_ismap(d_get(src, x)))
        return written, skipped, recursed

    def flush(self, interp, fr):
        """fold the concrete per-iteration logs into the ghost characteristic functions (called at the end of a loop-body run)"""
        g, ex = interp.ctx.ghost, interp.ex
        for (k, v, gated) in g["log"]:
            ex.oblige(self.oname("body:writes_the_source_value_under_the_same_key_through_the_gated_destination"),
                      z3.And(v == d_get(g["src"].e, k), z3.BoolVal(bool(gated))))
            cur = g["written"]
            g["written"] = lambda x, cur=cur, k=k: z3.Or(cur(x), x == k)
        g["log"].clear()
        for k in g["reclog"]:
            cur = g["recursed"]
            g["recursed"] = lambda x, cur=cur, k=k: z3.Or(cur(x), x == k)
        g["reclog"].clear()

    def setup(self, interp, case):
        from pyvc.theory_j import SymSet
        ex, ctx = interp.ex, interp.ctx
        g = ctx.ghost
        rp = interp.repo
        rp.load(SY)
        selfo = Obj(rp.classes[f"{SY}.DocSync.ByKey"])
        log, reclog = [], []
        src = SDocRef(z3.Const("srcdoc", Doc), "src", False, log)
        dst = SDocRef(z3.Const("dstdoc", Doc), "dst", True, log)
        root = ROOT if case["level"] == "top" else z3.Const("rootname", DKN)
        if case["level"] == "nested":
            ex.assume(root != ROOT)
        sk0 = z3.Function("skipped0", DKN, z3.BoolSort())
        skipset = SymSet(lambda x: sk0(x), DKN)
        if case["level"] == "top":
            ex.assume(z3.ForAll([z3.Const("s0", DKN)], z3.Not(sk0(z3.Const("s0", DKN)))))
        # string facts: a full name is never empty
        kk, rr = z3.Const("ak", Key), z3.Const("ar", DKN)
        ex.assume(z3.ForAll([rr, kk], z3.And(cat(rr, kk) != ROOT, catdot(rr, kk) != ROOT, keydot(kk) != ROOT)))

        def strategy(name):
            ok = isinstance(name, SDKN)
            ex.oblige(self.oname("call[key_strategy]:asked_with_a_dotted_name"), z3.BoolVal(ok))
            return SBool(ks(name.e)) if ok else False
        selfo.fields.update(key_strategy=NativeStub(strategy, "key_strategy") if case["strategy"] == "some" else None, skipped_keys=skipset)
        items = SDocItems(src)
        src_items_seq = items.sym_iter(ex)
        ex.assume(items.n >= 0)
        a, b = z3.Ints("ka kb")
        x = z3.Const("kx", Key)
        ex.assume(z3.ForAll([a, b], z3.Implies(z3.And(0 <= a, a < b, b < items.n), items.at(a) != items.at(b))))
        ex.assume(z3.ForAll([x], d_has(src.e, x) == EX_idx(0, items.n, lambda j: items.at(j) == x)))
        src.sym_getattr = lambda ex_, name, items=items, src=src: NativeStub(lambda: _Items(items), "doc.items") if name == "items" else (_ for _ in ()).throw(Unsupported(f"doc.{name}"))
        g.update({"src": src, "dst": dst, "root": root, "items": items, "log": log, "reclog": reclog, "skipset": skipset, "skipped0": (lambda n: sk0(n)),
                  "written": (lambda k: z3.BoolVal(False)), "recursed": (lambda k: z3.BoolVal(False)), "skipped": (lambda n: sk0(n)), "self": selfo})

        def rec(interp_, b):
            # recursive call by contract: requires a *gated* destination (so that dry runs stay dry) and the full dotted prefix
            s, d, r = b["src"], b["dst"], b["root"]
            key = getattr(s, "origin", (None, None))[1] if isinstance(s, SVal) else None
            ok_src = isinstance(s, SVal) and getattr(s, "origin", (None,))[0] is src
            gated = False
            if isinstance(d, Obj) and d.cls.name == "_DocProxy":      # a proxy around the nested destination, same dry_run flag
                gated = d.fields.get("dry_run") is DRY
                d = d.fields.get("doc")
            ok_dst = isinstance(d, SVal) and getattr(d, "origin", (None,))[0] is dst and key is not None and z3.eq(d.origin[1], key)
            ex.oblige(self.oname("call[recursion]:descends_into_the_same_key_on_both_sides"), z3.BoolVal(bool(ok_src and ok_dst)))
            ex.oblige(self.oname("call[recursion]:requires_a_gated_destination_(writes_below_must_honour_dry_run)"), z3.BoolVal(bool(gated)),
                      note="dst[key] is the raw nested mapping behind the proxy unless it is wrapped again")
            if key is not None:
                ex.oblige(self.oname("call[recursion]:passes_the_full_dotted_prefix_root+key+dot"), r.e == catdot(root, key) if isinstance(r, SDKN) else z3.BoolVal(False))
                reclog.append(key)
            return None
        ctx.callee_contracts[self.target] = rec
        ctx.ghost["entered"] = True
        args = [selfo, src, dst] + ([] if case["level"] == "top" else [SDKN(root)])
        return args, {}, {"self": selfo}

    def make_ctx(self, case):
        ctx = super().make_ctx(case)
        orig = ctx.policy

        def policy(qual):
            if qual == self.target:
                return "contract", ctx.callee_contracts[self.target]
            return orig(qual)
        ctx.policy = policy
        return ctx

    def post(self, interp, case, pre, outcome):
        from signac.errors import DocumentSyncConflict
        ex, ctx = interp.ex, interp.ctx
        g = ctx.ghost
        self.flush(interp, None)
        k, n = z3.Const("pk", Key), z3.Const("pn", DKN)
        src, dst, root = g["src"], g["dst"], g["root"]
        w, sk, rc = self.spec(case, g)
        inset = lambda x: d_has(src.e, x)
        S = g["skipset"].member
        skipped_spec = lambda nn: z3.Or(g["skipped0"](nn), z3.Exists([k], z3.And(inset(k), sk(k), nn == cat(root, k))))
        equal = doc_eq(src.e, dst.e)
        if outcome[0] == "return":
            ex.oblige(self.oname("ensures:overwritten_iff_absent_or_differing_scalar_selected_by_the_key_strategy"),
                      z3.Implies(z3.Not(equal), z3.ForAll([k], g["written"](k) == z3.And(inset(k), w(k)))))
            ex.oblige(self.oname("ensures:differing_mappings_are_merged_recursively_never_overwritten"),
                      z3.Implies(z3.Not(equal), z3.ForAll([k], g["recursed"](k) == z3.And(inset(k), rc(k)))))
            ex.oblige(self.oname("ensures:unselected_conflicts_recorded_under_their_full_dotted_name"), z3.Implies(z3.Not(equal), z3.ForAll([n], S(n) == skipped_spec(n))))
            ex.oblige(self.oname("ensures:equal_documents_are_left_alone"), z3.Implies(equal, z3.And(z3.ForAll([k], z3.Not(g["written"](k))), z3.ForAll([n], S(n) == g["skipped0"](n)))))
            if case["strategy"] == "none" and case["level"] == "top":
                ex.oblige(self.oname("ensures:without_key_strategy_returns_only_if_nothing_was_skipped"), z3.ForAll([n], z3.Not(S(n))))
        else:
            exc = outcome[1]
            ok = isinstance(exc, DocumentSyncConflict) and case["strategy"] == "none" and case["level"] == "top"
            ex.oblige(self.oname("raises:DocumentSyncConflict_only_at_top_level_without_key_strategy"), z3.BoolVal(ok))
            if ok:
                ex.oblige(self.oname("raises:DocumentSyncConflict_only_if_some_key_conflicts"), z3.Exists([n], S(n)))
                ex.oblige(self.oname("raises:DocumentSyncConflict_carries_the_skipped_keys"), z3.BoolVal(getattr(exc, "keys", None) is g["skipset"]))


class _Items(Sym):
    def __init__(self, items):
        self.items = items

    def sym_iter(self, ex):
        it = self.items
        d = it.d

        def elem(interp, i):
            v = SVal(d_get(d.e, it.at(i)))
            v.origin = (d, it.at(i))
            return (SKey(it.at(i)), v)
        return CutSeq(it.n, elem, label="src.items()")


CONTRACTS.append(ByKeyCall())


# ============================================================================= _FileModifyProxy / _DocProxy: dry-run frame


class FxCtx(Ctx):
    """externals of the proxy methods: every file-system mutation is recorded in the ghost effect list `fx`"""

    def __init__(self, contract, case):
        super().__init__(contract, case)
        g = self.ghost
        g["fx"] = []

        def rec(name):
            def f(interp, *a, **k):
                g["fx"].append((name, a, k))
                return None
            return f
        for fn, nm in ((shutil.copy, "shutil.copy"), (shutil.copymode, "shutil.copymode"), (shutil.copy2, "shutil.copy2"), (os.remove, "os.remove"),
                       (os.symlink, "os.symlink"), (os.chown, "os.chown"), (os.unlink, "os.unlink"), (os.rmdir, "os.rmdir"), (os.rename, "os.rename"),
                       (os.replace, "os.replace"), (os.makedirs, "os.makedirs"), (os.mkdir, "os.mkdir"), (shutil.rmtree, "shutil.rmtree"), (shutil.move, "shutil.move")):
            self.externals[fn] = rec(nm)        # every mutating call of os / shutil is an effect, whichever one the code picks
        for fn in (os.path.lexists, os.path.exists, os.path.isdir):
            self.externals[fn] = lambda interp, p, fn=fn: SBool(z3.Bool(interp.ex.fresh_name(fn.__name__)))
        self.externals[shutil.copytree] = self.x_copytree
        self.externals[os.path.islink] = lambda interp, p: SBool(z3.Bool("src_is_link"))
        def isfile(interp, p):
            b = z3.Bool(interp.ex.fresh_name("isfile"))
            self.ghost.setdefault("isfile_calls", []).append((p, b))       # which question was asked about which path (PxCopy)
            return SBool(b)
        self.externals[os.path.isfile] = isfile
        self.externals[os.readlink] = lambda interp, p: SPathTok("link-target")
        self.externals[os.stat] = lambda interp, p: SStat()
        self.externals[os.path.relpath] = lambda interp, *a, **k: OpaqueStr()
        self.externals[os.walk] = lambda interp, top, *a, **k: SWalk(top)
        self.externals[os.path.join] = lambda interp, *parts: SPathTok(("join",) + tuple(parts))
        import filecmp as _fc
        # filecmp.cmp / cmpfiles: some answer (shallow comparisons say "identical" for files that differ in content only)
        self.externals[_fc.cmp] = lambda interp, a, b, shallow=True: SBool(z3.Bool(interp.ex.fresh_name("filecmp_cmp_says_identical")))

    def x_copytree(self, interp, src, dst, **kw):
        """shutil.copytree contract: ALWAYS creates the destination directories itself, then calls copy_function for every file"""
        self.ghost["fx"].append(("shutil.copytree:makedirs", (dst,), {}))
        cf = kw.get("copy_function")
        if cf is not None:
            interp.call(cf, [SPathTok(("file-under", src)), SPathTok(("file-under", dst))], {})
        return dst


class SPathTok(Sym):
    def __init__(self, what):
        self.what = what

    def __repr__(self):
        return f"SPathTok({self.what!r})"      # structural: equal tokens have equal text (used as file-map key)

    def sym_isinstance(self, ex, cls):
        return cls in (str, object)

    def sym_binop(self, ex, op, other, reflected=False):
        if op == "Add" and other == "~" and not reflected:
            return SPathTok(("backup", self))
        raise Unsupported("path arithmetic")


class SStat(Sym):
    def sym_getattr(self, ex, name):
        if name in ("st_size", "st_uid", "st_gid"):
            return 1
        raise Unsupported(name)


class SWalk(Sym):
    def __init__(self, top):
        self.top = top

    def sym_iter(self, ex):
        n = z3.Int("n_walk")
        ex.assume(n >= 0)
        return CutSeq(n, lambda interp, i: (SPathTok(("walk-dir", self.top)), [], SFileNames(i)), label="os.walk(src)")


class SFileNames(Sym):
    def __init__(self, i):
        self.i = i

    def sym_iter(self, ex):
        n = z3.Int(f"n_files_{self.i}")
        ex.assume(n >= 0)
        return CutSeq(n, lambda interp, j: SPathTok(("file", j)), label="filenames")


def stub_safe_relpath(interp, b):
    return OpaqueStr()


def mk_file_proxy(interp, dry_run, root, permissions=False, times=False, follow_symlinks=True, owner=False, group=False, stats=False):
    rp = interp.repo
    rp.load(SY)
    o = Obj(rp.classes[f"{SY}._FileModifyProxy"])
    o.fields.update(root=root, follow_symlinks=follow_symlinks, permissions=permissions, times=times, owner=owner, group=group, dry_run=dry_run,
                    stats=dict(num_files=0, volume=0) if stats else None)
    return o


class ProxyMethod(Contract):
    """dry_run => no file-system effect and normal return whenever the live run returns normally; live => the documented effect"""
    ctx_class = FxCtx
    properties = ("C13", "C14", "C15")      # a live copy / remove really happens (C13 superset, C14 overwrite iff the strategy says so); a dry run does nothing (C15)
    method = None
    inline_all = (f"{SY}._FileModifyProxy._copy", f"{SY}._FileModifyProxy._copy_p", f"{SY}._FileModifyProxy._copy2", f"{SY}._FileModifyProxy._remove",
                  f"{SY}._FileModifyProxy.remove", f"{SY}._FileModifyProxy.copy", f"{SY}._log_more")
    callees = {"signac._utility._safe_relpath": stub_safe_relpath}

    @property
    def inline(self):
        return tuple(q for q in self.inline_all if q != self.target)

    def post_common(self, interp, case, outcome, live_effects):
        ex, g = interp.ex, interp.ctx.ghost
        fx = [e[0] for e in g["fx"]]
        if case["dry_run"]:
            ex.oblige(self.oname("frame:dry_run_has_no_file_system_effect"), z3.BoolVal(fx == []), note=str(fx))
            ex.oblige(self.oname("ensures:dry_run_completes_like_the_live_run"), z3.BoolVal(outcome[0] == "return" or case.get("live_raises", False)), note=repr(outcome[1]))
        else:
            if outcome[0] == "return":
                ex.oblige(self.oname("ensures:live_run_performs_exactly_the_documented_effects"), z3.BoolVal(fx == live_effects), note=str(fx))


class PxCopy(ProxyMethod):
    target = f"{SY}._FileModifyProxy.copy"

    def cases(self):
        out = []
        for dry in (True, False):
            for root in (None, "ROOT"):
                for perm, times in ((False, False), (True, False), (True, True), (False, True)):
                    for follow in (True, False):
                        out.append({"dry_run": dry, "root": root, "permissions": perm, "times": times, "follow": follow, "live_raises": (not perm and times)})
        return out

    def setup(self, interp, case):
        o = mk_file_proxy(interp, case["dry_run"], SPathTok("root") if case["root"] else None, case["permissions"], case["times"], case["follow"])
        return [o, SPathTok("src"), SPathTok("dst")], {}, {}

    def post(self, interp, case, pre, outcome):
        ex, g = interp.ex, interp.ctx.ghost
        fx = [e[0] for e in g["fx"]]
        if outcome[0] == "raise" and not (isinstance(outcome[1], ValueError) and case["live_raises"]):
            ex.oblige(self.oname("raises:only_ValueError_for_times_without_permissions"), False, note=repr(outcome[1]))
        if case["dry_run"]:
            ex.oblige(self.oname("frame:dry_run_has_no_file_system_effect"), z3.BoolVal(fx == []), note=str(fx))
        elif outcome[0] == "return":
            allowed = {(False, False): ["shutil.copy"], (True, False): ["shutil.copy", "shutil.copymode"], (True, True): ["shutil.copy2"]}
            linkfx = [["os.symlink"], ["os.remove", "os.symlink"]]
            ok = fx == allowed.get((case["permissions"], case["times"])) or (not case["follow"] and fx in linkfx)
            ex.oblige(self.oname("ensures:live_copy_uses_the_copy_primitive_selected_by_permissions_and_times"), z3.BoolVal(ok), note=str(fx))
            if not case["follow"] and fx and fx[-1] == "os.symlink":
                # os.symlink refuses an existing destination: a file that is to be overwritten by a link (the strategy said so) has to be
                # removed first, whatever kind of file it is -- the question to ask about the destination is "is there a file", not "is it a link"
                asked = [b for p_, b in g.get("isfile_calls", []) if isinstance(p_, SPathTok) and p_.what == "dst"]
                ex.oblige(self.oname("ensures:a_file_at_the_destination_is_removed_before_the_link_is_made"),
                          z3.BoolVal(len(asked) == 1) if len(asked) != 1 else z3.Implies(asked[0], z3.BoolVal(fx == ["os.remove", "os.symlink"])), note=str(fx))


class PxCopytree(ProxyMethod):
    target = f"{SY}._FileModifyProxy.copytree"

    def cases(self):
        return [{"dry_run": d, "root": r} for d in (True, False) for r in (None, "ROOT")]

    def loops(self, case):
        # (only used once copytree walks the tree itself in a dry run)
        inv = lambda interp, fr, i, seq: z3.BoolVal(True)
        return {"os.walk(src)": LoopSpec("walk", inv, havoc={}, scratch=("root", "dirs", "files", "_", "dirpath", "dirnames", "filenames")),
                "filenames": LoopSpec("files", inv, havoc={}, scratch=("fn", "filename", "name")),
                "files": LoopSpec("files", inv, havoc={}, scratch=("fn", "filename", "name"))}

    def setup(self, interp, case):
        o = mk_file_proxy(interp, case["dry_run"], SPathTok("root") if case["root"] else None)
        return [o, SPathTok("srcdir"), SPathTok("dstdir")], {}, {}

    def post(self, interp, case, pre, outcome):
        ex, g = interp.ex, interp.ctx.ghost
        fx = [e[0] for e in g["fx"]]
        if outcome[0] == "raise":
            ex.oblige(self.oname("raises:nothing"), False, note=repr(outcome[1]))
        if case["dry_run"]:
            ex.oblige(self.oname("frame:dry_run_creates_no_directories_and_copies_no_files"), z3.BoolVal(fx == []), note=str(fx))
        elif outcome[0] == "return":
            ex.oblige(self.oname("ensures:live_copytree_creates_the_tree_and_copies_files_through_copy"), z3.BoolVal(fx[:1] == ["shutil.copytree:makedirs"] and "shutil.copy" in fx), note=str(fx))


class PxRemove(ProxyMethod):
    target = f"{SY}._FileModifyProxy.remove"

    def cases(self):
        return [{"dry_run": d} for d in (True, False)]

    def setup(self, interp, case):
        return [mk_file_proxy(interp, case["dry_run"], None), SPathTok("p")], {}, {}

    def post(self, interp, case, pre, outcome):
        self.post_common(interp, case, outcome, ["os.remove"])


class SDocState(Sym):
    """the real document behind a _DocProxy: ghost list of mutations"""

    def __init__(self, log):
        self.log = log

    def sym_setitem(self, ex, k, v):
        self.log.append(("setitem", k, v))

    def sym_getitem(self, ex, k):
        return SPathTok(("docvalue", k))

    def sym_getattr(self, ex, name):
        if name == "clear":
            return NativeStub(lambda: self.log.append(("clear",)), "doc.clear")
        if name == "keys":
            return NativeStub(lambda: SKeyList(), "doc.keys")
        if name in ("update", "reset", "pop", "popitem", "setdefault", "__setitem__", "__delitem__"):
            # every other mutator of the real document is a mutation all the same
            return NativeStub(lambda *a, **k: self.log.append((name,) + tuple(a)), f"doc.{name}")
        raise Unsupported(f"doc.{name}")

    def sym_delitem(self, ex, k):
        self.log.append(("delitem", k))


class SKeyList(Sym):
    def sym_iter(self, ex):
        n = z3.Int("n_keys")
        ex.assume(n >= 0)
        return CutSeq(n, lambda interp, i: SPathTok(("key", i)), label="other.keys()")


class DocProxyMethod(Contract):
    ctx_class = FxCtx
    properties = ("C15", "C14")
    inline = (f"{SY}._log_more", f"{SY}._DocProxy.__setitem__", f"{SY}._DocProxy.__getitem__")

    def cases(self):
        return [{"dry_run": d} for d in (True, False)]

    def mk(self, interp, case):
        rp = interp.repo
        rp.load(SY)
        log = []
        o = Obj(rp.classes[f"{SY}._DocProxy"])
        o.fields.update(doc=SDocState(log), dry_run=case["dry_run"])
        interp.ctx.ghost["doclog"] = log
        return o

    def post(self, interp, case, pre, outcome):
        ex, log = interp.ex, interp.ctx.ghost["doclog"]
        if outcome[0] == "raise":
            ex.oblige(self.oname("raises:nothing"), False, note=repr(outcome[1]))
        if case["dry_run"]:
            ex.oblige(self.oname("frame:dry_run_leaves_the_document_untouched"), z3.BoolVal(log == []), note=str(log)[:200])
        else:
            ex.oblige(self.oname("ensures:live_run_mutates_the_document"), z3.BoolVal(self.live_ok(log)), note=str(log)[:200])


class DpSetitem(DocProxyMethod):
    target = f"{SY}._DocProxy.__setitem__"
    inline = (f"{SY}._log_more",)

    def setup(self, interp, case):
        return [self.mk(interp, case), SPathTok("k"), SPathTok("v")], {}, {}

    def live_ok(self, log):
        return len(log) == 1 and log[0][0] == "setitem"


class DpClear(DocProxyMethod):
    target = f"{SY}._DocProxy.clear"

    def setup(self, interp, case):
        return [self.mk(interp, case)], {}, {}

    def live_ok(self, log):
        return log == [("clear",)]


class DpUpdate(DocProxyMethod):
    target = f"{SY}._DocProxy.update"

    def loops(self, case):
        def inv(interp, fr, i, seq):
            # dry run: nothing has been written so far
            return z3.BoolVal(True)

        def frame(interp, fr, writes):
            log = interp.ctx.ghost["doclog"]
            if case["dry_run"]:
                interp.ex.oblige(self.oname("frame:dry_run_leaves_the_document_untouched"), z3.BoolVal(log == []), note=str(log)[:200])
            else:
                interp.ex.oblige(self.oname("body:each_key_is_assigned_once"), z3.BoolVal(len(log) == 1 and log[0][0] == "setitem"))
        return {"other.keys()": LoopSpec("keys", inv, havoc={}, scratch=("key",), heap_frame=frame)}

    def setup(self, interp, case):
        return [self.mk(interp, case), SDocState([])], {}, {}

    def live_ok(self, log):
        return all(e[0] == "setitem" for e in log)       # key by key through __setitem__ (which carries the dry-run gate), nothing else


CONTRACTS += [PxCopy(), PxCopytree(), PxRemove(), DpSetitem(), DpClear(), DpUpdate()]


# ============================================================================= sync_jobs / sync_projects: option forwarding (wiring contracts)


class SJobStub(Sym):
    def __init__(self, tag, g):
        self.tag, self.g = tag, g
        self.doc = SDocHandle(tag)

    def sym_getattr(self, ex, name):
        from signac.job import Job
        g = self.g
        if name in ("FN_STATE_POINT", "FN_DOCUMENT"):
            return getattr(Job, name)
        if name == "path":
            return SPathTok(("jobpath", self.tag))
        if name == "_project":
            return SProjOf(self)
        if name == "document":
            return self.doc
        if name == "id":
            return SPathTok(("id", self.tag))
        if name == "init":
            def init(*a, **k):
                g["calls"].append(("init", self.tag))
                return self
            return NativeStub(init, "job.init")
        raise Unsupported(f"job.{name} in sync wiring")

    def sym_str(self, ex):
        return OpaqueStr()


class SProjOf(Sym):
    def __init__(self, job):
        self.job = job

    def sym_contains(self, ex, x):
        if x is self.job:
            return SBool(z3.Bool(f"initialised_{x.tag}"))
        raise Unsupported("in project")


class SDocHandle(Sym):
    def __init__(self, tag):
        self.tag = tag

    def sym_eq(self, ex, other):
        if isinstance(other, SDocHandle):
            return SBool(z3.Bool(f"docs_equal_{self.tag}_{other.tag}"))
        raise Unsupported("document ==")


class WiringCtx(FxCtx):
    def __init__(self, contract, case):
        super().__init__(contract, case)
        self.externals[os.path.isdir] = lambda interp, p: SBool(z3.Bool("src_dir_exists"))


def probe_exclude(patterns, reserved):
    """do the patterns exclude exactly the reserved names (no more, no less) on a probe set of names?"""
    probes = []
    for n in reserved:
        probes += [n, n + ".bak", n + "~", n.replace(".", "x", 1), "x" + n, n[:-1]]
    for n in probes:
        want = n in reserved
        got = any(re.match(p, n) for p in patterns if isinstance(p, str))
        if got != want:
            return False, n
    return True, None


class SyncJobs(Contract):
    target = f"{SY}.sync_jobs"
    properties = ("C13", "C14", "C15")
    ctx_class = WiringCtx
    inline = (f"{SY}._FileModifyProxy.__init__", f"{SY}._log_more", f"{SY}.DocSync.ByKey.__init__")

    def cases(self):
        out = []
        for dry in (False, True, "proxy"):
            for ds in ("default", "NO_SYNC", "COPY", "custom"):
                for excl_arg in (None, "pat", ["pat"]):
                    out.append({"dry_run": dry, "doc_sync": ds, "exclude": excl_arg, "recursive": dry is not True, "deep": ds != "custom"})
        return out

    def setup(self, interp, case):
        ex, ctx = interp.ex, interp.ctx
        g = ctx.ghost
        g["calls"] = []
        src, dst = SJobStub("src", g), SJobStub("dst", g)
        rp = interp.repo
        rp.load(SY)
        from signac.sync import DocSync
        strategy = NativeStub(lambda *a: True, "strategy")
        doc_sync = {"default": None, "NO_SYNC": DocSync.NO_SYNC, "COPY": DocSync.COPY,
                    "custom": NativeStub(lambda s, d: g["calls"].append(("doc_sync", s, d)), "doc_sync")}[case["doc_sync"]]
        if case["dry_run"] == "proxy":
            dry = mk_file_proxy(interp, False, SPathTok("root"))
        else:
            dry = case["dry_run"]
        g.update({"src": src, "dst": dst, "strategy": strategy, "dry": dry})
        ctx.callee_contracts[f"{SY}._identical_path"] = lambda interp_, b: SBool(z3.Bool("identical_paths"))

        def sjw(interp_, b):
            g["calls"].append(("_sync_job_workspaces", b))
            return None
        ctx.callee_contracts[f"{SY}._sync_job_workspaces"] = sjw

        def cdb(interp_, b):
            from pyvc.interp import TransparentCM
            g["calls"].append(("create_doc_backup", b["self"], b["doc"]))
            return TransparentCM(SPathTok("dst_proxy"))
        ctx.callee_contracts[f"{SY}._FileModifyProxy.create_doc_backup"] = cdb

        def bykey_call(interp_, b):
            g["calls"].append(("doc_sync", b["src"], b["dst"]))
            return None
        ctx.callee_contracts[f"{SY}.DocSync.ByKey.__call__"] = bykey_call
        kw = dict(src=src, dst=dst, strategy=strategy, exclude=(list(case["exclude"]) if isinstance(case["exclude"], list) else case["exclude"]), doc_sync=doc_sync,
                  recursive=case["recursive"], deep=case["deep"], dry_run=dry)
        return [], kw, {}

    def post(self, interp, case, pre, outcome):
        from signac.job import Job
        ex, g = interp.ex, interp.ctx.ghost
        calls = g["calls"]
        names = [c[0] for c in calls]
        if outcome[0] == "raise":
            ex.oblige(self.oname("raises:only_ValueError_for_identical_source_and_destination"),
                      z3.And(z3.BoolVal(isinstance(outcome[1], ValueError) and calls == []), z3.Bool("identical_paths")), note=repr(outcome[1]))
            return
        ex.oblige(self.oname("ensures:uninitialised_source_means_nothing_happens"), z3.Implies(z3.Not(z3.Bool("initialised_src")), z3.BoolVal(calls == [])))
        if case["dry_run"] is True:
            ex.oblige(self.oname("frame:dry_run_never_initialises_the_destination"), z3.BoolVal("init" not in names))
        sj = [c for c in calls if c[0] == "_sync_job_workspaces"]
        ex.oblige(self.oname("ensures:files_synchronised_iff_the_source_directory_exists"),
                  z3.Implies(z3.Bool("initialised_src"), z3.Bool("src_dir_exists") == z3.BoolVal(len(sj) == 1)))
        for c in sj:
            b = c[1]
            px = b["copy"].selfobj if hasattr(b["copy"], "selfobj") else None
            ok_fw = (b["src"] is g["src"] and b["dst"] is g["dst"] and b["strategy"] is g["strategy"] and b["recursive"] is case["recursive"] and b["deep"] is case["deep"]
                     and px is not None and getattr(b["copytree"], "selfobj", None) is px)
            ex.oblige(self.oname("call[_sync_job_workspaces]:forwards_strategy_recursive_deep_and_one_proxy_for_copy_and_copytree"), z3.BoolVal(bool(ok_fw)))
            if px is not None:
                want_dry = (g["dry"].fields["dry_run"] if case["dry_run"] == "proxy" else bool(case["dry_run"]))
                ex.oblige(self.oname("call[_sync_job_workspaces]:proxy_carries_the_dry_run_flag"), z3.BoolVal(px.fields.get("dry_run") is want_dry and (case["dry_run"] != "proxy" or px is g["dry"])))
            pats = b["exclude"]
            reserved = [Job.FN_STATE_POINT] + ([] if case["doc_sync"] == "COPY" else [Job.FN_DOCUMENT])
            user = [] if case["exclude"] is None else ["pat"]
            ok_list = isinstance(pats, list) and all(isinstance(p, str) for p in pats) and [p for p in pats if p == "pat"] == user
            ex.oblige(self.oname("call[_sync_job_workspaces]:exclude_is_a_list_keeping_the_user_patterns"), z3.BoolVal(bool(ok_list)))
            if ok_list:
                ok, witness = probe_exclude([p for p in pats if p != "pat"], reserved)
                ex.oblige(self.oname("call[_sync_job_workspaces]:state_point_and_document_files_excluded_by_exact_name"), z3.BoolVal(ok), note=f"probe name {witness!r}")
        ds = [c for c in calls if c[0] == "doc_sync"]
        if case["doc_sync"] in ("NO_SYNC", "COPY"):
            ex.oblige(self.oname("ensures:no_document_merge_for_NO_SYNC_and_COPY"), z3.BoolVal(ds == [] and "create_doc_backup" not in names))
        else:
            ex.oblige(self.oname("ensures:documents_merged_iff_they_differ_under_a_backup_through_the_proxy"),
                      z3.Implies(z3.Bool("initialised_src"), z3.Not(z3.Bool("docs_equal_src_dst")) == z3.BoolVal(len(ds) == 1 and "create_doc_backup" in names)))
            for c in ds:
                ex.oblige(self.oname("call[doc_sync]:source_document_into_the_backup_proxy"),
                          z3.BoolVal(c[1] is g["src"].doc and isinstance(c[2], SPathTok) and c[2].what == "dst_proxy"))


class SyncProjectsCloneOrSync(Contract):
    """sync_projects: schema gate before any effect, one proxy for everything, every option forwarded to the per-job sync"""
    target = f"{SY}.sync_projects"
    properties = ("C13", "C14", "C15")
    ctx_class = WiringCtx
    inline = (f"{SY}._FileModifyProxy.__init__", f"{SY}._log_more", f"{SY}.DocSync.ByKey.__init__")

    def cases(self):
        return [{"dry_run": d, "deep": dp, "recursive": r, "exists": e, "selection": s, "check_schema": cs}
                for d in (False, True) for dp in (False, True) for r in (False, True) for e in (False, True) for s in (None, "ids", "empty") for cs in (True, False)
                if (dp or not r) and (cs or not d)] + \
               [{"dry_run": False, "deep": False, "recursive": False, "exists": True, "selection": None, "check_schema": True, "doc_sync": ds} for ds in ("default", "NO_SYNC", "COPY")] + \
               [{"dry_run": d, "deep": dp, "recursive": False, "exists": e, "selection": s, "check_schema": True, "parallel": par}
                for d in (False, True) for dp in (False, True) for e in (False, True) for s in (None, "ids", "empty") for par in (2, True)]

    def loops(self, case):
        inv = lambda interp, fr, i, seq: z3.BoolVal(True)
        return {"enumerate(jobs_to_sync)": LoopSpec("jobs", inv, havoc={}, scratch=("i", "src_job"),
                                                    heap_frame=lambda interp, fr, w: None)}

    def setup(self, interp, case):
        from signac.errors import DestinationExistsError
        ex, ctx = interp.ex, interp.ctx
        g = ctx.ghost
        g["calls"] = []
        strategy = NativeStub(lambda *a: True, "strategy")
        doc_sync = NativeStub(lambda s, d: g["calls"].append(("project_doc_sync", s, d)), "doc_sync")
        if case.get("doc_sync"):
            from signac.sync import DocSync
            doc_sync = {"default": None, "NO_SYNC": DocSync.NO_SYNC, "COPY": DocSync.COPY}[case["doc_sync"]]
        g["strategy"], g["doc_sync"] = strategy, doc_sync
        the_job = SJobStub("j", g)
        other_job = SJobStub("unselected", g)

        class SProject(Sym):
            def __init__(s, tag):
                s.tag = tag
                s.doc = SDocHandle("p" + tag)

            def sym_eq(s, ex_, other):
                return s is other

            def sym_str(s, ex_):
                return OpaqueStr()

            def sym_iter(s, ex_):
                return [the_job, other_job]

            def sym_getattr(s, ex_, name):
                if name in ("workspace", "path"):
                    return SPathTok((name, s.tag))
                if name == "document":
                    return s.doc
                if name == "detect_schema":
                    def ds():
                        g["calls"].append(("detect_schema", s.tag))
                        return SSchema(s.tag)
                    return NativeStub(ds, "detect_schema")
                if name == "clone":
                    def clone(job, copytree=None):
                        g["calls"].append(("clone", job, copytree))
                        if case["exists"]:
                            raise RaiseSignal(DestinationExistsError(job))
                        return job
                    return NativeStub(clone, "clone")
                if name == "open_job":
                    def open_job(statepoint=None, id=None):
                        g["calls"].append(("open_job", id))
                        return SJobStub("dst_of_" + str(getattr(id, "what", id)), g)
                    return NativeStub(open_job, "open_job")
                raise Unsupported(f"project.{name}")

        class SSchema(Sym):
            def __init__(s, tag):
                s.tag = tag

            def sym_truth(s, ex_):
                return z3.Bool(f"schema_nonempty_{s.tag}")

            def sym_eq(s, ex_, other):
                return SBool(z3.Bool("schemas_equal"))

            def sym_getattr(s, ex_, name):
                if name == "difference":
                    return NativeStub(lambda other: SDiffSet(s.tag), "schema.difference")
                raise Unsupported(name)

        class SDiffSet(Sym):
            def __init__(s, tag):
                s.tag = tag

            def sym_truth(s, ex_):
                return z3.Bool(f"schema_diff_{s.tag}")

        source, destination = SProject("src"), SProject("dst")
        g.update({"source": source, "destination": destination, "job": the_job, "other": other_job})

        def sync_jobs_stub(interp_, b):
            g["calls"].append(("sync_jobs", b))
            return None
        ctx.callee_contracts[f"{SY}.sync_jobs"] = sync_jobs_stub

        def cdb(interp_, b):
            from pyvc.interp import TransparentCM
            g["calls"].append(("create_doc_backup", b["self"], b["doc"]))
            return TransparentCM(SPathTok("dst_proxy"))
        ctx.callee_contracts[f"{SY}._FileModifyProxy.create_doc_backup"] = cdb
        sel = None if case["selection"] is None else ([the_job] if case["selection"] == "ids" else [])
        kw = dict(source=source, destination=destination, strategy=strategy, exclude="pat", doc_sync=doc_sync, selection=sel, check_schema=case["check_schema"],
                  recursive=case["recursive"], deep=case["deep"], dry_run=case["dry_run"])
        if "parallel" in case:
            kw["parallel"] = case["parallel"]
            from multiprocessing.pool import ThreadPool

            class SPool(Sym):
                """ThreadPool(n) as a context manager; imap(f, seq) calls f once on every element and hands the results over in order.
                Interleaving of the calls is not modelled: the per-job operations work on different job directories (assumed independent)."""

                def sym_with(s, interp_, body):
                    return body(s)

                def sym_getattr(s, ex_, name):
                    if name == "imap":
                        def imap(interp_, f, seq):
                            if isinstance(seq, Sym):
                                seq = seq.sym_iter(interp_.ex)
                            if not isinstance(seq, list):
                                raise Unsupported("imap over something that is not a list of jobs")
                            g["calls"].append(("imap", f, list(seq)))
                            return [interp_.call(f, [x], {}) for x in seq]
                        return NativeStub(imap, "pool.imap", wants_ex=True)
                    raise Unsupported(f"pool.{name}")

            def mkpool(interp_, *a, **k):
                g["calls"].append(("ThreadPool", a, k))
                return SPool()
            ctx.externals[ThreadPool] = mkpool
            ex.assumptions_used.add("ThreadPool.imap(f, jobs): f is called once on every job, results in order; concurrent calls work on different job directories and are assumed independent (thread interleavings not modelled)")
        return [], kw, {}

    def make_ctx(self, case):
        ctx = super().make_ctx(case)

        def comprehension(interp, node, frame):
            import ast
            # {str(j) for j in selection}  /  [job for job in source if job.id in selection]
            src_txt = ast.unparse(node)
            g = ctx.ghost
            if src_txt == "{str(j) for j in selection}":
                return SSelection(case["selection"] == "ids")
            if src_txt == "[job for job in source if job.id in selection]":
                return [g["job"]] if case["selection"] == "ids" else []
            return NotImplemented
        ctx.comprehension = comprehension
        ctx.callee_contracts[f"{SY}.DocSync.ByKey.__call__"] = lambda interp, b: ctx.ghost["calls"].append(("project_doc_sync", b["src"], b["dst"]))
        ctx.listify = lambda ex, v, f: [ctx.ghost["job"], ctx.ghost["other"]]
        orig = ctx.builtin_hook

        def bh(interp, f, args, kw):
            if f is list and args and args[0] is ctx.ghost["source"]:
                return [ctx.ghost["job"], ctx.ghost["other"]]
            return orig(interp, f, args, kw)
        ctx.builtin_hook = bh
        return ctx

    def post(self, interp, case, pre, outcome):
        from signac.errors import SchemaSyncConflict
        ex, g = interp.ex, interp.ctx.ghost
        calls = g["calls"]
        names = [c[0] for c in calls]
        effects = [c for c in calls if c[0] in ("clone", "sync_jobs", "project_doc_sync", "create_doc_backup", "open_job")]
        if outcome[0] == "raise":
            exc = outcome[1]
            ex.oblige(self.oname("raises:SchemaSyncConflict_before_any_effect"), z3.BoolVal(isinstance(exc, SchemaSyncConflict) and effects == [] and case["check_schema"]), note=repr(exc))
            return
        clones = [c for c in calls if c[0] == "clone"]
        sel_jobs = [g["job"], g["other"]] if case["selection"] is None else ([g["job"]] if case["selection"] == "ids" else [])
        if "parallel" in case:
            pools = [c for c in calls if c[0] == "ThreadPool"]
            maps = [c for c in calls if c[0] == "imap"]
            okp = len(pools) == 1 and (pools[0][1] == ((None,) if case["parallel"] is True else (case["parallel"],))) and not pools[0][2] \
                and len(maps) == 1 and maps[0][2] == sel_jobs and all(a is b for a, b in zip(maps[0][2], sel_jobs))
            ex.oblige(self.oname("call[ThreadPool]:parallel=n_uses_n_threads_(True:_the_default_number)_and_maps_the_clone-or-sync_step_over_exactly_the_selected_jobs"), z3.BoolVal(bool(okp)),
                      note=repr([(c[0], c[1] if c[0] == "ThreadPool" else len(c[2])) for c in pools + maps]))
        ex.oblige(self.oname("ensures:exactly_the_selected_jobs_are_cloned_or_synchronised"), z3.BoolVal([c[1] for c in clones] == sel_jobs))
        pxs = {id(getattr(c[2], "selfobj", None)) for c in clones}
        px = getattr(clones[0][2], "selfobj", None) if clones else None
        if not sel_jobs:
            return
        ex.oblige(self.oname("call[clone]:copies_through_the_proxy_carrying_dry_run"),
                  z3.BoolVal(px is not None and len(pxs) == 1 and px.fields.get("dry_run") is case["dry_run"] and getattr(clones[0][2], "func", None) is not None
                             and clones[0][2].func.qual.endswith("_FileModifyProxy.copytree")))
        sjs = [c[1] for c in calls if c[0] == "sync_jobs"]
        ex.oblige(self.oname("ensures:existing_destination_jobs_are_synchronised_instead_of_cloned"), z3.BoolVal(len(sjs) == (len(sel_jobs) if case["exists"] else 0)))
        if case.get("doc_sync"):
            from pyvc.interp import Obj as _Obj
            for b in sjs:
                got = b["doc_sync"]
                if case["doc_sync"] == "default":
                    okd = isinstance(got, _Obj) and got.cls.name == "ByKey" and got.fields.get("key_strategy") is None
                else:
                    okd = got is g["doc_sync"]
                ex.oblige(self.oname("call[sync_jobs]:no_doc_sync_means_key_by_key,_NO_SYNC_and_COPY_are_passed_on_as_they_are"), z3.BoolVal(bool(okd)), note=repr(got))
            pds = [c for c in calls if c[0] in ("project_doc_sync", "create_doc_backup")]
            ex.oblige(self.oname("ensures:the_project_document_is_left_alone_under_NO_SYNC"), z3.BoolVal(case["doc_sync"] != "NO_SYNC" or pds == []), note=repr([c[0] for c in pds]))
            return
        for b in sjs:
            ok = (b["strategy"] is g["strategy"] and b["exclude"] == "pat" and b["doc_sync"] is g["doc_sync"] and b["recursive"] is case["recursive"] and b["dry_run"] is px)
            ex.oblige(self.oname("call[sync_jobs]:forwards_strategy_exclude_doc_sync_recursive_and_the_proxy"), z3.BoolVal(bool(ok)))
            ex.oblige(self.oname("call[sync_jobs]:forwards_deep"), z3.BoolVal(b["deep"] is case["deep"]), note=f"deep={b['deep']!r}, requested {case['deep']!r}")


class SSelection(Sym):
    """{str(j) for j in selection}: the selected id strings (one id, or none)"""

    def __init__(self, nonempty=True):
        self.nonempty = nonempty

    def sym_truth(self, ex):
        return self.nonempty

    def sym_len(self, ex):
        return 1 if self.nonempty else 0

    def sym_contains(self, ex, x):
        return self.nonempty


CONTRACTS += [SyncJobs(), SyncProjectsCloneOrSync()]


# ============================================================================= create_backup / create_doc_backup: roll-back on any exception
Content = z3.DeclareSort("Content")
ABSENT = z3.Const("ABSENT", Content)


class BodyError(Exception):
    pass


class BodyInterrupt(KeyboardInterrupt):
    """the body is aborted by something that is not an `Exception` (an interrupt, SystemExit): a failed sync all the same, and the code's bare
    `except:` rolls back for it as for a DocumentSyncConflict"""


class BackupCtx(Ctx):
    def __init__(self, contract, case):
        super().__init__(contract, case)
        g = self.ghost
        g["files"] = {}

        def key(p):
            return repr(p.what) if isinstance(p, SPathTok) else repr(p)

        def copy2(interp, a, b):
            g["files"][key(b)] = g["files"].get(key(a), ABSENT)
        self.externals[shutil.copy2] = copy2
        self.externals[os.remove] = lambda interp, p: g["files"].__setitem__(key(p), ABSENT)
        self.externals[os.unlink] = lambda interp, p: g["files"].__setitem__(key(p), ABSENT)

        def move(interp, a, b):
            g["files"][key(b)] = g["files"].get(key(a), ABSENT)
            g["files"][key(a)] = ABSENT
        for fn_ in (os.replace, os.rename, shutil.move):
            self.externals[fn_] = move           # a direct move (not through the proxy, so not gated by dry_run either)
        self.externals[shutil.copy] = copy2
        self.externals[shutil.copyfile] = copy2
        self.externals[os.path.isfile] = lambda interp, p: SBool(g["files"].get(key(p), ABSENT) != ABSENT)
        self.externals[os.path.exists] = lambda interp, p: SBool(g["files"].get(key(p), ABSENT) != ABSENT)
        self.key = key


class CreateBackup(Contract):
    target = f"{SY}._FileModifyProxy.create_backup"
    properties = ("C13", "C14", "C15")
    ctx_class = BackupCtx
    inline = (f"{SY}._FileModifyProxy._copy2", f"{SY}._FileModifyProxy._remove", f"{SY}._log_more")
    callees = {"signac._utility._safe_relpath": stub_safe_relpath}

    def cases(self):
        return [{"dry_run": d, "body": b, "stale": st} for d in (False, True) for b in ("ok", "raises", "interrupted") for st in (False, True) if not (st and b != "ok")]

    def setup(self, interp, case):
        g = interp.ctx.ghost
        p = SPathTok("docfile")
        orig = z3.Const("orig_content", Content)
        interp.ex.assume(orig != ABSENT)
        g["files"][interp.ctx.key(p)] = orig
        g.update({"p": p, "orig": orig})
        if case["stale"]:
            # a file of that name already sits next to the document (left behind by an interrupted run, or simply the user's): it exists
            # only in the destination and is not ours to overwrite or delete
            stale = z3.Const("stale_backup_content", Content)
            interp.ex.assume(stale != ABSENT)
            g["files"][interp.ctx.key(SPathTok(("backup", p)))] = stale
            g["stale"] = stale
        return [mk_file_proxy(interp, case["dry_run"], None), p], {}, {}

    def yield_hook(self, interp, case, pre):
        def hook(v):
            g = interp.ctx.ghost
            g["yielded"] = v
            g["backup_at_yield"] = g["files"].get(interp.ctx.key(SPathTok(("backup", g["p"]))), ABSENT)
            if not case["dry_run"]:
                # the body may rewrite the document file arbitrarily
                g["files"][interp.ctx.key(g["p"])] = z3.Const("content_written_by_body", Content)
            if case["body"] == "raises":
                raise RaiseSignal(BodyError("doc sync failed"))
            if case["body"] == "interrupted":
                raise RaiseSignal(BodyInterrupt())
        return hook

    def post(self, interp, case, pre, outcome):
        ex, g = interp.ex, interp.ctx.ghost
        key = interp.ctx.key
        cur = g["files"].get(key(g["p"]), ABSENT)
        bak = g["files"].get(key(SPathTok(("backup", g["p"]))), ABSENT)
        if case["stale"]:
            ex.oblige(self.oname("raises:an_existing_file_under_the_backup_name_is_refused_(RuntimeError)_and_left_exactly_as_it_was,_the_body_never_runs"),
                      z3.And(z3.BoolVal(outcome[0] == "raise" and isinstance(outcome[1], RuntimeError) and "yielded" not in g), bak == g["stale"], cur == g["orig"]),
                      note=repr(outcome)[:150])
            return
        ex.oblige(self.oname("ensures:backup_file_is_removed_in_every_case"), bak == ABSENT)
        if case["dry_run"]:
            ex.oblige(self.oname("frame:dry_run_touches_no_file"), cur == g["orig"])
        elif "backup_at_yield" in g:
            ex.oblige(self.oname("ensures:backup_holds_the_original_while_the_body_runs"), g["backup_at_yield"] == g["orig"])
        if case["body"] != "ok":
            ex.oblige(self.oname("raises:body_exception_propagates"), z3.BoolVal(outcome[0] == "raise" and isinstance(outcome[1], (BodyError, BodyInterrupt))))
            ex.oblige(self.oname("raises:document_file_restored_to_its_pre_sync_content"), cur == g["orig"])
        else:
            ex.oblige(self.oname("ensures:normal_exit"), z3.BoolVal(outcome[0] == "return"), note=repr(outcome[1]))


DocC = z3.DeclareSort("DocC")
EMPTYDOC = z3.Const("EMPTYDOC", DocC)
doc_upd = z3.Function("doc_upd", DocC, DocC, DocC)


class SDocObj(Sym):
    """a document object whose whole content is an abstract term (dict semantics of the dependency: update(empty, x) == x)"""

    def __init__(self, c, has_file):
        self.c, self.has_file = c, has_file

    def sym_len(self, ex):
        from pyvc.core import SInt
        n = z3.Int("doc_len")
        ex.assume(z3.And(n >= 0, (n == 0) == (self.c == EMPTYDOC)))
        return SInt(n)

    def sym_getattr(self, ex, name):
        if name in ("filename", "_filename"):
            if self.has_file:
                return SPathTok("docfile")
            raise RaiseSignal(AttributeError(name))
        if name == "clear":
            return NativeStub(lambda: setattr(self, "c", EMPTYDOC), "doc.clear")
        if name == "keys":
            return NativeStub(lambda: SKeyList(), "doc.keys")
        raise Unsupported(f"doc.{name}")


class CreateDocBackup(Contract):
    target = f"{SY}._FileModifyProxy.create_doc_backup"
    properties = ("C14", "C15")
    ctx_class = BackupCtx
    inline = (f"{SY}._DocProxy.__init__", f"{SY}._DocProxy.__len__", f"{SY}._DocProxy.clear")

    def cases(self):
        return [{"dry_run": d, "body": b, "kind": k} for d in (False, True) for b in ("ok", "raises", "interrupted") for k in ("memory", "file", "file-with-stale-backup")]

    def make_ctx(self, case):
        import copy
        ctx = super().make_ctx(case)
        g = ctx.ghost

        def deepcopy(interp, v):
            if isinstance(v, SDocObj):
                return SDocObj(v.c, False)
            raise Unsupported("deepcopy")
        ctx.externals[copy.deepcopy] = deepcopy

        def upd(interp, b):
            # callee view of _DocProxy.update (DpUpdate): live: every key of `other` assigned; dry run: nothing
            px, other = b["self"], b["other"]
            if not px.fields["dry_run"]:
                d = px.fields["doc"]
                d.c = doc_upd(d.c, other.c)
            return None
        ctx.callee_contracts[f"{SY}._DocProxy.update"] = upd

        def cb(interp, b):
            from pyvc.interp import TransparentCM
            g["create_backup_called_with"] = b["path"]
            return TransparentCM(SPathTok("backup-path"))
        ctx.callee_contracts[f"{SY}._FileModifyProxy.create_backup"] = cb
        return ctx

    def setup(self, interp, case):
        ex, g = interp.ex, interp.ctx.ghost
        orig = z3.Const("orig_doc", DocC)
        x = z3.Const("ux", DocC)
        ex.assume(z3.ForAll([x], doc_upd(EMPTYDOC, x) == x))
        doc = SDocObj(orig, case["kind"] != "memory")
        if case["kind"] != "memory":
            ex.assume(orig != EMPTYDOC)
            g["files"][interp.ctx.key(SPathTok("docfile"))] = z3.Const("some_content", Content)
            ex.assume(z3.Const("some_content", Content) != ABSENT)
        if case["kind"] == "file-with-stale-backup":
            # a backup file left behind by an interrupted sync sits next to the document
            g["files"][interp.ctx.key(SPathTok(("backup", SPathTok("docfile"))))] = z3.Const("stale_backup", Content)
            ex.assume(z3.Const("stale_backup", Content) != ABSENT)
        g.update({"doc": doc, "orig": orig})
        return [mk_file_proxy(interp, case["dry_run"], None), doc], {}, {}

    def yield_hook(self, interp, case, pre):
        def hook(v):
            g = interp.ctx.ghost
            g["yielded"] = v
            if case["kind"] == "memory" and not case["dry_run"]:
                g["doc"].c = z3.Const("doc_written_by_body", DocC)      # the merge may have changed the document arbitrarily
            if case["body"] == "raises":
                raise RaiseSignal(BodyError("conflict"))
            if case["body"] == "interrupted":
                raise RaiseSignal(BodyInterrupt())
        return hook

    def post(self, interp, case, pre, outcome):
        ex, g = interp.ex, interp.ctx.ghost
        y = g.get("yielded")
        ok_proxy = isinstance(y, Obj) and y.cls.name == "_DocProxy" and y.fields.get("doc") is g["doc"] and y.fields.get("dry_run") is case["dry_run"]
        ex.oblige(self.oname("ensures:yields_a_proxy_of_the_document_carrying_dry_run"), z3.BoolVal(bool(ok_proxy)))
        if case["kind"] != "memory":
            cb = g.get("create_backup_called_with")
            ex.oblige(self.oname("ensures:file_backed_documents_are_protected_by_a_file_backup"), z3.BoolVal(isinstance(cb, SPathTok) and cb.what == "docfile"))
        if case["body"] != "ok":
            ex.oblige(self.oname("raises:body_exception_propagates"), z3.BoolVal(outcome[0] == "raise" and isinstance(outcome[1], (BodyError, BodyInterrupt))), note=repr(outcome[1]))
            if case["kind"] == "memory":
                ex.oblige(self.oname("raises:in_memory_document_rolled_back_to_its_pre_sync_content"), g["doc"].c == g["orig"])
        else:
            ex.oblige(self.oname("ensures:normal_exit"), z3.BoolVal(outcome[0] == "return"), note=repr(outcome[1]))


CONTRACTS += [CreateBackup(), CreateDocBackup()]


# ============================================================================= FileSync strategies


class SMtime(Sym):
    def __init__(self, e):
        self.e = e

    def sym_compare(self, ex, op, other, reflected=False):
        if not isinstance(other, SMtime):
            raise Unsupported("mtime comparison with a non-mtime")
        a, b = (other.e, self.e) if reflected else (self.e, other.e)
        return SBool({"Lt": a < b, "LtE": a <= b, "Gt": a > b, "GtE": a >= b}[op])

    def sym_eq(self, ex, other):
        if isinstance(other, SMtime):
            return SBool(self.e == other.e)
        raise Unsupported("mtime ==")


class FileSyncStrategies(Contract):
    target = f"{SY}.FileSync.update"
    properties = ("C13", "C14")

    def cases(self):
        return [{"fn": "update"}, {"fn": "always"}, {"fn": "never"}]

    def make_ctx(self, case):
        ctx = super().make_ctx(case)
        g = ctx.ghost
        ctx.externals[os.path.getmtime] = lambda interp, p: SMtime(g["mt"][p.side]) if isinstance(p, SPath) and p.fn is not None else (_ for _ in ()).throw(Unsupported("getmtime"))

        class SStatM(Sym):
            def __init__(s_, side):
                s_.side = side

            def sym_getattr(s_, ex, name):
                if name in ("st_mtime", "st_mtime_ns"):      # the same instant, whatever the unit
                    return SMtime(g["mt"][s_.side])
                raise Unsupported("stat field " + name)
        ctx.externals[os.stat] = lambda interp, p: SStatM(p.side) if isinstance(p, SPath) and p.fn is not None else (_ for _ in ()).throw(Unsupported("os.stat"))

        class SPick(Sym):
            """max / min of two values by a key: the first one wins ties (CPython)"""

            def __init__(s_, first_wins, a, b):
                s_.c, s_.a, s_.b = first_wins, a, b

            def sym_is(s_, ex, other):
                if other is s_.a:
                    return SBool(s_.c)
                if other is s_.b:
                    return SBool(z3.Not(s_.c))
                return False

            def sym_eq(s_, ex, other):
                return s_.sym_is(ex, other)
        base_hook = ctx.builtin_hook

        def hook(interp, f, args, kw):
            if f in (max, min) and len(args) == 2 and set(kw) <= {"key"}:
                key = kw.get("key")
                ka, kb = (interp.call(key, [x], {}) for x in args) if key is not None else args
                if isinstance(ka, SMtime) and isinstance(kb, SMtime):
                    return SPick(ka.e >= kb.e if f is max else ka.e <= kb.e, args[0], args[1])
            return base_hook(interp, f, args, kw)
        ctx.builtin_hook = hook
        return ctx

    def setup(self, interp, case):
        g = interp.ctx.ghost
        g["mt"] = {"src": z3.Real("mtime_src"), "dst": z3.Real("mtime_dst")}
        self.target = f"{SY}.FileSync.{case['fn']}"
        src, dst = SJobRef("src"), SJobRef("dst")
        return [src, dst, SFn(z3.Const("thefile", Fn))], {}, {}

    def post(self, interp, case, pre, outcome):
        ex, g = interp.ex, interp.ctx.ghost
        name = f"{SY}.FileSync.{case['fn']}"
        if outcome[0] != "return":
            ex.oblige(name + "#raises:nothing", False, note=repr(outcome[1]))
            return
        r = outcome[1]
        if case["fn"] == "update":
            ex.oblige(name + "#ensures:overwrite_iff_the_source_file_is_strictly_newer", r.e == (g["mt"]["src"] > g["mt"]["dst"]) if isinstance(r, SBool) else z3.BoolVal(False))
        else:
            ex.oblige(name + f"#ensures:{case['fn']}_is_constant", z3.BoolVal(r is (case["fn"] == "always")))


def _mk_strategy_contract(fn):
    class C(FileSyncStrategies):
        target = f"{SY}.FileSync.{fn}"

        def cases(self):
            return [{"fn": fn}]

        def setup(self, interp, case):
            g = interp.ctx.ghost
            g["mt"] = {"src": z3.Real("mtime_src"), "dst": z3.Real("mtime_dst")}
            return [SJobRef("src"), SJobRef("dst"), SFn(z3.Const("thefile", Fn))], {}, {}
    C.__name__ = "FileSync_" + fn
    return C()


CONTRACTS += [_mk_strategy_contract(f) for f in ("update", "always", "never")]
